(* Specification for C12, transcribed independently of the code from
   doc/user_manual.tex (section "Test Statistic", eq. TS and the ns = 0
   expression), the class docstrings of skyllh/core/test_statistic.py and the
   docstrings of the p-value helpers. *)
From Coq Require Import Reals ZArith List Bool QArith.
Import ListNotations.

(* ---- manual eq. (TS): TS = 2 sgn(ns) log Lambda; docstring: "sign(ns) is
   negative for ns < 0, and positive otherwise" *)
Definition sgn_doc (ns : R) : R := if Rlt_dec ns 0 then (-1)%R else 1%R.
Definition TS_doc (ns log_lambda : R) : R := (2 * sgn_doc ns * log_lambda)%R.

(* ---- manual, ns = 0:  TS = -2 (dlogL/dns)^2 / (4 d2logL/dns2) *)
Definition TS0_doc (a b : R) : R := (- 2 * (a * a / (4 * b)))%R.

(* the parabola whose apex the expression above refers to, and the
   second-order Taylor polynomial of log Lambda around ns = 0 (log Lambda(0) = 0,
   first derivative a, second derivative b) *)
Definition parabola (a b x : R) : R := (a * x + b * (x * x))%R.
Definition taylor2 (a b x : R) : R := (a * x + b / 2 * (x * x))%R.

(* ---- trial-based p-value: fraction of trials above the threshold *)
Fixpoint count_spec (P : Z -> bool) (l : list Z) : Z :=
  match l with
  | [] => 0%Z
  | x :: r => ((if P x then 1 else 0) + count_spec P r)%Z
  end.
Definition n_greater (ts : list Z) (t : Z) : Z := count_spec (fun x => Z.ltb t x) ts.
Definition n_greater_equal (ts : list Z) (t : Z) : Z := count_spec (fun x => Z.leb t x) ts.
(* the p-value as a rational number *)
Definition frac (k n : Z) : Q := Qmake k (Z.to_pos n).

(* ---- fitted curves (np.polyfit: highest power first) *)
Definition line (a b x : R) : R := (a * x + b)%R.
Definition quadratic (a b c x : R) : R := (a * (x * x) + b * x + c)%R.
