(* Independent, simple specifications the model of M_Random.v is proved
   against.  Nothing here refers to the model's functions. *)
From Coq Require Import ZArith List Bool.
From Sky Require Import Num.
Import ListNotations.
Open Scope Z_scope.

(* a seed is fresh for a trial file when no row carries it *)
Definition fresh (seeds : list Z) (s : Z) : Prop := ~ In s seeds.

(* the smallest positive integer that is not in the list *)
Definition least_unused_pos (seeds : list Z) (s : Z) : Prop :=
  1 <= s /\ ~ In s seeds /\ forall j, 1 <= j < s -> In j seeds.

Section Choice.
  Context {T : Type} (N : Num T).
  Definition nonnegT (x : T) : Prop := nleb N (nzero N) x = true.
  Definition posT (x : T) : Prop := nltb N (nzero N) x = true.
  Definition unit_interval (x : T) : Prop :=
    nleb N (nzero N) x = true /\ nltb N x (none N) = true.

  (* inverse-cdf reading: k is the first position whose cdf entry exceeds u *)
  Definition inverse_cdf (cdf : list T) (u : T) (k : nat) : Prop :=
    (forall i e, (i < k)%nat -> nth_error cdf i = Some e -> nleb N e u = true)
    /\ (exists e, nth_error cdf k = Some e /\ nleb N e u = false).
End Choice.

Section Streams.
  Variables state data : Type.
  (* one trial's data generation as a state transformer *)
  Variable gen : state -> data * state.
  Fixpoint data_stream (n : nat) (s : state) : list data * state :=
    match n with
    | O => ([], s)
    | S n' => let '(d, s1) := gen s in
              let '(l, s2) := data_stream n' s1 in (d :: l, s2)
    end.
  (* n applications of a state transformer *)
  Fixpoint iter_state (f : state -> state) (n : nat) (s : state) : state :=
    match n with O => s | S n' => iter_state f n' (f s) end.
End Streams.
