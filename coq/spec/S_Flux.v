(* Specification side of C13: profile-level operations, and the plain parameter
   tuples (t0, tw) / (t0, sigma_t) that a box / Gaussian profile is refined to:
   what each operation of the parameter interface is supposed to do to them. *)
From Coq Require Import Reals ZArith List Bool.
From Sky Require Import Result Num NumR M_Flux.
Import ListNotations.

Section Ops.
  Context {T : Type} (N : Num T).
  Inductive top : Type :=
  | TSetParams (pd : list (pname * T))
  | TSetAttr (n : pname) (v : T)
  | TMove (dt : T) (u : option Z).
  Definition t_apply (p : tprof) (o : top) : tprof :=
    match o with
    | TSetParams pd => fst (t_set_params N pd p)
    | TSetAttr n v => t_set N p n v
    | TMove dt u => t_move N p dt u
    end.
  Definition t_run (ops : list top) (p : tprof) : tprof := fold_left t_apply ops p.
  (* operations of the parameter interface (not the raw window edges t_start / t_stop) *)
  Definition par_op (o : top) : Prop :=
    match o with TSetAttr n _ => n <> nTstart /\ n <> nTstop | _ => True end.
End Ops.

Open Scope R_scope.
Definition pick (pd : list (pname * R)) (n : pname) (cur : R) : R :=
  match lookup pd n with Some v => v | None => cur end.
(* a time difference given in unit u, expressed in the profile's unit tu *)
Definition shift (tu : Z) (dt : R) (u : option Z) : R :=
  match u with
  | None => dt
  | Some u => if (u =? tu)%Z then dt else dt * (IZR (tfac u) / IZR (tfac tu))
  end.
(* an argument given in unit `unit`, expressed in the profile's unit su — converted once *)
Definition once (fac : Z -> Z) (unit : option Z) (su : Z) (x : R) : R :=
  match unit with
  | None => x
  | Some u => if (u =? su)%Z then x else x * (IZR (fac u) / IZR (fac su))
  end.
Definition box_spec (tu : Z) (st : R * R) (o : top (T := R)) : R * R :=
  match o with
  | TSetParams pd => (pick pd nT0 (fst st), pick pd nTw (snd st))
  | TSetAttr n v => if pname_beq n nT0 then (v, snd st) else if pname_beq n nTw then (fst st, v) else st
  | TMove dt u => (fst st + shift tu dt u, snd st)
  end.
(* the same including the raw window-edge properties t_start / t_stop *)
Definition box_spec_full (tu : Z) (st : R * R) (o : top (T := R)) : R * R :=
  match o with
  | TSetAttr nTstart v => ((v + (fst st + snd st / 2)) / 2, (fst st + snd st / 2) - v)
  | TSetAttr nTstop v => (((fst st - snd st / 2) + v) / 2, v - (fst st - snd st / 2))
  | _ => box_spec tu st o
  end.
Definition gauss_spec (tu : Z) (st : R * R) (o : top (T := R)) : R * R :=
  match o with
  | TSetParams pd => (pick pd nT0 (fst st), pick pd nSigma (snd st))
  | TSetAttr n v => if pname_beq n nT0 then (v, snd st) else if pname_beq n nSigma then (fst st, v) else st
  | TMove dt u => (fst st + shift tu dt u, snd st)
  end.

(* a computing instance (integers; the transcendental fields are dummies) used only
   to run the store-level definitions inside Coq for the non-vacuity examples *)
Definition ZNum : Num Z := {|
  nzero := 0%Z; none := 1%Z;
  nadd := Z.add; nsub := Z.sub; nmul := Z.mul; ndiv := Z.div; nopp := Z.opp;
  nltb := Z.ltb; nleb := Z.leb; neqb := Z.eqb;
  nsqrt := Z.sqrt; nexp := (fun x : Z => x); nln := (fun x : Z => x); nlog1p := (fun x : Z => x); nlog10 := (fun x : Z => x);
  nsin := (fun x : Z => x); ncos := (fun x : Z => x); ntan := (fun x : Z => x); nasin := (fun x : Z => x); nacos := (fun x : Z => x); natan := (fun x : Z => x);
  nabs := Z.abs; nfloor := (fun x : Z => x); nceil := (fun x : Z => x); nrint := (fun x : Z => x); ntrunc := (fun x : Z => x); nerf := (fun x : Z => x);
  natan2 := Z.add; npow := Z.pow; nfmod := Z.modulo; nmin := Z.min; nmax := Z.max;
  npi := 3%Z; nisnan := fun _ => false |}.
