(* Specification for C05, written without reference to the numpy plumbing.

   A selection is described by an index-level criterion  ci k j  (source k,
   event j of the given events).  The documented result is
     - the events that qualify for at least one source, in original order
       (spec_orig: their original indices, ascending),
     - the table of the qualifying (source, event) pairs, grouped by ascending
       source and, within a source, by ascending event, the event index
       pointing into the selected events (spec_pairs).
   crit_of gives the documented (source, event) criterion of a method tree; an
   intersection qualifies a pair when both parts do. *)
From Coq Require Import ZArith List Bool.
From Sky Require Import M_Select.
Import ListNotations.
Local Open Scope nat_scope.

Definition spec_orig (ci : nat -> nat -> bool) (ns ne : nat) : list nat :=
  filter (fun j => existsb (fun k => ci k j) (seq 0 ns)) (seq 0 ne).

Definition spec_pairs (ci : nat -> nat -> bool) (ns : nat) (orig : list nat)
  : list (nat * nat) :=
  flat_map (fun k =>
    flat_map (fun p => if ci k (snd p) then [(k, fst p)] else [])
             (combine (seq 0 (length orig)) orig))
    (seq 0 ns).

(* lexicographic order on (source, event) pairs *)
Definition lexlt (p q : Z * Z) : Prop :=
  (fst p < fst q)%Z \/ (fst p = fst q /\ (snd p < snd q)%Z).

Fixpoint crit_of {S E} (m : meth S E) (ns : nat) : S -> E -> bool :=
  match m with
  | MAll => fun _ _ => true
  | MBand _ c => c
  | MBox bs cra crab cdec =>
      fun s e => (if (Z.of_nat ns >? bs)%Z then crab s e else cra s e) && cdec s e
  | MPsi c => fun _ e => c e
  | MPair c => c
  | MAnd a b => fun s e => crit_of a ns s e && crit_of b ns s e
  end.

(* side conditions under which a method tree exists and runs: PsiFunc is
   constructible for exactly one source; the batch size is positive *)
Fixpoint wf_meth {S E} (m : meth S E) (ns : nat) : Prop :=
  match m with
  | MPsi _ => ns = 1%nat
  | MBox bs _ _ _ => (0 < bs)%Z
  | MAnd a b => wf_meth a ns /\ wf_meth b ns
  | _ => True
  end.
