(* Specification for C05, written without reference to the numpy plumbing.

   A selection is described by an index-level criterion  ci k j  (source k,
   event j of the given events).  The documented result is
     - the events that qualify for at least one source, in original order
       (spec_orig: their original indices, ascending),
     - the table of the qualifying (source, event) pairs, grouped by ascending
       source and, within a source, by ascending event, the event index
       pointing into the selected events (spec_pairs).
   crit_of gives the documented (source, event) criterion of a method tree; an
   intersection qualifies a pair when both parts do. *)
From Coq Require Import ZArith List Bool Sorting.Sorted.
From Sky Require Import M_Select.
Import ListNotations.
Local Open Scope nat_scope.

Definition spec_orig (ci : nat -> nat -> bool) (ns ne : nat) : list nat :=
  filter (fun j => existsb (fun k => ci k j) (seq 0 ns)) (seq 0 ne).

Definition spec_pairs (ci : nat -> nat -> bool) (ns : nat) (orig : list nat)
  : list (nat * nat) :=
  flat_map (fun k =>
    flat_map (fun p => if ci k (snd p) then [(k, fst p)] else [])
             (combine (seq 0 (length orig)) orig))
    (seq 0 ns).

(* lexicographic order on (source, event) pairs *)
Definition lexlt (p q : Z * Z) : Prop :=
  (fst p < fst q)%Z \/ (fst p = fst q /\ (snd p < snd q)%Z).

Fixpoint crit_of {S E} (m : meth S E) (ns : nat) : S -> E -> bool :=
  match m with
  | MAll => fun _ _ => true
  | MBand _ c => c
  | MBox bs cra crab cdec => fun s e => cra s e && cdec s e
  | MPsi c => fun _ e => c e
  | MPair c => c
  | MAnd a b => fun s e => crit_of a ns s e && crit_of b ns s e
  end.

(* side conditions under which a method tree exists and runs: PsiFunc is
   constructible for exactly one source; the batch size is positive and the two
   textual copies of the RA mask of SpatialBox (batched / unbatched path) are the
   same criterion (proved for the translated formulas in P_SelectNum.box_ra_copies) *)
Fixpoint wf_meth {S E} (m : meth S E) (ns : nat) : Prop :=
  match m with
  | MPsi _ => ns = 1%nat
  | MBox bs cra crab _ => (0 < bs)%Z /\ (forall s e, crab s e = cra s e)
  | MAnd a b => wf_meth a ns /\ wf_meth b ns
  | _ => True
  end.

(* index-level reading of a (source, event) criterion: pair (k, j) qualifies
   when source k and event j exist and the criterion holds for them *)
Definition cidx {S E} (c : S -> E -> bool) (srcs : list S) (evs : list E)
           (k j : nat) : bool :=
  match nth_error srcs k, nth_error evs j with
  | Some s, Some e => c s e
  | _, _ => false
  end.

(* an incoming (source, event) table restricts the pairs a method may keep *)
Definition inc_has (inc : option tbl) (k j : nat) : bool :=
  match inc with
  | None => true
  | Some t => existsb (fun q => (fst q =? Z.of_nat k)%Z && (snd q =? Z.of_nat j)%Z) t
  end.

(* what a method hands to the next one: strictly ascending by (source, event)
   (so duplicate-free and grouped by ascending source), indices in range, every
   event listed for at least one source *)
Definition tbl_ok (ns ne : nat) (t : tbl) : Prop :=
  Sorted.StronglySorted lexlt t
  /\ (forall p, In p t -> (0 <= fst p < Z.of_nat ns)%Z /\ (0 <= snd p < Z.of_nat ne)%Z)
  /\ (forall j, j < ne -> exists k, In (Z.of_nat k, Z.of_nat j) t).

Definition inc_ok (ns ne : nat) (inc : option tbl) : Prop :=
  match inc with None => True | Some t => tbl_ok ns ne t end.

(* the pair criterion a method tree applies, given the incoming table *)
Definition cix {S E} (m : meth S E) (inc : option tbl) (srcs : list S) (evs : list E)
           (k j : nat) : bool :=
  inc_has inc k j && cidx (crit_of m (length srcs)) srcs evs k j.

(* instances used by the non-vacuity examples of props/Prop_C05.v *)
Definition ex_c (s e : Z) : bool := (Z.abs (e - s) <? 3)%Z.
Definition ex_rev (l : list Z) : list Z := rev (map Z.of_nat (seq 0 (length l))).
