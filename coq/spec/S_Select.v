(* Specification for C05, written without reference to the numpy plumbing.

   A selection is described by an index-level criterion  ci k j  (source k,
   event j of the given events).  The documented result is
     - the events that qualify for at least one source, in original order
       (spec_orig: their original indices, ascending),
     - the table of the qualifying (source, event) pairs, grouped by ascending
       source and, within a source, by ascending event, the event index
       pointing into the selected events (spec_pairs).
   crit_of gives the documented (source, event) criterion of a method tree; an
   intersection qualifies a pair when both parts do. *)
From Coq Require Import ZArith List Bool Sorting.Sorted Permutation.
From Sky Require Import M_Select.
Import ListNotations.
Local Open Scope nat_scope.

Definition spec_orig (ci : nat -> nat -> bool) (ns ne : nat) : list nat :=
  filter (fun j => existsb (fun k => ci k j) (seq 0 ns)) (seq 0 ne).

Definition spec_pairs (ci : nat -> nat -> bool) (ns : nat) (orig : list nat)
  : list (nat * nat) :=
  flat_map (fun k =>
    flat_map (fun p => if ci k (snd p) then [(k, fst p)] else [])
             (combine (seq 0 (length orig)) orig))
    (seq 0 ns).

(* lexicographic order on (source, event) pairs *)
Definition lexlt (p q : Z * Z) : Prop :=
  (fst p < fst q)%Z \/ (fst p = fst q /\ (snd p < snd q)%Z).

Fixpoint crit_of {S E} (m : meth S E) (ns : nat) : S -> E -> bool :=
  match m with
  | MAll => fun _ _ => true
  | MBand _ c => c
  | MBox bs cra crab cdec => fun s e => cra s e && cdec s e
  | MPsi c => fun _ e => c e
  | MPair c => c
  | MAnd a b => fun s e => crit_of a ns s e && crit_of b ns s e
  end.

(* side conditions under which a method tree exists and runs: PsiFunc is
   constructible for exactly one source; the batch size is positive and the two
   textual copies of the RA mask of SpatialBox (batched / unbatched path) are the
   same criterion (proved for the translated formulas in P_SelectNum.box_ra_copies) *)
Fixpoint wf_meth {S E} (m : meth S E) (ns : nat) : Prop :=
  match m with
  | MPsi _ => ns = 1%nat
  | MBox bs cra crab _ => (0 < bs)%Z /\ (forall s e, crab s e = cra s e)
  | MAnd a b => wf_meth a ns /\ wf_meth b ns
  | _ => True
  end.

(* index-level reading of a (source, event) criterion: pair (k, j) qualifies
   when source k and event j exist and the criterion holds for them *)
Definition cidx {S E} (c : S -> E -> bool) (srcs : list S) (evs : list E)
           (k j : nat) : bool :=
  match nth_error srcs k, nth_error evs j with
  | Some s, Some e => c s e
  | _, _ => false
  end.

(* an incoming (source, event) table restricts the pairs a method may keep *)
Definition inc_has (inc : option tbl) (k j : nat) : bool :=
  match inc with
  | None => true
  | Some t => existsb (fun q => (fst q =? Z.of_nat k)%Z && (snd q =? Z.of_nat j)%Z) t
  end.

(* what a method hands to the next one: strictly ascending by (source, event)
   (so duplicate-free and grouped by ascending source), indices in range, every
   event listed for at least one source *)
Definition tbl_ok (ns ne : nat) (t : tbl) : Prop :=
  Sorted.StronglySorted lexlt t
  /\ (forall p, In p t -> (0 <= fst p < Z.of_nat ns)%Z /\ (0 <= snd p < Z.of_nat ne)%Z)
  /\ (forall j, j < ne -> exists k, In (Z.of_nat k, Z.of_nat j) t).

Definition inc_ok (ns ne : nat) (inc : option tbl) : Prop :=
  match inc with None => True | Some t => tbl_ok ns ne t end.

(* the pair criterion a method tree applies, given the incoming table *)
Definition cix {S E} (m : meth S E) (inc : option tbl) (srcs : list S) (evs : list E)
           (k j : nat) : bool :=
  inc_has inc k j && cidx (crit_of m (length srcs)) srcs evs k j.

(* instances used by the non-vacuity examples of props/Prop_C05.v *)
Definition ex_c (s e : Z) : bool := (Z.abs (e - s) <? 3)%Z.
Definition ex_rev (l : list Z) : list Z := rev (map Z.of_nat (seq 0 (length l))).

(* ---- deepening: PsiFunc guard, the trial data manager as a state machine *)

(* does the tree contain a PsiFunc method; the side conditions of wf_meth other than
   "PsiFunc only with one source" *)
Fixpoint has_psi {S E} (m : meth S E) : bool :=
  match m with
  | MPsi _ => true
  | MAnd a b => has_psi a || has_psi b
  | _ => false
  end.

Fixpoint wf_other {S E} (m : meth S E) : Prop :=
  match m with
  | MBox bs cra crab _ => (0 < bs)%Z /\ (forall s e, crab s e = cra s e)
  | MAnd a b => wf_other a /\ wf_other b
  | _ => True
  end.

(* grouped by ascending source *)
Definition src_grouped (t : tbl) : Prop :=
  Sorted.StronglySorted (fun p q => (fst p <= fst q)%Z) t.

(* the criterion initialize_trial applies: the method's, or "every pair" without a method *)
Definition crit_opt {S E} (m : option (meth S E)) (srcs : list S) (evs : list E) : nat -> nat -> bool :=
  match m with
  | Some m' => cidx (crit_of m' (length srcs)) srcs evs
  | None => cidx (fun _ _ => true) srcs evs
  end.

Definition wf_opt {S E} (m : option (meth S E)) (ns : nat) : Prop :=
  match m with Some m' => wf_meth m' ns | None => True end.

(* what holds of the events and the table a TrialDataManager stores after initialize_trial
   (argsort: the sorting permutation used for the index field; c: the pair criterion;
   b: an index field is set).  orig2 lists the original index of every stored event. *)
Definition tdm_post {E} (argsort : list E -> list Z) (ns : nat) (c : nat -> nat -> bool)
           (b : bool) (evs ev2 : list E) (t2 : tbl) : Prop :=
  let quals := filter (fun j => existsb (fun k => c k j) (seq 0 ns)) (seq 0 (length evs)) in
  exists orig2,
    Permutation orig2 quals
    /\ (b = false -> orig2 = quals)
    /\ Forall2 (fun e j => nth_error evs j = Some e) ev2 orig2
    /\ (b = true -> exists ev1,
          Forall2 (fun e j => nth_error evs j = Some e) ev1 quals
          /\ Forall2 (fun e z => nth_error ev1 (Z.to_nat z) = Some e) ev2 (argsort ev1))
    /\ src_grouped t2
    /\ NoDup t2
    /\ (forall q, In q t2 -> (0 <= fst q < Z.of_nat ns)%Z /\ (0 <= snd q < Z.of_nat (length ev2))%Z)
    /\ (forall k p, In (Z.of_nat k, Z.of_nat p) t2 <->
          k < ns /\ exists j, nth_error orig2 p = Some j /\ c k j = true)
    /\ (forall p, p < length ev2 -> exists k, In (Z.of_nat k, Z.of_nat p) t2).
