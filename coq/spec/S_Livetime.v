(* Specification for C14: the point set of half-open up-time intervals. *)
From Coq Require Import ZArith List Bool.
Import ListNotations.
Open Scope Z_scope.

Definition In_on (ivs : list (Z * Z)) (t : Z) : Prop :=
  exists l u, In (l, u) ivs /\ l <= t < u.

(* on-time ∩ [t1, t2) as an interval list *)
Definition clip1 (t1 t2 : Z) (iv : Z * Z) : Z * Z :=
  (Z.max (fst iv) t1, Z.min (snd iv) t2).
Definition clip (ivs : list (Z * Z)) (t1 t2 : Z) : list (Z * Z) :=
  map (clip1 t1 t2)
      (filter (fun iv => (t1 <? snd iv) && (fst iv <=? t2)) ivs).

(* Lebesgue measure of on-time ∩ (-inf, t) *)
Definition measure_upto (ivs : list (Z * Z)) (t : Z) : Z :=
  fold_right Z.add 0
    (map (fun iv => Z.max 0 (Z.min (snd iv) t - fst iv)) ivs).

Definition measure (ivs : list (Z * Z)) : Z :=
  fold_right Z.add 0 (map (fun iv => snd iv - fst iv) ivs).

(* sorted, non-overlapping (touching and zero-length intervals allowed):
   l1 <= u1 <= l2 <= u2 <= ... *)
Fixpoint chain (lo : Z) (ivs : list (Z * Z)) : Prop :=
  match ivs with
  | [] => True
  | (l, u) :: r => lo <= l /\ l <= u /\ chain u r
  end.
Definition wf (ivs : list (Z * Z)) : Prop :=
  match ivs with [] => True | (l, _) :: _ => chain l ivs end.
