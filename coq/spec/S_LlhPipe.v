(* Specification of the PDF-ratio compositions feeding the C01 value (over R),
   written independently of the code's array plumbing:
   - a signal-over-background ratio is s/b, or the configured constant where
     the background density is not positive;
   - a product of ratios is the product;
   - the source-weighted (stacked) ratio of event e is
       sum_k a_k * R_(k,e) / sum_k a_k ,
     where R_(k,e) is the ratio listed for the pair (k,e) in the
     (source,event) table and 0 if the event is not selected for source k. *)
From Coq Require Import Reals List Arith Bool.
From Sky Require Import S_Llh.
Import ListNotations.
Open Scope R_scope.

Definition sob_spec (z s b : R) : R := if Rlt_dec 0 b then s / b else z.

(* a factor = (constant for zero background, signal density per table row,
   background density per selected event) *)
Definition rfactor : Type := (R * list R * list R)%type.

(* ratio of table row i (whose event index is e) for one factor / all factors *)
Definition factor_ratio (i e : nat) (f : rfactor) : R :=
  sob_spec (fst (fst f)) (nth i (snd (fst f)) 0) (nth e (snd f) 0).

Definition row_ratio (i e : nat) (f0 : rfactor) (fs : list rfactor) : R :=
  fold_left Rmult (map (factor_ratio i e) fs) (factor_ratio i e f0).

(* the (source,event) table with one ratio per row *)
Definition row_pair (v : nat * nat * R) : nat * nat := fst v.

Definition pair_lookup (vals : list (nat * nat * R)) (k e : nat) : R :=
  match find (fun v => Nat.eqb (fst (fst v)) k && Nat.eqb (snd (fst v)) e) vals with
  | Some v => snd v
  | None => 0
  end.

Definition stacked_spec (a_k : list R) (vals : list (nat * nat * R)) (e : nat) : R :=
  Rsum (map (fun k => pair_lookup vals k e * nth k a_k 0) (seq 0 (length a_k))) / Rsum a_k.

(* several datasets: the sum of the single-dataset formulas at ns * f_j *)
Definition multi_manual (alpha ns : R) (f : list R) (ds : list (R * list R)) : R :=
  Rsum (map (fun p => logLambda_manual alpha (fst (snd p)) (ns * fst p) (snd (snd p)))
            (combine f ds)).
