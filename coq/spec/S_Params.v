(* Specification for C04: the parameter table and the brute-force reading of
   every view from it.  Independent of the caches of the model: a table is the
   list of rows in declaration order; a mapper adds, per model, the list of
   local aliases (None = not mapped) of the global parameters. *)
From Coq Require Import ZArith List Bool.
From Sky Require Import Result PyList M_Params.
Import ListNotations.
Open Scope Z_scope.

Inductive kind :=
| KFixed (v : Z)                                   (* fixed to the value v *)
| KFloat (init : Z) (lo hi : option Z).            (* floating: initial value and bounds *)
Record row := mkRow { r_name : Z; r_kind : kind }.
Definition table := list row.

Definition is_fixed (r : row) : bool :=
  match r_kind r with KFixed _ => true | KFloat _ _ _ => false end.

(* ---- the views, read off the table *)
Definition s_names (T : table) : list Z := map r_name T.
Definition s_mask (T : table) : list bool := map is_fixed T.
Definition s_fixed_names (T : table) : list Z :=
  flat_map (fun r => if is_fixed r then [r_name r] else []) T.
Definition s_floating_names (T : table) : list Z :=
  flat_map (fun r => if is_fixed r then [] else [r_name r]) T.
Definition s_fixed_values (T : table) : list Z :=
  flat_map (fun r => match r_kind r with KFixed v => [v] | KFloat _ _ _ => [] end) T.
Definition s_floating_initials (T : table) : list Z :=
  flat_map (fun r => match r_kind r with KFixed _ => [] | KFloat i _ _ => [i] end) T.
Definition s_floating_bounds (T : table) : list (option Z * option Z) :=
  flat_map (fun r => match r_kind r with KFixed _ => [] | KFloat _ lo hi => [(lo, hi)] end) T.

(* positions (from i on) of the entries satisfying the flag *)
Fixpoint s_positions (i : Z) (flags : list bool) : list Z :=
  match flags with
  | [] => []
  | b :: r => (if b then [i] else []) ++ s_positions (i + 1) r
  end.
Definition s_fixed_idxs (T : table) : list Z := s_positions 0 (s_mask T).
Definition s_floating_idxs (T : table) : list Z := s_positions 0 (map negb (s_mask T)).

(* position of a name in a list of names *)
Fixpoint s_index (n : Z) (names : list Z) : option Z :=
  match names with
  | [] => None
  | x :: r => if n =? x then Some 0 else option_map (fun i => i + 1) (s_index n r)
  end.
(* index of a parameter among the fixed resp. floating ones *)
Definition s_fixed_pidx (T : table) (n : Z) : option Z := s_index n (s_fixed_names T).
Definition s_floating_pidx (T : table) (n : Z) : option Z := s_index n (s_floating_names T).

(* THE value of every row for a vector of floating-parameter values: floating
   rows consume the vector in declaration order, fixed rows keep their value;
   None unless the vector has exactly one entry per floating row *)
Fixpoint s_values (T : table) (vec : list Z) : option (list Z) :=
  match T with
  | [] => match vec with [] => Some [] | _ :: _ => None end
  | r :: T' =>
      match r_kind r with
      | KFixed v => option_map (cons v) (s_values T' vec)
      | KFloat _ _ _ =>
          match vec with
          | [] => None
          | x :: vec' => option_map (cons x) (s_values T' vec')
          end
      end
  end.

(* the <name>:gpidx entry of every row: rank among the floating rows + 1, resp.
   -(position among all rows) - 1 for a fixed row *)
Fixpoint s_gpidxs (pos rank : Z) (T : table) : list Z :=
  match T with
  | [] => []
  | r :: T' => if is_fixed r then (- pos - 1) :: s_gpidxs (pos + 1) rank T'
               else (rank + 1) :: s_gpidxs (pos + 1) (rank + 1) T'
  end.

(* a finite map given as a list of pairs *)
Definition s_lookup {A} (l : list (Z * A)) (k : Z) : option A := assoc l k.

(* name -> value of the whole set *)
Definition s_params_map (T : table) (vals : list Z) : list (Z * Z) := combine (s_names T) vals.

(* the local parameters of ONE model: `aliases` is the model's list of local
   names, one entry per global parameter (None = not mapped to this model) *)
Definition s_local {A} (aliases : list (option Z)) (vals : list A) : list (Z * A) :=
  flat_map (fun av : option Z * A => match fst av with Some a => [(a, snd av)] | None => [] end)
           (combine aliases vals).

(* one cell of the per-source table: value and gpidx of the parameter mapped
   to the source under the local name u; (None, 0) = "not applicable" *)
Definition s_cell (aliases : list (option Z)) (vals gpidxs : list Z) (u : Z) : option Z * Z :=
  match s_lookup (s_local aliases (combine vals gpidxs)) u with
  | Some (v, g) => (Some v, g)
  | None => (None, 0)
  end.

(* strictly increasing: sorted without repetition (np.unique) *)
Fixpoint strictly_sorted (l : list Z) : Prop :=
  match l with
  | [] => True
  | x :: r => (match r with [] => True | y :: _ => x < y end) /\ strictly_sorted r
  end.

(* ---- abstraction: the table a list of Parameter objects stands for *)
Definition row_of (p : param) : row :=
  mkRow (p_name p)
        (if p_isfixed p then KFixed (p_value p) else KFloat (p_initial p) (p_valmin p) (p_valmax p)).
Definition table_of (ps : list param) : table := map row_of ps.

(* the invariant of one Parameter object *)
Definition param_ok (p : param) : Prop :=
  if p_isfixed p then p_value p = p_initial p
  else exists lo hi, p_valmin p = Some lo /\ p_valmax p = Some hi
                     /\ lo <= p_initial p <= hi /\ lo <= p_value p <= hi.

Definition dict_ok (d : dict) (names : list Z) : Prop :=
  forall n, dict_get d n = s_index n names.

(* every cache of the parameter set s is the corresponding function of the
   Parameter objects ps its _params array points to *)
Definition Consistent (st : store) (s : pset) (ps : list param) : Prop :=
  mapM (rd st) (ps_params s) = Ok ps
  /\ NoDup (map p_name ps)
  /\ Forall param_ok ps
  /\ ps_mask s = s_mask (table_of ps)
  /\ ps_fxn s = s_fixed_names (table_of ps)
  /\ ps_fln s = s_floating_names (table_of ps)
  /\ ps_fxv s = s_fixed_values (table_of ps)
  /\ dict_ok (ps_fxi s) (ps_fxn s)
  /\ dict_ok (ps_fli s) (ps_fln s).

(* ---- the world: every parameter set is consistent, no Parameter object
   belongs to two sets, and the alias matrix of the mapper has one row per
   model and one column per global parameter *)
Definition all_sets (w : world) : list pset := mp_gps (w_map w) :: w_sets w.

Definition matrix_ok (m : mapper) : Prop :=
  length (mp_names m) = length (mp_src m)
  /\ Forall (fun arow => length arow = length (ps_params (mp_gps m))) (mp_names m).

(* no local name twice for one model *)
Definition aliases_ok (m : mapper) : Prop :=
  Forall (fun arow => NoDup (somes arow)) (mp_names m).

Definition WorldOk (w : world) : Prop :=
  Forall (fun s => exists ps, Consistent (w_store w) s ps) (all_sets w)
  /\ NoDup (concat (map ps_params (all_sets w)))
  /\ matrix_ok (w_map w).

(* ---- what one Parameter does, written out independently of the model's Parameter code
   (M_Params.param_new / make_fixed / make_floating / set_value are proved equal to these closed forms:
   C04_param_new, C04_make_fixed_forms, C04_make_floating_forms, C04_set_value_spec) *)
Definition opt_or {A} (a b : option A) : option A := match a with Some x => Some x | None => b end.
Definition in_bounds (lo hi v : Z) : bool := (lo <=? v) && (v <=? hi).

Definition s_param_new (d : decl) : res param :=
  let fx := match d_isfixed d with
            | Some b => b
            | None => match d_valmin d, d_valmax d with Some _, Some _ => false | _, _ => true end
            end in
  if fx then Ok (mkParam (d_name d) (d_initial d) true (d_valmin d) (d_valmax d) (d_initial d))
  else match d_valmin d, d_valmax d with
       | Some lo, Some hi =>
           if in_bounds lo hi (d_initial d)
           then Ok (mkParam (d_name d) (d_initial d) false (Some lo) (Some hi) (d_initial d))
           else Err ValueError
       | _, _ => Err TypeError
       end.

Definition s_make_fixed (p : param) (i : option Z) : param :=
  match i with
  | None => mkParam (p_name p) (p_value p) true (p_valmin p) (p_valmax p) (p_value p)
  | Some v =>
      match p_valmin p, p_valmax p with
      | Some lo, Some hi =>
          if in_bounds lo hi v then mkParam (p_name p) v true (Some lo) (Some hi) v
          else mkParam (p_name p) v true None None v
      | lo, hi => mkParam (p_name p) v true lo hi v
      end
  end.

Definition s_make_floating (p : param) (i lo hi : option Z) : res param :=
  let i' := match i with Some v => v | None => p_value p end in
  match opt_or lo (p_valmin p), opt_or hi (p_valmax p) with
  | Some lo', Some hi' =>
      if in_bounds lo' hi' i' then Ok (mkParam (p_name p) i' false (Some lo') (Some hi') i') else Err ValueError
  | _, _ => Err ValueError
  end.

Definition s_set_value (p : param) (v : Z) : res param :=
  if p_isfixed p then (if v =? p_initial p then Ok (with_value p v) else Err ValueError)
  else match p_valmin p, p_valmax p with
       | Some lo, Some hi => if in_bounds lo hi v then Ok (with_value p v) else Err ValueError
       | _, _ => Err TypeError
       end.

Definition s_entry (e : fentry) : option Z * option Z * option Z :=
  match e with
  | FNone => (None, None, None)
  | FInit v => (Some v, None, None)
  | FTriple i lo hi => (i, lo, hi)
  end.

Definition s_fix_row (req : fixreq) (p : param) : param :=
  match assoc req (p_name p) with Some i => s_make_fixed p i | None => p end.

Definition s_float_row (req : floatreq) (p : param) : param :=
  match assoc req (p_name p) with
  | Some e => let '(i, lo, hi) := s_entry e in
              match s_make_floating p i lo hi with Ok p' => p' | Err _ => p end
  | None => p
  end.

Definition s_float_row_ok (req : floatreq) (p : param) : bool :=
  match assoc req (p_name p) with
  | None => true
  | Some e => let '(i, lo, hi) := s_entry e in p_isfixed p && is_ok (s_make_floating p i lo hi)
  end.

(* ------------------------------------------------------------------ the specification interpreter
   A world of VALUES: every parameter set is just the list of its parameters (name, fixed flag,
   initial, bounds, value) in declaration order; no store, no object identity, no caches.  The mapper
   adds the source flags and, per model, the list of local aliases.  Each operation is a total function
   on such worlds; a rejected operation is a no-op that reports the exception. *)
Record aworld := mkAW {
  a_src : list bool; a_g : list param; a_names : list (list (option Z)); a_sets : list (list param) }.

Definition a_get (a : aworld) (r : sref) : res (list param) :=
  match r with
  | GP => Ok (a_g a)
  | St n => match nth_error (a_sets a) n with Some t => Ok t | None => Err IndexError end
  end.

Definition a_put (a : aworld) (r : sref) (t : list param) : aworld :=
  match r with
  | GP => mkAW (a_src a) t (a_names a) (a_sets a)
  | St n => mkAW (a_src a) (a_g a) (a_names a) (set_nth (a_sets a) n t)
  end.

Definition has_name (t : list param) (n : Z) : bool := existsb (fun p => p_name p =? n) t.

(* add_param: a name can be declared once *)
Definition s_add (t : list param) (p : param) (front : bool) : res (list param) :=
  if has_name t (p_name p) then Err KeyError else Ok (if front then p :: t else t ++ [p]).

(* make_params_fixed: every requested parameter that is present must be floating; then each of them is fixed.
   (fix_one / float_one / float_row_ok are the MODEL-level forms used by the model theorems; the
   interpreter uses the independent s_fix_row / s_float_row / s_float_row_ok) *)
Definition fix_one (req : fixreq) (p : param) : param :=
  match assoc req (p_name p) with Some i => make_fixed p i | None => p end.

Definition s_fix (t : list param) (req : fixreq) : res (list param) :=
  if existsb (fun p => is_some (assoc req (p_name p)) && p_isfixed p) t then Err ValueError
  else Ok (map (s_fix_row req) t).

(* make_params_floating: every requested parameter that is present must be fixed and its new settings
   (given or inherited initial / bounds) must be valid; then each of them is set floating *)
Definition float_one (req : floatreq) (p : param) : param :=
  match assoc req (p_name p) with
  | Some e => let '(i, lo, hi) := parse_fentry e in
              match make_floating p i lo hi with Ok p' => p' | Err _ => p end
  | None => p
  end.

Definition float_row_ok (req : floatreq) (p : param) : bool :=
  match assoc req (p_name p) with
  | None => true
  | Some e => p_isfixed p && is_ok (floating_settings p (fst (fst (parse_fentry e))) (snd (fst (parse_fentry e)))
                                                      (snd (parse_fentry e)))
  end.

Definition s_float (t : list param) (req : floatreq) : res (list param) :=
  if forallb (s_float_row_ok req) t then Ok (map (s_float_row req) t) else Err ValueError.

(* union: the parameters of the first set, then those of the others whose name is new (copies: values) *)
Fixpoint add_new (acc qs : list param) : list param :=
  match qs with
  | [] => acc
  | q :: r => if mem (p_name q) (map p_name acc) then add_new acc r else add_new (acc ++ [q]) r
  end.

Definition s_union (ts : list (list param)) : res (list param) :=
  match ts with [] => Err ValueError | t :: r => Ok (fold_left add_new r t) end.

(* params[k].value = v *)
Definition s_setv (t : list param) (k v : Z) : res (list param) :=
  do p <- py_get t k; do p' <- s_set_value p v; py_set t k p'.

(* map_param, independently of the model's numpy plumbing: the models are visited in order; a model the
   parameter is mapped to must have an alias (IndexError) that it does not use yet (KeyError); the new
   column holds the alias for the mapped models and None for the others; a sequence of aliases must have
   one entry per model, a single entry is broadcast (numpy), anything else is a ValueError *)
Fixpoint s_dup_scan (rows : list (list (option Z))) (names applied : list Z) (j todo : nat) : res unit :=
  match todo with
  | O => Ok tt
  | S todo' =>
      if mem (Z.of_nat j) applied then
        match nth_error rows j, nth_error names j with
        | Some row, Some a => if mem a (somes row) then Err KeyError else s_dup_scan rows names applied (S j) todo'
        | _, _ => Err IndexError
        end
      else s_dup_scan rows names applied (S j) todo'
  end.

Definition s_column (n : nat) (names applied : list Z) : res (list (option Z)) :=
  let cell (j : nat) (a : Z) := if mem (Z.of_nat j) applied then Some a else None in
  if Nat.eqb (length names) n
  then Ok (map (fun ja : nat * Z => cell (fst ja) (snd ja)) (combine (seq 0 n) names))
  else match names with
       | [a] => Ok (map (fun j => cell j a) (seq 0 n))
       | _ => Err ValueError
       end.

Definition s_map_rows (n : nat) (rows : list (list (option Z))) (pname : Z) (models : option (list Z)) (al : aliases)
  : res (list (list (option Z))) :=
  let names := match al with
               | ANone => repeat pname n
               | AStr a => repeat a n
               | ASeq ls => ls
               end in
  let applied := match models with None => map Z.of_nat (seq 0 n) | Some ms => ms end in
  match applied with
  | [] => Err ValueError
  | _ :: _ =>
      do _ <- s_dup_scan rows names applied 0 n;
      do col <- s_column n names applied;
      if Nat.eqb (length rows) (length col)
      then Ok (map (fun rc : list (option Z) * option Z => fst rc ++ [snd rc]) (combine rows col))
      else Err ValueError
  end.

(* the same in the shape of the model's code (used to factor M_Params.map_param; proved equal to s_map_rows) *)
Definition map_rows (n : nat) (rows : list (list (option Z))) (pname : Z) (models : option (list Z)) (al : aliases)
  : res (list (list (option Z))) :=
  let names := match al with
               | ANone => repeat pname n
               | AStr a => repeat a n
               | ASeq ls => ls
               end in
  let applied := match models with None => arange n | Some ms => ms end in
  if Nat.eqb (length applied) 0 then Err ValueError else
  let mask := map (fun midx => mem midx applied) (arange n) in
  do _ <- dup_check rows names (mask_select (arange n) mask);
  do entry <- where_entry mask names;
  if Nat.eqb (length rows) (length entry)
  then Ok (map (fun re : list (option Z) * option Z => fst re ++ [snd re]) (combine rows entry))
  else Err ValueError.

Definition s_step (a : aworld) (o : op) : aworld * option err :=
  match o with
  | ONewSet => (mkAW (a_src a) (a_g a) (a_names a) (a_sets a ++ [[]]), None)
  | OAdd n front d =>
      match nth_error (a_sets a) n with
      | None => (a, Some IndexError)
      | Some t =>
          match s_param_new d with
          | Err e => (a, Some e)
          | Ok p => match s_add t p front with
                    | Err e => (a, Some e)
                    | Ok t' => (a_put a (St n) t', None)
                    end
          end
      end
  | OMap d models al =>
      match s_param_new d with
      | Err e => (a, Some e)
      | Ok p =>
          match s_map_rows (length (a_src a)) (a_names a) (p_name p) models al with
          | Err e => (a, Some e)
          | Ok rows => match s_add (a_g a) p false with
                       | Err e => (a, Some e)
                       | Ok g => (mkAW (a_src a) g rows (a_sets a), None)
                       end
          end
      end
  | OFix r req =>
      match a_get a r with
      | Err e => (a, Some e)
      | Ok t => match s_fix t req with Err e => (a, Some e) | Ok t' => (a_put a r t', None) end
      end
  | OFloat r req =>
      match a_get a r with
      | Err e => (a, Some e)
      | Ok t => match s_float t req with Err e => (a, Some e) | Ok t' => (a_put a r t', None) end
      end
  | OUnion rs =>
      match mapM (a_get a) rs with
      | Err e => (a, Some e)
      | Ok ts => match s_union ts with
                 | Err e => (a, Some e)
                 | Ok t => (mkAW (a_src a) (a_g a) (a_names a) (a_sets a ++ [t]), None)
                 end
      end
  | OCopy r =>
      match a_get a r with
      | Err e => (a, Some e)
      | Ok t => (mkAW (a_src a) (a_g a) (a_names a) (a_sets a ++ [t]), None)
      end
  | OSetValue r k v =>
      match a_get a r with
      | Err e => (a, Some e)
      | Ok t => match s_setv t k v with Err e => (a, Some e) | Ok t' => (a_put a r t', None) end
      end
  end.

Definition s_run (a : aworld) (ops : list op) : aworld := fold_left (fun a o => fst (s_step a o)) ops a.
Fixpoint s_trace (a : aworld) (ops : list op) : list (aworld * option err) :=
  match ops with
  | [] => []
  | o :: r => let ae := s_step a o in ae :: s_trace (fst ae) r
  end.
Definition s_init (src : list bool) : aworld := mkAW src [] (map (fun _ => []) src) [].

(* the abstraction: what a world of objects, caches and locations stands for *)
Definition abs_set (st : store) (s : pset) : list param :=
  flat_map (fun l => match nth_error st l with Some p => [p] | None => [] end) (ps_params s).
Definition abs (w : world) : aworld :=
  mkAW (mp_src (w_map w)) (abs_set (w_store w) (mp_gps (w_map w))) (mp_names (w_map w))
       (map (abs_set (w_store w)) (w_sets w)).

(* the model indices create_src_params_recarray makes rows for: all sources / the given int32 array /
   the requested source objects among the sources, in model order *)
Definition sel_idxs (m : mapper) (sources : option (list Z + list Z)) : list Z :=
  match sources with
  | None => s_positions 0 (mp_src m)
  | Some (inl arr) => arr
  | Some (inr srcs) => filter (fun smidx => mem smidx srcs) (s_positions 0 (mp_src m))
  end.

(* a concrete history used by the non-vacuity examples: non-source model first; fixed parameter declared
   ahead of floating ones; aliases; fix, float, union, copy; three rejected requests *)
Definition ex_ops : list op :=
  [ OMap (mkDecl 0 5 None None None) None ANone;                         (* n0 fixed 5, all models *)
    OMap (mkDecl 1 1 (Some 0) (Some 3) None) (Some [1; 2]) (AStr 4);     (* n1 floating, alias n4 *)
    OMap (mkDecl 2 2 (Some 0) (Some 3) None) (Some [2]) (ASeq [5; 6; 7]);
    OMap (mkDecl 3 9 (Some 0) (Some 3) None) None ANone;                 (* rejected: 9 outside [0,3] *)
    OMap (mkDecl 3 1 (Some 0) (Some 3) None) (Some [1]) (AStr 4);        (* rejected: n4 twice for model 1 *)
    OFix GP [(1, Some 7)];
    OFloat GP [(0, FTriple (Some 1) (Some 0) (Some 2))];
    OUnion [GP]; OCopy (St 0);
    OFix (St 0) [(2, None)];
    OSetValue GP 2 8 ].                                                  (* rejected: 8 outside [0,3] *)

