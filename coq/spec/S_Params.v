(* Specification for C04: the parameter table and the brute-force reading of
   every view from it.  Independent of the caches of the model: a table is the
   list of rows in declaration order; a mapper adds, per model, the list of
   local aliases (None = not mapped) of the global parameters. *)
From Coq Require Import ZArith List Bool.
From Sky Require Import Result PyList M_Params.
Import ListNotations.
Open Scope Z_scope.

Inductive kind :=
| KFixed (v : Z)                                   (* fixed to the value v *)
| KFloat (init : Z) (lo hi : option Z).            (* floating: initial value and bounds *)
Record row := mkRow { r_name : Z; r_kind : kind }.
Definition table := list row.

Definition is_fixed (r : row) : bool :=
  match r_kind r with KFixed _ => true | KFloat _ _ _ => false end.

(* ---- the views, read off the table *)
Definition s_names (T : table) : list Z := map r_name T.
Definition s_mask (T : table) : list bool := map is_fixed T.
Definition s_fixed_names (T : table) : list Z :=
  flat_map (fun r => if is_fixed r then [r_name r] else []) T.
Definition s_floating_names (T : table) : list Z :=
  flat_map (fun r => if is_fixed r then [] else [r_name r]) T.
Definition s_fixed_values (T : table) : list Z :=
  flat_map (fun r => match r_kind r with KFixed v => [v] | KFloat _ _ _ => [] end) T.
Definition s_floating_initials (T : table) : list Z :=
  flat_map (fun r => match r_kind r with KFixed _ => [] | KFloat i _ _ => [i] end) T.
Definition s_floating_bounds (T : table) : list (option Z * option Z) :=
  flat_map (fun r => match r_kind r with KFixed _ => [] | KFloat _ lo hi => [(lo, hi)] end) T.

(* positions (from i on) of the entries satisfying the flag *)
Fixpoint s_positions (i : Z) (flags : list bool) : list Z :=
  match flags with
  | [] => []
  | b :: r => (if b then [i] else []) ++ s_positions (i + 1) r
  end.
Definition s_fixed_idxs (T : table) : list Z := s_positions 0 (s_mask T).
Definition s_floating_idxs (T : table) : list Z := s_positions 0 (map negb (s_mask T)).

(* position of a name in a list of names *)
Fixpoint s_index (n : Z) (names : list Z) : option Z :=
  match names with
  | [] => None
  | x :: r => if n =? x then Some 0 else option_map (fun i => i + 1) (s_index n r)
  end.
(* index of a parameter among the fixed resp. floating ones *)
Definition s_fixed_pidx (T : table) (n : Z) : option Z := s_index n (s_fixed_names T).
Definition s_floating_pidx (T : table) (n : Z) : option Z := s_index n (s_floating_names T).

(* THE value of every row for a vector of floating-parameter values: floating
   rows consume the vector in declaration order, fixed rows keep their value;
   None unless the vector has exactly one entry per floating row *)
Fixpoint s_values (T : table) (vec : list Z) : option (list Z) :=
  match T with
  | [] => match vec with [] => Some [] | _ :: _ => None end
  | r :: T' =>
      match r_kind r with
      | KFixed v => option_map (cons v) (s_values T' vec)
      | KFloat _ _ _ =>
          match vec with
          | [] => None
          | x :: vec' => option_map (cons x) (s_values T' vec')
          end
      end
  end.

(* the <name>:gpidx entry of every row: rank among the floating rows + 1, resp.
   -(position among all rows) - 1 for a fixed row *)
Fixpoint s_gpidxs (pos rank : Z) (T : table) : list Z :=
  match T with
  | [] => []
  | r :: T' => if is_fixed r then (- pos - 1) :: s_gpidxs (pos + 1) rank T'
               else (rank + 1) :: s_gpidxs (pos + 1) (rank + 1) T'
  end.

(* a finite map given as a list of pairs *)
Definition s_lookup {A} (l : list (Z * A)) (k : Z) : option A := assoc l k.

(* name -> value of the whole set *)
Definition s_params_map (T : table) (vals : list Z) : list (Z * Z) := combine (s_names T) vals.

(* the local parameters of ONE model: `aliases` is the model's list of local
   names, one entry per global parameter (None = not mapped to this model) *)
Definition s_local {A} (aliases : list (option Z)) (vals : list A) : list (Z * A) :=
  flat_map (fun av : option Z * A => match fst av with Some a => [(a, snd av)] | None => [] end)
           (combine aliases vals).

(* one cell of the per-source table: value and gpidx of the parameter mapped
   to the source under the local name u; (None, 0) = "not applicable" *)
Definition s_cell (aliases : list (option Z)) (vals gpidxs : list Z) (u : Z) : option Z * Z :=
  match s_lookup (s_local aliases (combine vals gpidxs)) u with
  | Some (v, g) => (Some v, g)
  | None => (None, 0)
  end.

(* strictly increasing: sorted without repetition (np.unique) *)
Fixpoint strictly_sorted (l : list Z) : Prop :=
  match l with
  | [] => True
  | x :: r => (match r with [] => True | y :: _ => x < y end) /\ strictly_sorted r
  end.

(* ---- abstraction: the table a list of Parameter objects stands for *)
Definition row_of (p : param) : row :=
  mkRow (p_name p)
        (if p_isfixed p then KFixed (p_value p) else KFloat (p_initial p) (p_valmin p) (p_valmax p)).
Definition table_of (ps : list param) : table := map row_of ps.

(* the invariant of one Parameter object *)
Definition param_ok (p : param) : Prop :=
  if p_isfixed p then p_value p = p_initial p
  else exists lo hi, p_valmin p = Some lo /\ p_valmax p = Some hi
                     /\ lo <= p_initial p <= hi /\ lo <= p_value p <= hi.

Definition dict_ok (d : dict) (names : list Z) : Prop :=
  forall n, dict_get d n = s_index n names.

(* every cache of the parameter set s is the corresponding function of the
   Parameter objects ps its _params array points to *)
Definition Consistent (st : store) (s : pset) (ps : list param) : Prop :=
  mapM (rd st) (ps_params s) = Ok ps
  /\ NoDup (map p_name ps)
  /\ Forall param_ok ps
  /\ ps_mask s = s_mask (table_of ps)
  /\ ps_fxn s = s_fixed_names (table_of ps)
  /\ ps_fln s = s_floating_names (table_of ps)
  /\ ps_fxv s = s_fixed_values (table_of ps)
  /\ dict_ok (ps_fxi s) (ps_fxn s)
  /\ dict_ok (ps_fli s) (ps_fln s).

(* ---- the world: every parameter set is consistent, no Parameter object
   belongs to two sets, and the alias matrix of the mapper has one row per
   model and one column per global parameter *)
Definition all_sets (w : world) : list pset := mp_gps (w_map w) :: w_sets w.

Definition matrix_ok (m : mapper) : Prop :=
  length (mp_names m) = length (mp_src m)
  /\ Forall (fun arow => length arow = length (ps_params (mp_gps m))) (mp_names m).

(* no local name twice for one model *)
Definition aliases_ok (m : mapper) : Prop :=
  Forall (fun arow => NoDup (somes arow)) (mp_names m).

Definition WorldOk (w : world) : Prop :=
  Forall (fun s => exists ps, Consistent (w_store w) s ps) (all_sets w)
  /\ NoDup (concat (map ps_params (all_sets w)))
  /\ matrix_ok (w_map w).

(* a concrete history used by the non-vacuity examples: non-source model first; fixed parameter declared
   ahead of floating ones; aliases; fix, float, union, copy; three rejected requests *)
Definition ex_ops : list op :=
  [ OMap (mkDecl 0 5 None None None) None ANone;                         (* n0 fixed 5, all models *)
    OMap (mkDecl 1 1 (Some 0) (Some 3) None) (Some [1; 2]) (AStr 4);     (* n1 floating, alias n4 *)
    OMap (mkDecl 2 2 (Some 0) (Some 3) None) (Some [2]) (ASeq [5; 6; 7]);
    OMap (mkDecl 3 9 (Some 0) (Some 3) None) None ANone;                 (* rejected: 9 outside [0,3] *)
    OMap (mkDecl 3 1 (Some 0) (Some 3) None) (Some [1]) (AStr 4);        (* rejected: n4 twice for model 1 *)
    OFix GP [(1, Some 7)];
    OFloat GP [(0, FTriple (Some 1) (Some 0) (Some 2))];
    OUnion [GP]; OCopy (St 0);
    OFix (St 0) [(2, None)];
    OSetValue GP 2 8 ].                                                  (* rejected: 8 outside [0,3] *)

