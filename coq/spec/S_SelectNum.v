(* The documented criteria of the spatial methods, at the real-number reading
   (sources (ra, dec), events ((ra, dec), ang_err, psi)). *)
From Coq Require Import Reals.
From Sky Require Import Num NumR G_select M_SelectNum.
Open Scope R_scope.

(* DecBand / SpatialBox: declination within delta of the source's declination *)
Definition in_dec_band (delta : R) (s : R * R) (e : ev4 (T := R)) : Prop :=
  Rabs (e_dec e - snd s) < delta.

(* RABand / SpatialBox: distance in right ascension on the circle below the half width
   dRA_half = min(2 pi, |delta / min(cos(dec-), cos(dec+))|) of the source *)
Definition in_ra_band (erf : R -> R) (delta : R) (s : R * R) (e : ev4 (T := R)) : Prop :=
  rb_ra_dist (RNum erf) (e_ra e) (fst s) < rb_half (RNum erf) delta (snd s).
