(* Specification vocabulary for C10: real-valued up-time interval lists, the
   on-time point set, finite sums, and the np.histogram bin relation. *)
From Coq Require Import Reals ZArith List.
From Coquelicot Require Import Coquelicot.
Import ListNotations.

Open Scope R_scope.

(* sorted, non-overlapping (touching and zero-length intervals allowed):
   l1 <= u1 <= l2 <= u2 <= ...   (what assert_mjd_intervals_integrity accepts) *)
Fixpoint chainR (lo : R) (ivs : list (R * R)) : Prop :=
  match ivs with
  | [] => True
  | (l, u) :: r => lo <= l /\ l <= u /\ chainR u r
  end.
Definition wfR (ivs : list (R * R)) : Prop :=
  match ivs with [] => True | (l, _) :: _ => chainR l ivs end.

(* the detector on-time: union of the half-open intervals *)
Definition In_onR (ivs : list (R * R)) (t : R) : Prop :=
  exists l u, In (l, u) ivs /\ l <= t < u.

Definition Rsum (l : list R) : R := fold_right Rplus 0 l.

(* the error-function contract (scipy.special.erf is external code) *)
Definition erf_contract (erf : R -> R) : Prop :=
  forall x, is_derive erf x (2 / sqrt PI * exp (- (x * x))).

Close Scope R_scope.
Open Scope Z_scope.

(* x lies in bin i of the edges in the sense of np.histogram: half-open bins,
   the last bin also contains the upper-most edge *)
Definition in_bin (edges : list Z) (i x : Z) : Prop :=
  0 <= i < Z.of_nat (length edges) - 1 /\
  nth (Z.to_nat i) edges 0 <= x /\
  (x < nth (Z.to_nat (i + 1)) edges 0 \/
   (i = Z.of_nat (length edges) - 2 /\ x = nth (Z.to_nat (i + 1)) edges 0)).

Fixpoint nondec (l : list Z) : Prop :=
  match l with
  | a :: ((b :: _) as r) => a <= b /\ nondec r
  | _ => True
  end.
