(* C16 — the specification side: a plain table is a list of column names and a list
   of rows; the abstraction of a column store E (name -> buffer) with `len` rows. *)
From Coq Require Import ZArith List.
From Sky Require Import M_Table.
Import ListNotations.
Open Scope Z_scope.

Record table := mktable { tnames : list name; trows : list (list Z) }.

(* row i of the column store E over the names *)
Definition row (E : name -> buf) (names : list name) (i : nat) : list Z :=
  map (fun n => nth i (bdata (E n)) 0) names.

Definition abs (E : name -> buf) (names : list name) (len : nat) : table :=
  mktable names (map (row E names) (seq 0 len)).

(* plain-table operations *)
Definition t_append (t1 t2 : table) : table := mktable (tnames t1) (trows t1 ++ trows t2).
Definition t_take (t : table) (ps : list nat) : table :=
  mktable (tnames t) (map (fun p => nth p (trows t) []) ps).
