(* Model of skyllh/core/multiproc.py `parallelize` (after the fix: commit
   "fix: parallelize hung forever ...") and of its use in Analysis.do_trials.

   What is modelled:
   * numpy.array_split of the argument list into ncpu chunks;
   * the worker protocol of `worker_wrapper` as a small program counter
     (running tasks / result put / end marker put) plus an exit code;
   * the master's gather loop as a step function over what it can observe:
     the result queue, the exit codes and the per-worker log record queues;
     every read of shared state is its own step, so that every interleaving
     of the master with the workers is a schedule (a list of actions);
   * `pid_result_list_map` and the final re-assembly in pid order;
   * the seeding of the per-worker RandomStateService instances.
   The tests / index expressions of the loops are the regenerated kernels of
   gen/G_parallel.v.  The operating system, pipes, feeder threads, pickling
   and real time are NOT modelled (see design.d/C09.md).
   Definitions only. *)
From Coq Require Import ZArith List Bool Arith Lia.
From Sky Require Import Result G_parallel.
Import ListNotations.
Local Open Scope nat_scope.

(* ------------------------------------------------------------------------- *)
(* numpy.array_split(a, k): the first (n mod k) chunks have n/k + 1 items, the
   others n/k                                                                 *)

Fixpoint chunks_by {A} (sizes : list nat) (l : list A) : list (list A) :=
  match sizes with
  | [] => []
  | s :: t => firstn s l :: chunks_by t (skipn s l)
  end.

Definition split_sizes (n k : nat) : list nat :=
  repeat (S (n / k)) (n mod k) ++ repeat (n / k) (k - n mod k).

Definition array_split {A} (l : list A) (k : nat) : list (list A) :=
  chunks_by (split_sizes (length l) k) l.

(* ------------------------------------------------------------------------- *)
(* outcomes *)

Inductive pfail : Type :=
| EmptyArgs        (* ProgressBar(maxval=0).start(): ValueError - only in the code before fix ac3e25b *)
| BadNcpu          (* np.array_split(..., ncpu < 1): ValueError *)
| TaskRaised       (* func raised in the master process *)
| ChildDied        (* RuntimeError: Child process did not return with 0 *)
| MissingResult    (* RuntimeError: All child processes have ended, but only ... *)
| LogIncomplete    (* RuntimeError: Child process ended without completing its log records *)
| BadRecord        (* a result record whose pid is no worker pid (cannot be produced by worker_wrapper) *)
| KeyMissing.      (* KeyError in the final re-assembly *)

Inductive outcome (R : Type) : Type :=
| Done (r : list R)
| Fail (e : pfail).
Arguments Done {R} _.
Arguments Fail {R} _.

(* ------------------------------------------------------------------------- *)
(* workers *)

Inductive wpc : Type :=
| WRun      (* evaluating its tasks; may emit log records *)
| WPutting  (* rqueue.put(...) called, the record is only partly in the pipe (records larger than the pipe) *)
| WPut      (* rqueue.put((pid, result_list, tl)) done: the complete record is in the pipe *)
| WDone.    (* lqueue.put_nowait(None) done *)

Record wk : Type := mkwk {
  pc : wpc;
  exitc : option Z;            (* Process.exitcode: None while running *)
  lq : list (option Z)         (* its log records queue: Some id = a record, None = the end marker *)
}.

Inductive wact : Type :=
| APutLog (id : Z)
| APutBegin                    (* the transfer of the result record begins *)
| APutResult                   (* the result record is completely in the queue (atomic put when issued at WRun) *)
| ARaise                       (* a task raises: worker_wrapper is left by the exception, the process ends with code 1 *)
| APutEnd
| AExit0                       (* regular end of the process after worker_wrapper returned *)
| ADie (code : Z).             (* exception (code 1), os._exit(code), signal (code < 0), ... at any point *)

Inductive action : Type :=
| Master
| Worker (pid : nat) (a : wact).

(* pid_result_list_map: a dict.  d[k] = v *)
Definition dset {V} (k : nat) (v : V) (d : list (nat * V)) : list (nat * V) :=
  if existsb (fun e => Nat.eqb (fst e) k) d
  then map (fun e => if Nat.eqb (fst e) k then (k, v) else e) d
  else d ++ [(k, v)].

Fixpoint dget {V} (k : nat) (d : list (nat * V)) : option V :=
  match d with
  | [] => None
  | (k', v) :: t => if Nat.eqb k' k then Some v else dget k t
  end.

Definition keys {V} (d : list (nat * V)) : list nat := map fst d.

Section Gather.
Context {R : Type}.
Variable np : nat.                       (* number of worker processes; their pids are 1..np *)
Variable wres : nat -> res (list R).     (* what worker pid computes from its chunk; Err: a task raises *)

Record world : Type := mkworld {
  rq : list (nat * list R);              (* result queue, in arrival order *)
  wks : nat -> wk                        (* worker by pid *)
}.

Definition upd (f : nat -> wk) (p : nat) (k : wk) : nat -> wk :=
  fun q => if Nat.eqb q p then k else f q.

(* o_tasks  = "the task loop and rqueue.put are consecutive statements of worker_wrapper" (par_ord_tasks_before_result);
              if not (e.g. the put sits in a `finally`), a worker whose task raised still queues a (partial) result;
   o_status = "the worker does not wait for its status queue at its end" (par_ord_status_nonblocking, fix
              10bab65); if it does, the regular end may never happen (the master reads the status queue only
              during its own chunk);
   o_logc   = "when a task raises the worker does not wait for its log records queue at its end"
              (par_ord_raise_log_nonblocking, fix cdc2ef8); if it does, it ends only once its log records queue
              is flushed, and the master reads that queue only after it got the result record *)
Definition wstep_gen (o_tasks o_status o_logc : bool) (pid : nat) (a : wact) (w : world) : world :=
  if (1 <=? pid)%nat && (pid <=? np)%nat then
    let k := wks w pid in
    match exitc k with
    | Some _ => w
    | None =>
      match a, pc k with
      | APutLog id, WRun =>
          mkworld (rq w) (upd (wks w) pid (mkwk WRun None (lq k ++ [Some id])))
      | APutBegin, WRun =>
          match wres pid with
          | Ok r => mkworld (rq w) (upd (wks w) pid (mkwk WPutting None (lq k)))
          | Err _ => if o_tasks then w
                     else mkworld (rq w) (upd (wks w) pid (mkwk WPutting None (lq k)))
          end
      | APutResult, WRun | APutResult, WPutting =>
          match wres pid with
          | Ok r => mkworld (rq w ++ [(pid, r)]) (upd (wks w) pid (mkwk WPut None (lq k)))
          | Err _ => if o_tasks then w
                     else mkworld (rq w ++ [(pid, [])]) (upd (wks w) pid (mkwk WPut None (lq k)))
          end
      | ARaise, WRun =>
          match wres pid with
          | Ok _ => w                                   (* no task of this worker raises *)
          | Err _ =>
              if o_logc then mkworld (rq w) (upd (wks w) pid (mkwk WRun (Some 1%Z) (lq k)))
              else match lq k with
                   | [] => mkworld (rq w) (upd (wks w) pid (mkwk WRun (Some 1%Z) (lq k)))
                   | _ :: _ => w                        (* blocked: flushing the log records queue *)
                   end
          end
      | APutEnd, WPut =>
          mkworld (rq w) (upd (wks w) pid (mkwk WDone None (lq k ++ [None])))
      | AExit0, WDone =>
          if o_status then mkworld (rq w) (upd (wks w) pid (mkwk WDone (Some 0%Z) (lq k))) else w
      | ADie c, p =>
          mkworld (rq w) (upd (wks w) pid (mkwk p (Some c) (lq k)))
      | _, _ => w
      end
    end
  else w.

Definition wstep : nat -> wact -> world -> world :=
  wstep_gen par_ord_tasks_before_result par_ord_status_nonblocking par_ord_raise_log_nonblocking.

(* ------------------------------------------------------------------------- *)
(* master: the gather loop *)

Inductive mphase : Type :=
| PollA                               (* about to evaluate all_procs_ended *)
| PollB (all_ended : bool)            (* about to call rqueue.get(block=False) *)
| PollC (all_ended : bool)            (* queue.Empty: about to look at the exit codes *)
| DrainA (pid : nat)                  (* about to evaluate pid_proc_ended *)
| DrainB (pid : nat) (ended : bool)   (* about to call lqueue_list[pid].get(timeout) *)
| Join.                               (* for proc in processes: proc.join(); re-assembly *)

Record mst : Type := mkmst {
  it : nat;                           (* index of the `for proc in processes` iteration *)
  ph : mphase;
  pmap : list (nat * list R)          (* pid_result_list_map *)
}.

Inductive sys : Type :=
| Run (w : world) (m : mst)
| Fin (o : outcome R).

Definition pids : list nat := seq 1 np.

Definition all_ended (w : world) : bool :=
  forallb (fun p => par_ended (exitc (wks w p))) pids.

Definition is_putting (p : wpc) : bool := match p with WPutting => true | _ => false end.

(* some result record is only partly in the result queue *)
Definition putting (w : world) : bool :=
  existsb (fun p => is_putting (pc (wks w p))) pids.

Definition any_died (w : world) : bool :=
  existsb (fun p => par_died (exitc (wks w p))) pids.

(* result_list = []; for pid in range(len(map)): result_list += map[pid] *)
Fixpoint assemble_from (d : list (nat * list R)) (ps : list nat) : res (list R) :=
  match ps with
  | [] => Ok []
  | p :: t =>
      match dget p d with
      | None => Err KeyError
      | Some r => do rest <- assemble_from d t; Ok (r ++ rest)
      end
  end.

Definition assemble (d : list (nat * list R)) : res (list R) :=
  assemble_from d (seq 0 (length d)).

(* the order in which the code reads the shared state is a parameter:
   o_get  = all_procs_ended is evaluated BEFORE rqueue.get(block=False)      (par_ord_ended_before_get)
   o_died = the exit codes are examined BEFORE the all_procs_ended test      (par_ord_died_before_all_ended)
   o_lget = pid_proc_ended is evaluated BEFORE lqueue_list[pid].get(timeout) (par_ord_ended_before_log_get)
   With a flag = false the read happens after the failed get (in the queue.Empty handler). *)
Definition mstep_gen (o_get o_died o_lget : bool) (w : world) (m : mst) : sys :=
  match ph m with
  | PollA =>
      if (it m <? np)%nat
      then Run w (mkmst (it m) (PollB (if o_get then all_ended w else false)) (pmap m))
      else Run w (mkmst (it m) Join (pmap m))
  | PollB ae =>
      match rq w with
      | (pid, r) :: rest =>
          (* result_received = True; the while test decides whether the loop is left *)
          if par_poll_continue true
          then Run (mkworld rest (wks w)) (mkmst (it m) PollA (pmap m))
          else Run (mkworld rest (wks w))
                   (mkmst (it m) (if o_lget then DrainA pid else DrainB pid false) (dset pid r (pmap m)))
      | [] =>
          (* a partly transferred record makes _poll() true: get(block=False) blocks inside recv_bytes until
             the record is complete *)
          if putting w then Run w m
          else Run w (mkmst (it m) (PollC ae) (pmap m))
      end
  | PollC ae =>
      let ae' := if o_get then ae else all_ended w in
      let cont := if par_poll_continue false
                  then Run w (mkmst (it m) PollA (pmap m))        (* time.sleep(0.01) *)
                  else Fin (Fail BadRecord) in                      (* `pid` unbound *)
      if o_died then
        if any_died w then Fin (Fail ChildDied)
        else if par_all_ended_raises ae' then Fin (Fail MissingResult)
        else cont
      else
        if par_all_ended_raises ae' then Fin (Fail MissingResult)
        else if any_died w then Fin (Fail ChildDied)
        else cont
  | DrainA pid =>
      (* pid_proc = processes[pid-1]; lqueue_list[pid] *)
      let idx := par_pid_proc_idx0 (Z.of_nat pid) in
      if ((0 <=? idx) && (idx <? Z.of_nat np))%Z
      then
        let ended_now := par_pid_proc_ended (exitc (wks w (S (Z.to_nat idx)))) in
        if o_lget then Run w (mkmst (it m) (DrainB pid ended_now) (pmap m))
        else (* variant: this read happens after a failed lqueue get *)
          if par_log_raises ended_now then Fin (Fail LogIncomplete)
          else Run w (mkmst (it m) (DrainB pid false) (pmap m))
      else Fin (Fail BadRecord)
  | DrainB pid e =>
      match lq (wks w pid) with
      | item :: rest =>
          let k := wks w pid in
          let w' := mkworld (rq w) (upd (wks w) pid (mkwk (pc k) (exitc k) rest)) in
          (* if record is None: lqueue_end = True; while not lqueue_end *)
          if par_drain_continue (par_is_end_marker item)
          then Run w' (mkmst (it m) (if o_lget then DrainA pid else DrainB pid false) (pmap m))
          else Run w' (mkmst (S (it m)) PollA (pmap m))
      | [] =>
          if o_lget then
            if par_log_raises e then Fin (Fail LogIncomplete)
            else Run w (mkmst (it m) (DrainA pid) (pmap m))    (* continue *)
          else Run w (mkmst (it m) (DrainA pid) (pmap m))      (* variant: now look at the exit code *)
      end
  | Join =>
      if all_ended w
      then Fin (match assemble (pmap m) with Ok r => Done r | Err _ => Fail KeyMissing end)
      else Run w m                                           (* blocked in proc.join() *)
  end.

Definition mstep : world -> mst -> sys :=
  mstep_gen par_ord_ended_before_get par_ord_died_before_all_ended par_ord_ended_before_log_get.

Definition step (a : action) (s : sys) : sys :=
  match s with
  | Fin o => Fin o
  | Run w m =>
      match a with
      | Master => mstep w m
      | Worker pid wa => Run (wstep pid wa w) m
      end
  end.

Definition exec (sched : list action) (s : sys) : sys :=
  fold_left (fun s a => step a s) sched s.

(* the same system with the order facts as parameters (for the witnesses that each fact is needed) *)
Definition step_gen (o_get o_died o_lget o_tasks o_status o_logc : bool) (a : action) (s : sys) : sys :=
  match s with
  | Fin o => Fin o
  | Run w m =>
      match a with
      | Master => mstep_gen o_get o_died o_lget w m
      | Worker pid wa => Run (wstep_gen o_tasks o_status o_logc pid wa w) m
      end
  end.

Definition exec_gen (o_get o_died o_lget o_tasks o_status o_logc : bool) (sched : list action) (s : sys) : sys :=
  fold_left (fun s a => step_gen o_get o_died o_lget o_tasks o_status o_logc a s) sched s.

Definition fresh : wk := mkwk WRun None [].

(* the state when the master enters the gather loop is reached from `init`
   by worker actions only (the processes are started before the master
   evaluates its own chunk) *)
Definition init (r0 : list R) : sys :=
  Run (mkworld [] (fun _ => fresh)) (mkmst 0 PollA [(0%nat, r0)]).

(* ------------------------------------------------------------------------- *)
(* the gather loop BEFORE the fix (kept to exhibit the defects it had):
   only the exit code of `proc` = processes[it] is looked at, nothing happens
   when it is 0, and the log records are taken with a blocking get()          *)

Definition mstep_legacy (w : world) (m : mst) : sys :=
  match ph m with
  | PollA | PollC _ | DrainA _ =>
      if (it m <? np)%nat
      then Run w (mkmst (it m) (PollB false) (pmap m))
      else Run w (mkmst (it m) Join (pmap m))
  | PollB _ =>
      match rq w with
      | (pid, r) :: rest =>
          Run (mkworld rest (wks w)) (mkmst (it m) (DrainB pid false) (dset pid r (pmap m)))
      | [] =>
          match exitc (wks w (S (it m))) with
          | None => Run w m                                   (* time.sleep(0.01) *)
          | Some c => if (c =? 0)%Z then Run w m              (* neither branch: poll again *)
                      else Fin (Fail ChildDied)
          end
      end
  | DrainB pid _ =>
      match lq (wks w pid) with
      | item :: rest =>
          let k := wks w pid in
          let w' := mkworld (rq w) (upd (wks w) pid (mkwk (pc k) (exitc k) rest)) in
          match item with
          | None => Run w' (mkmst (S (it m)) PollA (pmap m))
          | Some _ => Run w' m
          end
      | [] => Run w m                                         (* blocked in lqueue.get() *)
      end
  | Join =>
      if all_ended w
      then Fin (match assemble (pmap m) with Ok r => Done r | Err _ => Fail KeyMissing end)
      else Run w m
  end.

Definition step_legacy (a : action) (s : sys) : sys :=
  match s with
  | Fin o => Fin o
  | Run w m =>
      match a with
      | Master => mstep_legacy w m
      | Worker pid wa => Run (wstep pid wa w) m
      end
  end.

Definition exec_legacy (sched : list action) (s : sys) : sys :=
  fold_left (fun s a => step_legacy a s) sched s.

(* ------------------------------------------------------------------------- *)
(* vocabulary of the theorems about the gather loop *)

(* every child process has ended (regularly or not): Process.exitcode is set *)
Definition quiescent (w : world) : Prop :=
  forall p, 1 <= p <= np -> exitc (wks w p) <> None.

(* number of items waiting in the log record queues of the workers *)
Definition log_backlog (w : world) : nat :=
  list_sum (map (fun p => length (lq (wks w p))) pids).

(* bound on the number of master steps still possible once all children have ended *)
Definition poll_bound (w : world) : nat :=
  8 * (length (rq w) + log_backlog w) + 7.

(* no result record is stuck half-way in the result queue *)
Definition no_partial (w : world) : Prop :=
  forall p, 1 <= p <= np -> pc (wks w p) <> WPutting.

(* what worker_wrapper does after its tasks: result record, end marker, regular end *)
Definition worker_program (p : nat) : list action :=
  [Worker p APutResult; Worker p APutEnd; Worker p AExit0].

Inductive subseq {X : Type} : list X -> list X -> Prop :=
| sub_nil l : subseq [] l
| sub_skip a p l : subseq p l -> subseq p (a :: l)
| sub_take a p l : subseq p l -> subseq (a :: p) (a :: l).

(* a schedule is fair when every child process is run to the end of its program (if none of its tasks raises),
   reaches the raising task (if one raises), or dies / is killed (by an exception, a signal, an external watchdog) at some point *)
Definition fair (sched : list action) : Prop :=
  forall p, 1 <= p <= np ->
    ((exists r, wres p = Ok r) /\ subseq (worker_program p) sched) \/
    ((exists e, wres p = Err e) /\ In (Worker p ARaise) sched) \/
    (exists c, In (Worker p (ADie c)) sched).

End Gather.

Arguments Run {R} _ _.
Arguments Fin {R} _.

Definition is_master (a : action) : bool :=
  match a with Master => true | Worker _ _ => false end.

(* number of steps the master takes in a schedule *)
Definition n_master (s : list action) : nat := length (filter is_master s).

(* a schedule in which no worker process dies *)
Definition is_die (a : action) : bool :=
  match a with Worker _ (ADie _) | Worker _ ARaise => true | _ => false end.

Definition fault_free (s : list action) : Prop := forallb (fun a => negb (is_die a)) s = true.

(* ------------------------------------------------------------------------- *)
(* parallelize(func, args_list, ncpu) without rss                             *)

Definition worker_pids (k : nat) : list nat :=
  filter (fun p => par_is_worker (Z.of_nat p)) (seq 0 k).

Section Par.
Context {A R : Type}.

(* None: the schedule ended before the call returned *)
Definition par_with {Rr : Type} (nargs : nat) (ncpu : Z)
    (single : res (list Rr)) (chunk_res : nat -> nat -> res (list Rr))
    (sched : list action) : option (outcome Rr) :=
  if par_empty (Z.of_nat nargs) then Some (Done [])       (* if len(args_list) == 0: return [] *)
  else if par_single ncpu then
    Some (match single with Ok r => Done r | Err _ => Fail TaskRaised end)
  else if (ncpu <? 1)%Z then Some (Fail BadNcpu)
  else
    let k := Z.to_nat ncpu in
    let np := length (worker_pids k) in
    if negb (Z.to_nat (par_n_lqueues ncpu) =? np)%nat then Some (Fail BadRecord)
    else
      match chunk_res k 0%nat with
      | Err _ => Some (Fail TaskRaised)
      | Ok r0 =>
          match exec np (chunk_res k) sched (init r0) with
          | Fin o => Some o
          | Run _ _ => None
          end
      end.

(* before fix ac3e25b: the progress bar was created first and raised for 0 tasks *)
Definition par_with_legacy_empty {Rr : Type} (nargs : nat) (ncpu : Z)
    (single : res (list Rr)) (chunk_res : nat -> nat -> res (list Rr))
    (sched : list action) : option (outcome Rr) :=
  if (nargs =? 0)%nat then Some (Fail EmptyArgs)
  else par_with nargs ncpu single chunk_res sched.

Definition chunk {B} (args : list B) (k pid : nat) : list B :=
  nth pid (array_split args k) [].

Definition parallelize (f : A -> res R) (args : list A) (ncpu : Z)
    (sched : list action) : option (outcome R) :=
  par_with (length args) ncpu (mapM f args)
           (fun k pid => mapM f (chunk args k pid)) sched.

(* ---- with rss: func draws from the RandomStateService of its process ---- *)
Variable St : Type.                (* state of a RandomStateService *)
Variable draw : St -> Z * St.        (* rss.random.randint(0, 2**32) *)
Variable mk : Z -> St.              (* RandomStateService(seed=...) *)

Fixpoint draws (n : nat) (s : St) : list Z * St :=
  match n with
  | O => ([], s)
  | S n' => let (d, s1) := draw s in let (ds, s2) := draws n' s1 in (d :: ds, s2)
  end.

(* the tasks of one process are evaluated one after the other on its rss *)
Fixpoint run_chunk (g : St -> A -> res (R * St)) (s : St) (l : list A) : res (list R) :=
  match l with
  | [] => Ok []
  | a :: t => do rs <- g s a; do rest <- run_chunk g (snd rs) t; Ok (fst rs :: rest)
  end.

(* rss_list = [rss] + [RandomStateService(seed=rss.random.randint(0, 2**32)) for i in range(1, ncpu)] *)
Definition rss_of (s0 : St) (ncpu : Z) (pid : nat) : St :=
  let (ds, s1) := draws (Z.to_nat (par_seed_hi ncpu - par_seed_lo)) s0 in
  match pid with
  | O => s1
  | S p => match nth_error ds p with Some d => mk (par_child_seed d) | None => s1 end
  end.

Definition parallelize_rss (g : St -> A -> res (R * St)) (s0 : St) (args : list A) (ncpu : Z)
    (sched : list action) : option (outcome R) :=
  par_with (length args) ncpu (run_chunk g s0 args)
           (fun k pid => run_chunk g (rss_of s0 ncpu pid) (chunk args k pid)) sched.

End Par.

(* Analysis.do_trials: args_list = [((), kwargs) for i in range(n)], every task
   is do_trial(rss=...), the result array keeps the order of result_list *)
Definition do_trials_args (n : Z) : list unit := repeat tt (Z.to_nat (trials_n_tasks n)).

(* ------------------------------------------------------------------------- *)
(* two schedules (2 workers) on which the loop before the fix never ends      *)

Definition wres2 : nat -> res (list nat) := fun p => Ok [p].

(* (a) worker 2 delivers and ends regularly, its record is consumed in the
   iteration of processes[0]; worker 1 dies without a result *)
Definition sched_a : list action :=
  [Worker 2 APutResult; Worker 2 APutEnd; Worker 2 AExit0; Worker 1 (ADie 1%Z);
   Master; Master; Master; Master].

(* (b) worker 1 dies after rqueue.put and before the end marker *)
Definition sched_b : list action :=
  [Worker 1 APutResult; Worker 1 (ADie 1%Z); Worker 2 APutResult; Worker 2 APutEnd;
   Worker 2 AExit0; Master; Master].


(* ------------------------------------------------------------------------- *)
(* witnesses that the order facts are needed (1 worker unless stated) *)

(* all_procs_ended evaluated after the failed get: the worker delivers and ends in between *)
Definition sched_late_flag : list action :=
  [Master; Master; Worker 1 APutResult; Worker 1 APutEnd; Worker 1 AExit0; Master].

(* pid_proc_ended evaluated after the failed log get: the worker puts the end marker and ends in between *)
Definition sched_late_log_flag : list action :=
  [Worker 1 APutResult; Master; Master; Master; Worker 1 APutEnd; Worker 1 AExit0; Master].

(* result put in a `finally`: the worker's task raised, it queues a partial result, the end marker, and dies *)
Definition wres_raise : nat -> res (list nat) := fun _ => Err RuntimeError.
Definition sched_finally : list action :=
  [Worker 1 APutResult; Worker 1 APutEnd; Worker 1 (ADie 1%Z)] ++ repeat Master 12.

(* the worker ran its whole program but waits for its status queue to be read *)
Definition sched_status_block : list action :=
  worker_program 1 ++ repeat Master 6.

(* a task raises after the worker emitted log records (code before fix cdc2ef8: the worker waits for its log
   records queue at its end, the master reads that queue only after the result record) *)
Definition sched_raise_logs : list action :=
  [Worker 1 (APutLog 7%Z); Worker 1 ARaise].

(* OPEN FINDING: the worker is killed while its (large) result record is being transferred *)
Definition sched_midput : list action :=
  [Worker 1 APutBegin; Worker 1 (ADie (-9)%Z)].
