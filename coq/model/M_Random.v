(* Model of skyllh's use of random numbers (C08):
     skyllh/core/random.py         RandomStateService, RandomChoice
     skyllh/core/utils/analysis.py extend_trial_data_file (unused-seed search)
     skyllh/core/multiproc.py      parallelize (per-worker services)
     skyllh/core/analysis.py       do_trial / generate_pseudo_data / do_trials
     skyllh/core/minimizer.py      Minimizer.minimize (restart loop)
   The generator itself is an abstract deterministic machine (Section
   variables); every function is written in state-passing style and draws
   from the service it is HANDED (a slot of a two-element store), following
   the keyword arguments of the source through the regenerated kernels of
   gen/G_random.v.  Definitions only. *)
From Coq Require Import ZArith List Bool QArith Qabs Qminmax.
From Sky Require Import Result PyList Num G_random.
Import ListNotations.
Open Scope Z_scope.

(* ------------------------------------------------------------------ *)
(* RandomChoice, polymorphic in the number system                       *)
Section Choice.
  Context {T : Type} (N : Num T).

  (* np.cumsum(p, dtype=np.float64): sequential accumulation *)
  Fixpoint cumsum_fromT (acc : T) (l : list T) : list T :=
    match l with
    | [] => []
    | x :: r => let a := nadd N acc x in a :: cumsum_fromT a r
    end.
  Definition ncumsum (l : list T) : list T :=
    match l with [] => [] | x :: r => x :: cumsum_fromT x r end.

  (* np.searchsorted(a, v, side=...) on a non-decreasing array a *)
  Fixpoint ss_right (a : list T) (v : T) : Z :=
    match a with
    | [] => 0
    | b :: r => (if nleb N b v then 1 else 0) + ss_right r v
    end.
  Fixpoint ss_left (a : list T) (v : T) : Z :=
    match a with
    | [] => 0
    | b :: r => (if nltb N b v then 1 else 0) + ss_left r v
    end.

  (* _assert_probabilities (the ndim checks have no counterpart: lists are 1-d) *)
  Definition assert_probs (eps64 epsp : T) (p : list T) (n_items : Z) : res unit :=
    let atol := rc_atol1 N (rc_atol0 N eps64) epsp in
    if rc_size_bad (zlen p) n_items then Err ValueError else
    if negb (forallb (rc_nonneg N) p) then Err ValueError else
    if rc_sum_bad N (nsum N p) atol then Err ValueError else Ok tt.

  (* self._cdf = np.cumsum(p); self._cdf /= self._cdf[-1] *)
  Definition cdf_of (p : list T) : res (list T) :=
    let c := ncumsum p in
    do last <- py_get c rc_norm_last;
    Ok (map (fun x => rc_norm N x last) c).

  Record rchoice : Type := { rc_items : list Z; rc_cdf : list T }.

  Definition rc_init (eps64 epsp : T) (items : list Z) (p : list T) : res rchoice :=
    do _ <- assert_probs eps64 epsp p (zlen items);
    do c <- cdf_of p;
    Ok {| rc_items := items; rc_cdf := c |}.

  (* idxs[at] = vals, element by element *)
  Fixpoint scatter (a : list Z) (at_ vals : list Z) : res (list Z) :=
    match at_, vals with
    | j :: at', v :: vals' => do a' <- py_set a j v; scatter a' at' vals'
    | _, _ => Ok a
    end.

  (* __call__ for the drawn uniforms u; perm = np.argsort(u) (oracle input),
     junk = the uninitialised content of np.empty_like *)
  Definition rc_call (rc : rchoice) (u : list T) (perm : list Z) (junk : Z) : res (list Z) :=
    let perm := map rc_perm perm in
    do su <- mapM (fun j => py_get u (rc_ss_value_idx0 j)) perm;
    let table := map (rc_ss_table N) (rc_cdf rc) in
    let sorted_idxs :=
      map (if rc_side_right then ss_right table else ss_left table) su in
    do idxs <- scatter (repeat junk (length sorted_idxs))
                       (map rc_scatter_at perm) (map rc_scatter_val sorted_idxs);
    mapM (fun i => py_get (rc_items rc) (rc_take_idx0 i)) idxs.

  (* constructor + one call, the unit the correspondence runs *)
  Definition rc_run (eps64 epsp : T) (items : list Z) (p u : list T)
             (perm : list Z) (junk : Z) : res (list Z) :=
    do rc <- rc_init eps64 epsp items p; rc_call rc u perm junk.
End Choice.

(* An exact, executable instance of the ordered-field part of Num (the other
   fields are unused by RandomChoice): non-vacuity witnesses and a closed
   instance of the theorem. *)
Definition Qltb (a b : Q) : bool := negb (Qle_bool b a).
Definition QNum : Num Q := {|
  nzero := 0%Q; none := 1%Q;
  nadd := Qplus; nsub := Qminus; nmul := Qmult; ndiv := Qdiv; nopp := Qopp;
  nltb := Qltb; nleb := Qle_bool; neqb := Qeq_bool;
  nsqrt := fun x => x; nexp := fun x => x; nln := fun x => x; nlog1p := fun x => x;
  nlog10 := fun x => x; nsin := fun x => x; ncos := fun x => x; ntan := fun x => x;
  nasin := fun x => x; nacos := fun x => x; natan := fun x => x;
  nabs := Qabs; nfloor := fun x => x; nceil := fun x => x; nrint := fun x => x;
  ntrunc := fun x => x; nerf := fun x => x;
  natan2 := fun x _ => x; npow := fun x _ => x; nfmod := fun x _ => x;
  nmin := Qmin; nmax := Qmax;
  npi := 3%Q; nisnan := fun _ => false |}.

(* ------------------------------------------------------------------ *)
(* unused-seed search of extend_trial_data_file                         *)

(* np.unique: sorted, duplicates removed *)
Fixpoint zinsert (x : Z) (l : list Z) : list Z :=
  match l with
  | [] => [x]
  | y :: r => if x <? y then x :: l else if x =? y then l else y :: zinsert x r
  end.
Definition np_unique (l : list Z) : list Z := fold_right zinsert [] l.

(* range(lo, hi) *)
Definition zrange (lo hi : Z) : list Z :=
  map (fun k => lo + Z.of_nat k) (seq 0 (Z.to_nat (hi - lo))).

(* next(i for i in range(..) if i not in used); StopIteration -> RuntimeError *)
Definition seed_search (seeds : list Z) : res Z :=
  let used := seed_used (np_unique seeds) in
  match find (fun i => seed_keep i used) (zrange seed_lo (seed_hi (zlen used))) with
  | Some i => Ok (seed_elt i)
  | None => Err RuntimeError
  end.

(* the seed the service has when create_trial_data_file is called *)
Definition extend_seed (rss_seed : Z) (seeds : list Z) : res Z :=
  if seed_need rss_seed seeds
  then do s <- seed_search seeds; Ok (seed_reseed_arg s)
  else Ok rss_seed.

(* ------------------------------------------------------------------ *)
(* parallelize: pid_result_list_map is filled in the order in which the
   result records ARRIVE (a dict: assignment to a present key keeps its
   position); the result list is put together by pid                    *)
Fixpoint rmap_set {A} (m : list (Z * A)) (k : Z) (v : A) : list (Z * A) :=
  match m with
  | [] => [(k, v)]
  | (k', v') :: r => if k' =? k then (k, v) :: r else (k', v') :: rmap_set r k v
  end.
Fixpoint rmap_get {A} (m : list (Z * A)) (k : Z) : res A :=
  match m with
  | [] => Err KeyError
  | (k', v) :: r => if k' =? k then Ok v else rmap_get r k
  end.
(* {0: result_list_0}, then one entry per arriving (pid, result_list) *)
Definition collect {A} (res0 : list A) (arrivals : list (Z * list A)) : list (Z * list A) :=
  fold_left (fun m pr => rmap_set m (asm_store_at (fst pr)) (snd pr)) arrivals [(0, res0)].
(* for pid in range(len(map)): result_list += map[pid] *)
Definition assemble {A} (m : list (Z * list A)) : res (list A) :=
  fold_left (fun acc pid => do a <- acc; do l <- rmap_get m (asm_take_idx pid); Ok (a ++ l))
            (zrange 0 (zlen m)) (Ok []).

(* ------------------------------------------------------------------ *)
(* Analysis.generate_signal_events and the CALLER's sig_kwargs dictionary:
   the entry 'mean' of the dictionary (None = absent) before and after a call
   with mean_n_sig, and the mean the signal generator is called with.  The
   code overwrites the entry (one `update(mean=mean_n_sig)`, no other writer,
   before the generator is called); a tree in which that is not so is read as
   "an entry already present wins". *)
Definition sig_kwargs_after (kw : option Z) (mean_n_sig : Z) : option Z :=
  if ana_sig_none mean_n_sig then kw
  else if (sigkw_nupdate =? 1) && (sigkw_nother =? 0) && sigkw_order
       then Some (sigkw_mean mean_n_sig)
       else match kw with Some m => Some m | None => Some mean_n_sig end.
(* the mean handed to the signal generator; None = no signal generation at all *)
Definition sig_mean_used (kw : option Z) (mean_n_sig : Z) : option Z :=
  if ana_sig_none mean_n_sig then None else sig_kwargs_after kw mean_n_sig.
(* a sequence of generations with the same dictionary *)
Fixpoint sig_means_used (kw : option Z) (means : list Z) : list (option Z) :=
  match means with
  | [] => []
  | m :: rest => sig_mean_used kw m :: sig_means_used (sig_kwargs_after kw m) rest
  end.

(* ------------------------------------------------------------------ *)
(* the generator as an abstract deterministic machine                   *)

Inductive req : Type :=
| RRandom (size : Z)            (* random(size) *)
| RUniform (size : Z)           (* uniform(lo, hi, size) *)
| RPoisson (tag : Z)            (* poisson(mean) *)
| RRandint (lo hi : Z)          (* randint(lo, hi) *)
| ROther (tag : Z).

Section Machine.
  Variables rng val : Type.
  Variable seed_rng : Z -> rng.                 (* np.random.RandomState(seed) *)
  Variable draw : rng -> req -> val * rng.
  Variable val_int : val -> Z.                  (* integer read of a randint draw *)

  Record rss : Type := { rs_seed : Z; rs_st : rng }.
  (* RandomStateService(seed): self._seed = int_cast(seed); self.random = RandomState(self._seed) *)
  Definition rss_new (s : Z) : rss :=
    let sd := rs_init_seed s in {| rs_seed := sd; rs_st := seed_rng (rs_init_state_arg sd) |}.
  (* the `seed` property *)
  Definition rss_seed (r : rss) : Z := rs_seed_prop (rs_seed r).
  (* reseed(seed): self._seed = int_cast(seed); self.random.seed(self._seed).  The stream is
     restarted only on the straight-line path: a reseed containing a branch or an early return
     is read as possibly keeping the old state. *)
  Definition rss_reseed (r : rss) (s : Z) : rss :=
    if (rs_reseed_nif =? 0) && (rs_reseed_nreturn =? 0)
    then let sd := rs_reseed_seed s in {| rs_seed := sd; rs_st := seed_rng (rs_reseed_state_arg sd) |}
    else r.
  Definition rss_draw (r : rss) (q : req) : val * rss :=
    let '(v, st) := draw (rs_st r) q in (v, {| rs_seed := rs_seed r; rs_st := st |}).

  (* the services a trial can be handed: slot 0 = `rss`, slot 1 = `minimizer_rss` *)
  Definition store := list rss.
  Definition with_slot {A} (s : store) (slot : Z) (f : rss -> A * rss) : res (A * store) :=
    if slot <? 0 then Err IndexError else
    match nth_error s (Z.to_nat slot) with
    | None => Err IndexError
    | Some r => let '(a, r') := f r in Ok (a, set_nth s (Z.to_nat slot) r')
    end.

  (* RandomChoice.__call__ as seen by the machine: one request random(size) *)
  Definition rc_draw (r : rss) (size : Z) : val * rss := rss_draw r (RRandom (rc_draw_size size)).
  (* successive calls of a RandomChoice with the sizes of the list *)
  Fixpoint rc_draws (ks : list Z) (r : rss) : rss :=
    match ks with [] => r | k :: rest => rc_draws rest (snd (rc_draw r k)) end.

  (* MCDataSamplingBkgGenMethod.generate_events (no pre-selection method): the
     requests it makes on the service it is handed, in the order of the code:
     poisson(mean) only when `poisson`, random(n_bkg) by RandomChoice, and
     uniform(size=n_bkg) by the RA scrambler when a scrambler is set *)
  Definition bkg_mc (poisson : bool) (n_fixed : Z) (scramble : bool) (r : rss) : Z * rss :=
    let '(nb, r1) := if poisson
                     then let '(v, r1) := rss_draw r (RPoisson 0) in (val_int v, r1)
                     else (0, r) in
    let n_bkg := bkg_n poisson n_fixed nb in
    let '(_, r2) := rc_draw r1 (bkg_choice_size n_bkg) in
    if scramble
    then let '(_, r3) := rss_draw r2 (RUniform (scr_size n_bkg)) in (n_bkg, r3)
    else (n_bkg, r2).

  (* MCMultiDatasetSignalGenerator.generate_signal_events: poisson(mean) only when
     `poisson`, one weighted choice of n_signal candidates, then for every
     (dataset, source-hypothesis-group) with invalid events the re-draw loop of
     _draw_valid_sig_events_for_dataset_and_shg: while n < n_signal draw
     n_signal - n further candidates.  What the drawn candidates imply is an
     oracle: the numbers of invalid events per group (in processing order) of
     the first choice, and the number of valid events of group g in a re-draw.
     The loop has no bound in the code: it carries fuel, OutOfFuel = the loop
     did not finish within `fuel` iterations. *)
  Variable sig_groups : val -> list Z.
  Variable sig_valid : Z -> val -> Z.

  Fixpoint redraw_loop (fuel : nat) (g n n_signal : Z) (r : rss) : res rss :=
    if sig_redraw_cond n n_signal then
      match fuel with
      | O => Err OutOfFuel
      | S f => let '(v, r1) := rc_draw r (sig_redraw_size n_signal n) in
               redraw_loop f g (n + sig_valid g v) n_signal r1
      end
    else Ok r.

  Fixpoint redraw_groups (fuel : nat) (g : Z) (nreds : list Z) (r : rss) : res rss :=
    match nreds with
    | [] => Ok r
    | nred :: rest =>
        do r1 <- (if sig_redraw_need nred then redraw_loop fuel g 0 nred r else Ok r);
        redraw_groups fuel (g + 1) rest r1
    end.

  Definition sig_mc (fuel : nat) (poisson : bool) (mean : Z) (r : rss) : res (Z * rss) :=
    let '(n, r1) := if sig_poisson poisson
                    then let '(v, r1) := rss_draw r (RPoisson 1) in (val_int v, r1)
                    else (mean, r) in
    let '(v, r2) := rc_draw r1 (sig_choice_size n) in
    do r3 <- redraw_groups fuel 0 (sig_groups v) r2;
    Ok (n, r3).

  (* ---------------- parallelize: rss_list ---------------- *)
  Fixpoint worker_seeds (k : nat) (r : rss) : list Z * rss :=
    match k with
    | O => ([], r)
    | S k' =>
        let '(v, r1) := rss_draw r (RRandint wk_randint_lo wk_randint_hi) in
        let '(l, r2) := worker_seeds k' r1 in
        (wk_seed (val_int v) :: l, r2)
    end.

  (* k successive requests randint(0, 2^32) and their integer reads *)
  Fixpoint randints (k : nat) (r : rss) : list Z * rss :=
    match k with
    | O => ([], r)
    | S k' => let '(v, r1) := rss_draw r (RRandint 0 4294967296) in
              let '(l, r2) := randints k' r1 in (val_int v :: l, r2)
    end.

  (* ncpu = 1: the given service only; otherwise the parent (advanced by the
     draws) followed by one fresh service per worker *)
  Definition rss_list (parent : rss) (ncpu : Z) : list rss :=
    if ncpu =? 1 then [parent] else
    let '(seeds, p') := worker_seeds (Z.to_nat (wk_hi ncpu - wk_lo)) parent in
    p' :: map rss_new seeds.

  (* extend_trial_data_file -> create_trial_data_file -> Analysis.do_trials ->
     parallelize -> do_trial: the service that was (re)seeded is handed down
     unchanged - no further reseed, no new service, nothing drawn on the way
     (statement counts of the source); do_trial creates exactly one service (the
     default minimiser one).  A tree in which one of these facts fails is read as
     "rows may carry any seed". *)
  Definition service_handed_down : bool :=
    (ctdf_nreseed =? 0) && (ctdf_nservice =? 0) && (ctdf_ntrials_calls =? 1)
    && (ext_nreseed =? 1) && (ext_nservice =? 0) && ext_reseed_before_create
    && (trials_nservice =? 0) && (trials_nrss_calls =? 0)
    && (pseudo_nservice =? 0) && (trial_nservice =? 1).

  (* the seeds recorded in the rows appended to a trial file (do_trial records
     the seed of the service its process works with): one entry per process *)
  Definition row_seeds (parent : rss) (ncpu : Z) : res (list Z) :=
    if service_handed_down
       && (seed_create_rss 0 =? 0) && (ctdf_trials_rss 0 =? 0) && (trials_rss 0 =? 0)
    then Ok (map (fun r => trial_rec_seed (rs_seed r)) (rss_list parent ncpu))
    else Err RuntimeError.

  Definition extend_rows (rss_seed : Z) (seeds : list Z) (ncpu : Z) : res (list Z) :=
    do s <- extend_seed rss_seed seeds;
    row_seeds (rss_reseed (rss_new rss_seed) s) ncpu.

  (* the service process `pid` works with *)
  Definition proc_rss (parent : rss) (ncpu pid : Z) : res rss :=
    let l := rss_list parent ncpu in
    if ncpu =? 1 then py_get l 0
    else if wk_proc_cond pid then py_get l (wk_proc_rss_idx0 pid)
    else py_get l wk_master_rss_idx0.

  (* ---------------- Minimizer.minimize ---------------- *)
  (* the minimiser implementation is an oracle: call number and the initials
     it was started from (None = the parameter set's own initials) give
     (has_converged, is_repeatable) *)
  Variable impl : nat -> option val -> bool * bool.

  Fixpoint min_loop (fuel k : nat) (reps maxrep nfloat : Z) (st : bool * bool)
           (s : store) (slot : Z) : res (Z * (bool * bool) * store) :=
    if min_loop_cond reps maxrep (fst st) (snd st) then
      match fuel with
      | O => Err OutOfFuel
      | S f =>
          do vs <- with_slot s (min_init_rss slot)
                     (fun r => rss_draw r (RUniform (init_size nfloat)));
          let '(v, s') := vs in
          min_loop f (S k) (min_reps_inc reps) maxrep nfloat (impl (S k) (Some v)) s' slot
      end
    else Ok (reps, st, s).

  (* returns the number of repetitions, or ValueError when not converged;
     the store is returned in both cases (the draws have happened) *)
  Definition minimize (s : store) (slot : Z) (maxrep nfloat : Z) : res (res Z * store) :=
    do r <- min_loop (Z.to_nat maxrep) 0 min_reps0 maxrep nfloat (impl 0 None) s slot;
    let '(reps, st, s') := r in
    Ok (if min_fail (fst st) then Err ValueError else Ok reps, s').

  (* ---------------- Analysis ---------------- *)
  Variables bdata data : Type.
  Variable bkg : rss -> bdata * rss.            (* generate_background_events(rss=...) *)
  Variable sig : bdata -> rss -> data * rss.    (* generate_signal_events(rss=..., events so far) *)

  Definition gen_pseudo (s : store) (slot : Z) : res (data * store) :=
    do bs <- with_slot s (pseudo_bkg_rss slot) bkg;
    let '(b, s1) := bs in
    with_slot s1 (pseudo_sig_rss slot) (sig b).

  (* do_trial(rss, minimizer_rss=mr): result = (pseudo data, recorded seed,
     fit outcome), the service `rss` afterwards, the minimiser service afterwards *)
  Definition do_trial (r : rss) (mr : option rss) (maxrep nfloat : Z)
    : res (data * Z * res Z * rss * rss) :=
    let m := if trial_min_none (option_map (fun _ => 1) mr)
             then rss_new (trial_min_seed (rs_seed r))
             else match mr with Some m => m | None => r end in
    let s0 := [r; m] in
    do ds <- gen_pseudo s0 (trial_gen_rss 0);
    let '(d, s1) := ds in
    do fs <- minimize s1 (max_min_rss (fit_max_rss (trial_fit_rss 1))) maxrep nfloat;
    let '(fit, s2) := fs in
    do r' <- py_get s2 0;
    do m' <- py_get s2 1;
    Ok (d, trial_rec_seed (rs_seed r'), fit, r', m').
  (* do_trial(rss, minimizer_rss=rss): the caller hands the SAME service object
     for both roles - one object, both names are bound to it *)
  Definition do_trial_aliased (r : rss) (maxrep nfloat : Z) : res (data * Z * res Z * rss) :=
    let s0 := [r] in
    let obj := fun (_ : Z) => 0 in
    do ds <- gen_pseudo s0 (obj (trial_gen_rss 0));
    let '(d, s1) := ds in
    do fs <- minimize s1 (obj (max_min_rss (fit_max_rss (trial_fit_rss 1)))) maxrep nfloat;
    let '(fit, s2) := fs in
    do r' <- py_get s2 0;
    Ok (d, trial_rec_seed (rs_seed r'), fit, r').
End Machine.

Arguments rs_seed {rng} _.
Arguments rs_st {rng} _.

(* n trials on one process (master_wrapper: the same `rss` object every time;
   a minimiser service given by the caller is one object for all trials, the
   default None creates a fresh one per trial).  `impls` gives the minimiser
   oracle of each trial. *)
Section Trials.
  Variables rng val : Type.
  Variable seed_rng : Z -> rng.
  Variable draw : rng -> req -> val * rng.
  Variables bdata data : Type.
  Variable bkg : rss rng -> bdata * rss rng.
  Variable sig : bdata -> rss rng -> data * rss rng.

  Fixpoint do_trials_seq (impls : list (nat -> option val -> bool * bool))
           (r : rss rng) (mr : option (rss rng)) (maxrep nfloat : Z)
    : res (list (data * Z * res Z) * rss rng * option (rss rng)) :=
    match impls with
    | [] => Ok ([], r, mr)
    | impl :: rest =>
        do t <- do_trial rng val seed_rng draw impl bdata data bkg sig r mr maxrep nfloat;
        let '(d, sd, fit, r', m') := t in
        let mr' := match mr with Some _ => Some m' | None => None end in
        do rs <- do_trials_seq rest r' mr' maxrep nfloat;
        let '(l, r'', mr'') := rs in
        Ok ((d, sd, fit) :: l, r'', mr'')
    end.
End Trials.

(* ------------------------------------------------------------------ *)
(* A concrete machine for executing the model: it logs the requests made
   on each stream and answers from a prescribed table (per seed). *)
Definition tm_rng : Type := (list Z * list req)%type.       (* remaining answers, log (newest first) *)
Definition tm_seed (table : list (Z * list Z)) (s : Z) : tm_rng :=
  (match find (fun kv => fst kv =? s) table with Some kv => snd kv | None => [] end, []).
Definition tm_draw (st : tm_rng) (q : req) : Z * tm_rng :=
  (hd 0 (fst st), (tl (fst st), q :: snd st)).
Definition tm_log (r : rss tm_rng) : Z * list req := (rs_seed r, rev (snd (rs_st r))).

(* scripted stand-ins for the data generators: draw the given requests in order *)
Fixpoint tm_script (qs : list req) (r : rss tm_rng) : list Z * rss tm_rng :=
  match qs with
  | [] => ([], r)
  | q :: rest =>
      let '(v, r1) := rss_draw tm_rng Z tm_draw r q in
      let '(l, r2) := tm_script rest r1 in (v :: l, r2)
  end.

(* ------------------------------------------------------------------ *)
(* Extension: ParameterSet.generate_random_floating_param_initials -
   ri = vb[:,0] + uniform(size=n) * (vb[:,1] - vb[:,0]), element by element.
   `bounds` = the (lower, upper) pairs of the floating parameters, `u` the
   drawn uniforms; numpy broadcasting of unequal lengths raises ValueError. *)
Section Initials.
  Context {T : Type} (N : Num T).
  Fixpoint param_initials (bounds : list (T * T)) (u : list T) : res (list T) :=
    match bounds, u with
    | [], [] => Ok []
    | (lo, hi) :: br, x :: ur =>
        do r <- param_initials br ur; Ok (init_value N lo x hi lo :: r)
    | _, _ => Err ValueError
    end.
End Initials.
