(* C10, stateful parts of the PDF classes (definitions only):
   - SignalTimePDF._calculate_pd as a state machine over (profile, S): one
     step per source row of params_recarray (MathFunction.set_params through
     the Box / Gaussian setters; S recomputed iff set_params reports an update);
   - BackgroundI3SpatialPDF as a state machine over add_events / reset;
   - NeighboringBinHistSmoothingMethod.smooth along one axis
     (scipy.signal.convolve(mode="same") read as the centred finite sum).
   Formulas are the regenerated kernels of gen/G_pdf.v. *)
From Coq Require Import ZArith List Bool.
From Sky Require Import Num Result PyList G_pdf M_Pdf.
Import ListNotations.

Section PdfState.
  Context {T : Type} (N : Num T).

  (* ---------------------------------------------------------------- set_params
     one row of params_recarray = the two local parameters of the profile:
     (t0, tw) for the box, (t0, sigma_t) for the gaussian.  MathFunction.set_params
     loops over param_names in this order; a setter is called only when the
     value differs from the current one. *)
  Definition apply_row (tol : T) (p : @profile T) (row : T * T) : @profile T * bool :=
    let (a, b) := row in
    match p with
    | Box ts te =>
        (* 't0' *)
        let st1 :=
          if sp_changed N a (bx_get_t0 N ts te)
          then let dt := bx_set_t0_dt N a (bx_get_t0 N ts te) in
               (bx_move_start N ts dt, bx_move_stop N te dt, sp_updated_set)
          else (ts, te, sp_updated_init) in
        let '(ts1, te1, u1) := st1 in
        (* 'tw' *)
        if sp_changed N b (bx_get_tw N ts1 te1)
        then let t0 := bx_get_t0 N ts1 te1 in
             (Box (bx_set_tw_start N t0 b) (bx_set_tw_stop N t0 b), sp_updated_set)
        else (Box ts1 te1, u1)
    | Gauss ts te s =>
        let st1 :=
          if sp_changed N a (gs_get_t0 N ts te)
          then let dt := gs_set_t0_dt N a (gs_get_t0 N ts te) in
               (gs_move_start N ts dt, gs_move_stop N te dt, sp_updated_set)
          else (ts, te, sp_updated_init) in
        let '(ts1, te1, u1) := st1 in
        if sp_changed N b s
        then let t0 := gs_get_t0 N ts1 te1 in
             let dt := gs_set_sigma_dt N b tol in
             (Gauss (gs_set_sigma_start N t0 dt) (gs_set_sigma_stop N t0 dt) b, sp_updated_set)
        else (Gauss ts1 te1 s, u1)
    end.

  (* state of a SignalTimePDF: the (mutable) profile and the cached _S *)
  Definition tstate : Type := (@profile T * T)%type.

  (* constructor: _S = _calculate_sum_of_ontime_time_flux_profile_integrals() *)
  Definition tinit (ivs : list (T * T)) (p : @profile T) : tstate := (p, S_of N ivs p).

  (* loop body of _calculate_pd up to `if updated: self._S = ...` *)
  Definition tstep (ivs : list (T * T)) (tol : T) (st : tstate) (row : T * T) : tstate :=
    let (p', upd) := apply_row tol (fst st) row in
    (p', if upd then S_of N ivs p' else snd st).

  (* the density of one event for the source being processed, with the
     CURRENT state *)
  Definition tpd (ivs : list (T * T)) (st : tstate) (t : T) : T :=
    if lt_is_on N ivs t then tp_sig_pd N (snd st) (prof_call N (fst st) t) else nzero N.

  (* the loop of _calculate_pd: one output block per source (rows and
     per-source event times in step); returns the blocks and the state left
     behind *)
  Fixpoint calc_loop (ivs : list (T * T)) (tol : T) (st : tstate)
           (rows : list (T * T)) (times : list (list T)) : list (list T) * tstate :=
    match rows, times with
    | r :: rs, ts :: tss =>
        let st' := tstep ivs tol st r in
        let (out, stf) := calc_loop ivs tol st' rs tss in
        (map (tpd ivs st') ts :: out, stf)
    | _, _ => ([], st)
    end.

  (* _calculate_pd (after fix 34ac9f2): self._update_S() first — the live-time
     and the profile instance may have been changed since the last call —
     then the loop *)
  Definition calc_pd (ivs : list (T * T)) (tol : T) (st : tstate)
             (rows : list (T * T)) (times : list (list T)) : list (list T) * tstate :=
    calc_loop ivs tol (fst st, S_of N ivs (fst st)) rows times.

  (* a history of get_pd calls on one object *)
  Fixpoint calc_calls (ivs : list (T * T)) (tol : T) (st : tstate)
           (calls : list (list (T * T) * list (list T))) : list (list (list T)) * tstate :=
    match calls with
    | [] => ([], st)
    | (rows, times) :: cs =>
        let (o, st') := calc_pd ivs tol st rows times in
        let (os, stf) := calc_calls ivs tol st' cs in
        (o :: os, stf)
    end.

  (* the profile reached after a list of rows *)
  Definition rows_profile (tol : T) (p : @profile T) (rows : list (T * T)) : @profile T :=
    fold_left (fun q r => fst (apply_row tol q r)) rows p.

  (* ---------------------------------------------------------------- a TimePDF object under its public operations
     o_S is the cached _S; it may be stale after the live-time array or the
     (possibly shared) profile object was changed from outside *)
  Record tobj : Type := { o_ivs : list (T * T); o_prof : @profile T; o_S : T }.

  Inductive top : Type :=
  | SetProfile (p : @profile T)            (* time_flux_profile setter: _update_S() *)
  | SetLivetime (ivs : list (T * T))       (* livetime setter: _update_S() *)
  | ExtProfile (p : @profile T)            (* the profile object mutated from outside (e.g. by another PDF sharing it) *)
  | ExtLivetime (ivs : list (T * T))       (* Livetime.uptime_mjd_intervals_arr set from outside *)
  | EvalSig (rows : list (T * T)) (times : list (list T))   (* SignalTimePDF.get_pd (not pre-computed) *)
  | EvalBkg (times : list T).              (* BackgroundTimePDF.initialize_for_new_trial + get_pd *)

  Definition ostep (tol : T) (o : tobj) (op : top) : tobj * list (list T) :=
    match op with
    | SetProfile p => ({| o_ivs := o_ivs o; o_prof := p; o_S := S_of N (o_ivs o) p |}, [])
    | SetLivetime ivs => ({| o_ivs := ivs; o_prof := o_prof o; o_S := S_of N ivs (o_prof o) |}, [])
    | ExtProfile p => ({| o_ivs := o_ivs o; o_prof := p; o_S := o_S o |}, [])
    | ExtLivetime ivs => ({| o_ivs := ivs; o_prof := o_prof o; o_S := o_S o |}, [])
    | EvalSig rows times =>
        let (out, st') := calc_pd (o_ivs o) tol (o_prof o, o_S o) rows times in
        ({| o_ivs := o_ivs o; o_prof := fst st'; o_S := snd st' |}, out)
    | EvalBkg times =>
        (* self._update_S(); np.zeros; pd[on] = profile(t[on]) / S *)
        let S' := S_of N (o_ivs o) (o_prof o) in
        ({| o_ivs := o_ivs o; o_prof := o_prof o; o_S := S' |},
         [map (fun t => if lt_is_on N (o_ivs o) t then tp_bkg_pd N S' (prof_call N (o_prof o) t) else nzero N) times])
    end.

  Fixpoint orun (tol : T) (o : tobj) (ops : list top) : tobj * list (list (list T)) :=
    match ops with
    | [] => (o, [])
    | op :: r =>
        let (o', out) := ostep tol o op in
        let (of, outs) := orun tol o' r in
        (of, out :: outs)
    end.

  (* ---------------------------------------------------------------- add_events / reset
     state of a BackgroundI3SpatialPDF: _orig_hist, the values the current
     log-spline interpolates (exp of its nodes), and those of _orig_log_spline *)
  Record sstate : Type := { s_orig : list T; s_nodes : list T; s_orig_nodes : list T }.

  Inductive sop : Type :=
  | AddEvents (h_upd : list T)     (* np.histogram of events['sin_dec'] *)
  | Reset.

  (* add_events: h = _orig_hist + h_upd; h = h / h.sum() / (bins[1:] - bins[:-1])
     (no NaN / emptiness check on this path) *)
  Definition ae_nodes (orig h_upd edges : list T) : list T :=
    let h := map (fun x => ae_sum N (fst x) (snd x)) (combine orig h_upd) in
    let s := nsum N h in
    map (fun x => ae_norm N (fst x) s (snd (snd x)) (fst (snd x)))
        (combine h (combine (removelast edges) (tl edges))).

  Definition sstep (edges : list T) (st : sstate) (o : sop) : sstate :=
    match o with
    | AddEvents h_upd =>
        {| s_orig := s_orig st; s_nodes := ae_nodes (s_orig st) h_upd edges;
           s_orig_nodes := s_orig_nodes st |}
    | Reset =>
        {| s_orig := s_orig st; s_nodes := s_orig_nodes st; s_orig_nodes := s_orig_nodes st |}
    end.

  Definition srun (edges : list T) (st : sstate) (ops : list sop) : sstate :=
    fold_left (sstep edges) ops st.

  (* constructor (when it accepts) *)
  Definition sinit (h edges : list T) : res sstate :=
    do n <- sh_hist N h edges;
    Ok {| s_orig := h; s_nodes := n; s_orig_nodes := n |}.

  (* ---------------------------------------------------------------- smoothing
     scipy.signal.convolve(h, k, mode="same")[i] = sum_l k[i + c - l] * h[l],
     c = (len k - 1) / 2, terms with the kernel index out of range dropped *)
  Definition kat (k : list T) (z : Z) : T :=
    if (z <? 0)%Z then nzero N else nth (Z.to_nat z) k (nzero N).

  Definition conv_same (k h : list T) (i : nat) : T :=
    let c := ((Z.of_nat (length k) - 1) / 2)%Z in
    nsum N (map (fun l => nmul N (kat k (Z.of_nat i + c - Z.of_nat l)%Z) (nth l h (nzero N)))
                (seq 0 (length h))).

  (* smooth: convolve(h, k) / convolve(ones_like(h), k) *)
  Definition smooth1 (k h : list T) : list T :=
    map (fun i => sm_div N (conv_same k (map (fun _ => none N) h) i) (conv_same k h i))
        (seq 0 (length h)).
End PdfState.

Arguments SetProfile {T} _.
Arguments SetLivetime {T} _.
Arguments ExtProfile {T} _.
Arguments ExtLivetime {T} _.
Arguments EvalSig {T} _ _.
Arguments EvalBkg {T} _.
Arguments AddEvents {T} _.
Arguments Reset {T}.
