(* Model of the two-component log-likelihood-ratio evaluation:
   skyllh/core/llhratio.py  ZeroSigH0SingleDatasetTCLLHRatio.{calculate_log_lambda_and_grads,
     calculate_ns_grad2, evaluate}, MultiDatasetTCLLHRatio.{evaluate, calculate_ns_grad2}
   skyllh/core/pdfratio.py  SigOverBkgPDFRatio, PDFRatioProduct, SourceWeightedPDFRatio
   skyllh/core/services.py  SrcDetSigYieldWeightsService / DatasetSignalWeightFactorsService
   Polymorphic in the number system (Num T).  Every formula is a kernel of the
   regenerated gen/G_llh.v; this file supplies masks, reductions, index plumbing.
   Definitions only. *)
From Coq Require Import ZArith List Bool.
From Sky Require Import Num G_llh.
Import ListNotations.

Section Llh.
  Context {T : Type} (Nm : Num T).

  (* ------------------------------------------------------------------ *)
  (* per-event pieces of calculate_log_lambda_and_grads                   *)
  (* opa = the class constant _one_plus_alpha                             *)

  Definition ev_alpha_i (ns x : T) : T := k_alpha_i Nm ns x.
  Definition ev_stable (opa ns x : T) : bool :=
    k_m_stable Nm (ev_alpha_i ns x) (k_alpha Nm opa).
  Definition ev_tilde (opa ns x : T) : T :=
    k_tildealpha Nm (ev_alpha_i ns x) (k_alpha Nm opa) opa.

  Definition ev_loglam (opa ns x : T) : T :=
    if ev_stable opa ns x
    then k_loglam_stable Nm (ev_alpha_i ns x)
    else k_loglam_unstable Nm (k_alpha Nm opa) (ev_tilde opa ns x).

  Definition ev_nsgrad (opa ns x : T) : T :=
    if ev_stable opa ns x
    then k_nsgrad_stable Nm x (k_inv_opai Nm (ev_alpha_i ns x))
    else k_nsgrad_unstable Nm (ev_tilde opa ns x) x opa.

  (* summand of d/dp for one event; dx = dX_i/dp *)
  Definition ev_pgrad (opa ns x dx : T) : T :=
    if ev_stable opa ns x
    then k_gradp_stable Nm ns (k_inv_opai Nm (ev_alpha_i ns x)) dx
    else k_gradp_unstable Nm ns (ev_tilde opa ns x) dx opa.

  Definition nlen {A} (l : list A) : T := ofZ Nm (Z.of_nat (length l)).

  (* log_lambda = np.sum(log_lambda_i) + (N - N')*log1p(-ns/N) *)
  Definition log_lambda (opa Ntot ns : T) (X : list T) : T :=
    k_log_lambda Nm Ntot (nlen X) ns (nsum Nm (map (ev_loglam opa ns) X)).

  Definition grad_ns (opa Ntot ns : T) (X : list T) : T :=
    k_grad_ns Nm Ntot (nlen X) ns (nsum Nm (map (ev_nsgrad opa ns) X)).

  (* grads[p] : the stable events are summed first, then (only if there is an
     unstable event) the sum over the unstable events is added *)
  Definition grad_p (opa ns : T) (XdX : list (T * T)) : T :=
    let st := filter (fun p => ev_stable opa ns (fst p)) XdX in
    let un := filter (fun p => negb (ev_stable opa ns (fst p))) XdX in
    let s := nsum Nm (map (fun p => ev_pgrad opa ns (fst p) (snd p)) st) in
    match un with
    | [] => s
    | _ => nadd Nm s (nsum Nm (map (fun p => ev_pgrad opa ns (fst p) (snd p)) un))
    end.

  (* calculate_ns_grad2 from the cached nsgrad_i *)
  Definition ns_grad2 (opa ns : T) (X : list T) (n_pure_bkg : T) : T :=
    let Nprime := nlen X in
    k_nsgrad2 Nm (k_N_total Nm Nprime n_pure_bkg) Nprime ns
      (nsum Nm (map (fun x => k_nsgrad2_term Nm (ev_nsgrad opa ns x)) X)).

  (* evaluate: Xi = (Ri - 1)/N ; dXi/dp = dRi/N *)
  Definition Xs (Ntot : T) (R : list T) : list T := map (fun r => k_Xi Nm r Ntot) R.
  Definition dXs (Ntot : T) (dR : list T) : list T := map (fun d => k_dXi Nm d Ntot) dR.

  Definition evaluate_value (opa Ntot ns : T) (R : list T) : T :=
    log_lambda opa Ntot ns (Xs Ntot R).
  Definition evaluate_grad_ns (opa Ntot ns : T) (R : list T) : T :=
    grad_ns opa Ntot ns (Xs Ntot R).
  Definition evaluate_grad_p (opa Ntot ns : T) (R dR : list T) : T :=
    grad_p opa ns (combine (Xs Ntot R) (dXs Ntot dR)).
  Definition evaluate_ns_grad2 (opa Ntot ns : T) (R : list T) (n_pure_bkg : T) : T :=
    ns_grad2 opa ns (Xs Ntot R) n_pure_bkg.

  (* ------------------------------------------------------------------ *)
  (* PDF ratios                                                           *)

  (* SigOverBkgPDFRatio.get_ratio, one value entry: s over the (broadcast)
     background value b, or the configured constant where b is not > 0 *)
  Definition sob_ratio (zero_bkg_value s b : T) : T :=
    if k_sob_mask Nm b then k_sob_ratio Nm s b else zero_bkg_value.

  (* values array (one entry per (source,event) pair): S per value, B per
     selected event broadcast through the event index of the pair *)
  Definition sob_ratios (zero_bkg_value : T) (S : list T) (B : list T)
             (evt_idxs : list nat) : list T :=
    map (fun p => sob_ratio zero_bkg_value (fst p) (nth (snd p) B (nzero Nm)))
        (combine S evt_idxs).

  (* gradient cases 2-4 (case 1 is the zero array) *)
  Definition sob_grad_sig (sgrad b : T) : T :=
    if k_sob_mask Nm b then k_sob_grad_sig Nm sgrad b else nzero Nm.
  Definition sob_grad_both (s sgrad b bgrad : T) : T :=
    if k_sob_mask Nm b then k_sob_grad_both Nm sgrad b bgrad s else nzero Nm.
  Definition sob_grad_bkg (s b bgrad : T) : T :=
    if k_sob_mask Nm b then k_sob_grad_bkg Nm s b bgrad else nzero Nm.

  (* PDFRatioProduct *)
  Definition prod_ratio (r1 r2 : T) : T := k_prod_ratio Nm r1 r2.
  Definition prod_grad_both (r1 r2 d1 d2 : T) : T :=
    k_prod_grad_both_b Nm (k_prod_grad_both_a Nm r1 d2) d1 r2.
  Definition prod_grad_r1 (r2 d1 : T) : T := k_prod_grad_r1 Nm d1 r2.
  Definition prod_grad_r2 (r1 d2 : T) : T := k_prod_grad_r2 Nm r1 d2.

  (* SourceWeightedPDFRatio.get_ratio.
     numpy `R_i[evt_idxs[src_mask]] += v` reads the OLD array and, for a
     repeated index inside one statement, the last write wins. *)
  Fixpoint last_for (e : nat) (pairs : list (nat * T)) : option T :=
    match pairs with
    | [] => None
    | (i, v) :: r =>
        match last_for e r with
        | Some w => Some w
        | None => if Nat.eqb i e then Some v else None
        end
    end.

  (* one `+=` statement: pairs = (event index, increment) in array order; the
     combining kernel `upd old incr` is the translated `old + incr` *)
  Definition fancy_add (upd : T -> T -> T) (old : list T) (pairs : list (nat * T)) : list T :=
    map (fun ie => match last_for (fst ie) pairs with
                   | Some v => upd (snd ie) v
                   | None => snd ie
                   end)
        (combine (seq 0 (length old)) old).

  (* values : list of (source index, event index, R_ik) in values-array order *)
  Definition sw_source_step (a_k : list T) (vals : list (nat * nat * T))
             (R_i : list T) (k : nat) : list T :=
    let ak := nth k a_k (nzero Nm) in
    let mine := filter (fun v => Nat.eqb (fst (fst v)) k) vals in
    fancy_add (fun old r => k_sw_term Nm old r ak)
      R_i
      (map (fun v => (snd (fst v), snd v)) mine).

  Definition sw_ratio (a_k : list T) (n_sel : nat) (vals : list (nat * nat * T)) : list T :=
    let A := nsum Nm a_k in
    let R0 := repeat (nzero Nm) n_sel in
    let R1 := fold_left (sw_source_step a_k vals) (seq 0 (length a_k)) R0 in
    map (fun r => k_sw_norm Nm r A) R1.

  (* ------------------------------------------------------------------ *)
  (* weights: a_jk = W_k * Y_jk ; f_j = sum_k a_jk / sum_jk a_jk          *)

  Definition a_row (W : list T) (Yrow : list T) : list T :=
    map (fun p => k_a_jk Nm (fst p) (snd p)) (combine W Yrow).
  Definition a_table (W : list T) (Y : list (list T)) : list (list T) := map (a_row W) Y.

  Definition a_j (a : list (list T)) : list T := map (nsum Nm) a.
  (* np.sum over the whole 2D array *)
  Definition a_tot (a : list (list T)) : T := nsum Nm (concat a).
  Definition f_j (a : list (list T)) : list T :=
    map (fun aj => k_f_j Nm aj (a_tot a)) (a_j a).
  (* quotient rule; da = table of d a_jk / dp *)
  Definition f_j_grad (a da : list (list T)) : list T :=
    map (fun p => k_f_j_grad Nm (snd p) (a_tot a) (fst p) (a_tot da))
        (combine (a_j a) (a_j da)).

  (* ------------------------------------------------------------------ *)
  (* MultiDatasetTCLLHRatio.evaluate                                      *)
  (* ds = per-dataset (N_j, R_j) ; f = dataset weights                    *)

  Definition multi_value (opa ns : T) (f : list T) (ds : list (T * list T)) : T :=
    nsum Nm (map (fun p => evaluate_value opa (fst (snd p)) (k_nsf Nm ns (fst p)) (snd (snd p)))
                 (combine f ds)).

  Definition multi_grad_ns (opa ns : T) (f : list T) (ds : list (T * list T)) : T :=
    fold_left (fun acc p =>
                 k_multi_grad_ns Nm acc
                   (evaluate_grad_ns opa (fst (snd p)) (k_nsf Nm ns (fst p)) (snd (snd p)))
                   (fst p))
              (combine f ds) (nzero Nm).

  (* ds = per-dataset (N_j, R_j, dR_j/dp) ; df = d f_j / dp *)
  Definition multi_grad_p (opa ns : T) (f df : list T)
             (ds : list (T * list T * list T)) : T :=
    fold_left (fun acc p =>
                 let fj := fst (fst p) in
                 let dfj := snd (fst p) in
                 let Nj := fst (fst (snd p)) in
                 let Rj := snd (fst (snd p)) in
                 let dRj := snd (snd p) in
                 let nsj := k_nsf Nm ns fj in
                 let gns := evaluate_grad_ns opa Nj nsj Rj in
                 let gp := evaluate_grad_p opa Nj nsj Rj dRj in
                 k_multi_grad_p Nm acc (k_multi_ns_summand Nm gns ns dfj) gp)
              (combine (combine f df) ds) (nzero Nm).

  Definition multi_ns_grad2 (opa ns : T) (f : list T)
             (ds : list (T * list T * T)) : T :=
    nsum Nm (map (fun p =>
                    let fj := fst p in
                    let Nj := fst (fst (snd p)) in
                    let Rj := snd (fst (snd p)) in
                    let nb := snd (snd p) in
                    k_multi_nsgrad2_term Nm
                      (evaluate_ns_grad2 opa Nj (k_nsf Nm ns fj) Rj nb) fj)
                 (combine f ds)).
End Llh.
