(* C01: which event counts the value is computed from.  The TrialDataManager
   as a small state machine over its two public writers of N
   (initialize_trial, the n_events setter): N = n_events, N' = len(events) =
   n_selected_events, N - N' = n_pure_bkg_events; evaluate reads N = tdm.n_events
   and N' = len(Xi).  Counting expressions are kernels of gen/G_llhtdm.v.
   In initialize_trial the default `n_events = len(self._events)` is taken
   BEFORE the event selection replaces self._events.  Definitions only. *)
From Coq Require Import ZArith List Bool.
From Sky Require Import Num G_llh G_llhtdm M_Llh.
Import ListNotations.
Open Scope Z_scope.

Section Tdm.
  Variable E : Type.                       (* an event *)

  Record tcounts : Type := {
    tc_n_events : option Z;                (* _n_events, None before the first trial *)
    tc_events : list E                     (* _events: the selected events *)
  }.

  Inductive tcop : Type :=
  | TInit (raw : list E) (n_events_arg : option Z) (sel : option (list E -> list E))
  | TSetN (n : Z)
  | TSetEvents (evs : list E).             (* the public `events` setter: replaces _events only *)

  Definition tc_step (st : tcounts) (op : tcop) : tcounts :=
    match op with
    | TInit raw arg sel =>
        (* self.events = events ; if n_events is None: n_events = len(self._events) ;
           self.n_events = n_events ; ... self.events = selected_events *)
        let n := match arg with
                 | Some n => n
                 | None => t_default_n_events (Z.of_nat (length raw))
                 end in
        {| tc_n_events := Some n;
           tc_events := match sel with Some f => f raw | None => raw end |}
    | TSetN n => {| tc_n_events := Some n; tc_events := tc_events st |}
    | TSetEvents evs => {| tc_n_events := tc_n_events st; tc_events := evs |}
    end.

  Definition tc_run (ops : list tcop) (st : tcounts) : tcounts := fold_left tc_step ops st.

  (* the three read-only properties *)
  Definition tc_n_selected (st : tcounts) : Z := t_n_selected (Z.of_nat (length (tc_events st))).
  Definition tc_n_pure_bkg (st : tcounts) : option Z :=
    match tc_n_events st with
    | Some n => Some (t_n_pure_bkg n (Z.of_nat (length (tc_events st))))
    | None => None
    end.

  (* evaluate on the manager: N = tdm.n_events; the ratios are whatever the
     PDF ratio object computes from the CURRENT selected events *)
  Definition tc_evaluate {T : Type} (Nm : Num T) (opa ns : T) (ratio_of : list E -> list T)
             (st : tcounts) : option T :=
    match tc_n_events st with
    | Some n => Some (evaluate_value Nm opa (ofZ Nm (e_N n)) ns (ratio_of (tc_events st)))
    | None => None                          (* N = None: the arithmetic raises TypeError *)
    end.

  (* N as calculate_ns_grad2 reconstructs it *)
  Definition tc_N_grad2 (st : tcounts) : option Z :=
    match tc_n_pure_bkg st with
    | Some nb => Some (g2_Nprime (tc_n_selected st) + nb)
    | None => None
    end.
End Tdm.

Arguments tc_n_events {E} _.
Arguments tc_events {E} _.
Arguments TInit {E} _ _ _.
Arguments TSetN {E} _.
Arguments TSetEvents {E} _.
Arguments tc_step {E} _ _.
Arguments tc_run {E} _ _.
Arguments tc_n_selected {E} _.
Arguments tc_n_pure_bkg {E} _.
Arguments tc_evaluate {E T} _ _ _ _ _.
Arguments tc_N_grad2 {E} _.
