(* Model of the PDFSet registry (skyllh/core/pdf.py PDFSet.add_pdf / get_pdf,
   skyllh/core/py.py make_dict_hash): a dictionary from the hash of the grid
   parameter dictionary {name: grid value} to a PDF, filled once per grid point
   and queried with ROUNDED parameter values.  `h v` stands for Python's
   hash(frozenset({name: v}.items())) -- a function of the float value that
   identifies values comparing equal (an input of the model; two different
   values MAY collide, then add_pdf raises KeyError, as the code does).
   Definitions only. *)
From Coq Require Import ZArith List Bool.
From Sky Require Import Result PyList Num G_grid.
Import ListNotations.
Open Scope Z_scope.

Section PdfSet.
  Context {T : Type} {A : Type}.
  Variable h : T -> Z.

  (* insertion-ordered dict: hash -> pdf *)
  Definition pdfset := list (Z * A).
  Definition ps_keys (tbl : pdfset) : list Z := map fst tbl.

  Fixpoint ps_find (tbl : pdfset) (k : Z) : option A :=
    match tbl with
    | [] => None
    | (k', p) :: r => if k' =? k then Some p else ps_find r k
    end.

  Definition ps_add (tbl : pdfset) (v : T) (pdf : A) : res pdfset :=
    let k := pdfset_add_key (pdfset_hash (h v)) in
    if pdfset_add_exists k (ps_keys tbl) then Err KeyError else Ok (tbl ++ [(k, pdf)]).

  Definition ps_get (tbl : pdfset) (v : T) : res A :=
    let k := pdfset_get_key (pdfset_hash (h v)) in
    if pdfset_get_missing k (ps_keys tbl) then Err KeyError
    else match ps_find tbl k with Some p => Ok p | None => Err KeyError end.

  (* one add_pdf per grid point, in grid order *)
  Fixpoint ps_build (tbl : pdfset) (grid : list T) (pdfs : list A) : res pdfset :=
    match grid, pdfs with
    | [], [] => Ok tbl
    | v :: g, p :: ps => do t <- ps_add tbl v p; ps_build t g ps
    | _, _ => Err ValueError
    end.
End PdfSet.

(* CPython's hash of an integral float / int x with |x| < 2^61 - 1: x itself,
   except hash(-1) = -2 (-1 is the C-level error code).  Used for the witness that
   distinct grid values can collide. *)
Definition cpython_hash_small (x : Z) : Z := if x =? -1 then -2 else x.
