(* A small executable number system with IEEE-style specials (finite rationals,
   +inf, -inf, NaN) used to exhibit, inside Coq and by computation, the path of
   the minimiser model that real numbers cannot express: a Newton step 0/0.
   Only the operations the minimiser model uses carry meaning; every other
   field returns NaN.  Signed zeros are not modelled.  Definitions only. *)
From Coq Require Import QArith Qabs ZArith List Bool.
From Sky Require Import Num.

Inductive xq : Type := XFin (q : Q) | XPInf | XNInf | XNaN.

Definition xq_opp (a : xq) : xq :=
  match a with XFin q => XFin (- q) | XPInf => XNInf | XNInf => XPInf | XNaN => XNaN end.
Definition xq_add (a b : xq) : xq :=
  match a, b with
  | XNaN, _ | _, XNaN => XNaN
  | XFin p, XFin q => XFin (p + q)
  | XPInf, XNInf | XNInf, XPInf => XNaN
  | XPInf, _ | _, XPInf => XPInf
  | XNInf, _ | _, XNInf => XNInf
  end.
Definition xq_sgn (q : Q) : Z := Z.sgn (Qnum q).
Definition xq_mul (a b : xq) : xq :=
  match a, b with
  | XNaN, _ | _, XNaN => XNaN
  | XFin p, XFin q => XFin (p * q)
  | XFin p, XPInf | XPInf, XFin p =>
      match xq_sgn p with Z0 => XNaN | Zpos _ => XPInf | Zneg _ => XNInf end
  | XFin p, XNInf | XNInf, XFin p =>
      match xq_sgn p with Z0 => XNaN | Zpos _ => XNInf | Zneg _ => XPInf end
  | XPInf, XPInf | XNInf, XNInf => XPInf
  | XPInf, XNInf | XNInf, XPInf => XNInf
  end.
Definition xq_div (a b : xq) : xq :=
  match a, b with
  | XNaN, _ | _, XNaN => XNaN
  | XFin p, XFin q =>
      match xq_sgn q with
      | Z0 => match xq_sgn p with Z0 => XNaN | Zpos _ => XPInf | Zneg _ => XNInf end
      | _ => XFin (p / q)
      end
  | XFin _, _ => XFin 0
  | _, XFin q => match xq_sgn q with Zneg _ => xq_opp a | _ => a end
  | _, _ => XNaN
  end.
Definition xq_ltb (a b : xq) : bool :=
  match a, b with
  | XNaN, _ | _, XNaN => false
  | XFin p, XFin q => match p ?= q with Lt => true | _ => false end
  | XNInf, XNInf | XPInf, _ | _, XNInf => false
  | _, _ => true
  end.
Definition xq_eqb (a b : xq) : bool :=
  match a, b with
  | XFin p, XFin q => Qeq_bool p q
  | XPInf, XPInf | XNInf, XNInf => true
  | _, _ => false
  end.
Definition xq_leb (a b : xq) : bool := xq_ltb a b || xq_eqb a b.
Definition xq_abs (a : xq) : xq :=
  match a with XFin q => XFin (Qabs q) | XPInf | XNInf => XPInf | XNaN => XNaN end.
Definition xq_isnan (a : xq) : bool := match a with XNaN => true | _ => false end.
Definition xq_u (_ : xq) : xq := XNaN.
Definition xq_b (_ _ : xq) : xq := XNaN.

Definition XNum : Num xq := {|
  nzero := XFin 0; none := XFin 1;
  nadd := xq_add; nsub := fun a b => xq_add a (xq_opp b); nmul := xq_mul; ndiv := xq_div;
  nopp := xq_opp; nltb := xq_ltb; nleb := xq_leb; neqb := xq_eqb;
  nsqrt := xq_u; nexp := xq_u; nln := xq_u; nlog1p := xq_u; nlog10 := xq_u;
  nsin := xq_u; ncos := xq_u; ntan := xq_u; nasin := xq_u; nacos := xq_u; natan := xq_u;
  nabs := xq_abs; nfloor := xq_u; nceil := xq_u; nrint := xq_u; ntrunc := xq_u;
  nerf := xq_u; natan2 := xq_b; npow := xq_b; nfmod := xq_b;
  nmin := xq_b; nmax := xq_b; npi := XNaN; nisnan := xq_isnan |}.

Definition xz (z : Z) : xq := XFin (inject_Z z).
