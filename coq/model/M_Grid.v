(* Model of skyllh/core/parameters.py (ParameterGrid, IrregularParameterGrid)
   and of the 1D grid-manifold interpolation methods of
   skyllh/core/interpolate.py.  Polymorphic in the number system `Num T`:
   theorems are proved at RNum (exact arithmetic) and, where they use nothing
   but the shape of the expressions, for every number system; the same
   definitions are executed on IEEE doubles (extracted OCaml, and the
   SpecFloat instance of model/M_GridSF.v).  All formulas come from the
   regenerated gen/G_grid.v; this file supplies control flow, array plumbing,
   caches and error paths.  Definitions only. *)
From Coq Require Import ZArith List Bool.
From Sky Require Import Result PyList Num G_grid.
Import ListNotations.
Open Scope Z_scope.

Section Model.
  Context {T : Type} (N : Num T).

  (* ------------------------------------------------------------------ *)
  (* ParameterGrid: descriptors _lower_bound, _delta, _decimals          *)
  Record gdesc : Type := { g_lb : T; g_delta : T; g_dec : Z }.

  (* np.around(x, d) = rint(x * 10^d) / 10^d  (d >= 0) -- the reading the
     translator gives to every np.around of the anchored code *)
  Definition around (d : Z) (x : T) : T :=
    let p := ofZ N (Z.pow 10 d) in ndiv N (nrint N (nmul N x p)) p.

  (* _calc_floatD_and_intD; floatD.astype(np.int64) truncates towards zero and
     the int64 is converted back to float64 when it meets a float operand *)
  Definition floatD (g : gdesc) (v : T) : T :=
    pg_floatD_round N (pg_floatD_raw N v (g_lb g) (g_delta g)).
  (* (an int64 has no negative zero: + 0 turns trunc's -0.0 into +0.0 and is
     the identity otherwise) *)
  Definition intD (g : gdesc) (v : T) : T :=
    pg_intD N (nadd N (ntrunc N (floatD g v)) (nzero N)).

  Definition round_nearest (g : gdesc) (v : T) : T :=
    pg_nearest_round N (pg_nearest_gp N (g_lb g) (floatD g v) (intD g v) (g_delta g)) (g_dec g).
  Definition round_lower (g : gdesc) (v : T) : T :=
    pg_lower_round N (pg_lower_gp N (g_lb g) (intD g v) (g_delta g)) (g_dec g).
  Definition round_upper (g : gdesc) (v : T) : T :=
    pg_upper_round N (pg_upper_gp N (g_lb g) (intD g v) (g_delta g)) (g_dec g).

  (* the one expression all three functions and the stored grid share: the
     grid point with (float-valued) index k *)
  Definition Gp (g : gdesc) (k : T) : T :=
    around (g_dec g) (nadd N (g_lb g) (nmul N k (g_delta g))).
  (* the index each function computes *)
  Definition k_lower (g : gdesc) (v : T) : T := intD g v.
  Definition k_upper (g : gdesc) (v : T) : T := nadd N (intD g v) (ofZ N 1).
  Definition k_nearest (g : gdesc) (v : T) : T :=
    nadd N (around 0 (nfmod N (floatD g v) (ofZ N 1))) (intD g v).

  Record pgrid : Type := { pg_desc : gdesc; pg_grid : list T }.

  (* ParameterGrid.__init__(name, grid=arr, delta=delta0, decimals=dec).
     `dec` is an input: when the caller passes None it is computed by Python
     string formatting (get_number_of_float_decimals), outside this model;
     likewise delta0 = np.mean(np.diff(arr)) when the caller passes None. *)
  Definition pg_make (delta0 : T) (dec : Z) (arr : list T) : res pgrid :=
    if 16 <? dec then Err ValueError else
    do g0 <- py_get arr pg_lb_index;
    let g := {| g_lb := pg_lb_round N g0 dec;
                g_delta := pg_delta_round N delta0 dec;
                g_dec := dec |} in
    Ok {| pg_desc := g; pg_grid := map (fun v => pg_grid_set N (round_nearest g v)) arr |}.

  (* delta=None: delta = np.mean(np.diff(grid)), read left to right (numpy sums
     pairwise: on doubles the last bits may differ -- the float correspondence
     therefore passes numpy's own mean as delta0 to pg_make; this definition is
     the exact-arithmetic reading) *)
  Fixpoint diffs (l : list T) : list T :=
    match l with
    | x :: ((y :: _) as r) => nsub N y x :: diffs r
    | _ => []
    end.
  Definition mean_diff (arr : list T) : T :=
    pg_delta_auto N (ndiv N (nsum N (diffs arr)) (ofZ N (zlen (diffs arr)))).
  Definition pg_make_auto (dec : Z) (arr : list T) : res pgrid :=
    pg_make (mean_diff arr) dec arr.

  (* add_extra_lower_and_upper_bin: _lower_bound is assigned directly (not
     through the rounding setter), the grid through the rounding setter.  An
     empty grid would read uninitialised memory: Err. *)
  Definition pg_extend (p : pgrid) : res pgrid :=
    let g := pg_desc p in
    match pg_grid p with
    | [] => Err IndexError
    | first :: _ =>
      let lst := last (pg_grid p) first in
      let lo := pg_extra_lo N first (g_delta g) in
      let hi := pg_extra_hi N lst (g_delta g) in
      let newgrid := lo :: pg_grid p ++ [hi] in
      let g' := {| g_lb := pg_extra_lb N lo; g_delta := g_delta g; g_dec := g_dec g |} in
      Ok {| pg_desc := g'; pg_grid := map (fun v => pg_grid_set N (round_nearest g' v)) newgrid |}
    end.

  (* ------------------------------------------------------------------ *)
  (* IrregularParameterGrid: np.searchsorted on a sorted array is the number
     of entries < v (side='left') or <= v (side='right') *)
  Fixpoint ss_left (a : list T) (v : T) : Z :=
    match a with
    | [] => 0
    | b :: r => (if nltb N b v then 1 else 0) + ss_left r v
    end.
  Fixpoint ss_right (a : list T) (v : T) : Z :=
    match a with
    | [] => 0
    | b :: r => (if nleb N b v then 1 else 0) + ss_right r v
    end.

  (* (grid[1:] + grid[:-1]) / 2 *)
  Fixpoint middles (a : list T) : list T :=
    match a with
    | x :: ((y :: _) as r) => ig_middle N y x :: middles r
    | _ => []
    end.

  Definition irr_nearest (grid : list T) (v : T) : res T :=
    let idx := ig_nearest_idx (ss_left (middles grid) v) in
    do x <- py_get grid (ig_nearest_gp_idx0 N idx); Ok (ig_nearest_gp N idx x).
  Definition irr_lower (grid : list T) (v : T) : res T :=
    let idx := ig_lower_idx (ss_right grid v) in
    do x <- py_get grid (ig_lower_gp_idx0 N idx); Ok (ig_lower_gp N idx x).
  Definition irr_upper (grid : list T) (v : T) : res T :=
    let idx := ig_upper_idx (ss_right grid v) in
    do x <- py_get grid (ig_upper_gp_idx0 N idx); Ok (ig_upper_gp N idx x).

  (* add_extra_lower_and_upper_bin of the irregular grid (needs >= 2 points;
     fewer would read uninitialised memory: Err) *)
  Definition irr_extend (grid : list T) : res (list T) :=
    match grid, rev grid with
    | g0 :: g1 :: _, gl :: gl1 :: _ =>
        Ok (ig_extra_lo N g0 g1 :: grid ++ [ig_extra_hi N gl gl1])
    | _, _ => Err IndexError
    end.

  (* ------------------------------------------------------------------ *)
  (* interpolation, one entry of the values array.  F x is the manifold value
     of this entry (one source, one event) at the grid value x. *)
  Definition lin_params (g : gdesc) (F : T -> T) (x : T) : T * T * T :=
    let x0 := lin_x0 N (round_lower g x) in
    let x1 := lin_x1 N (round_upper g x) in
    let M0 := F x0 in
    let M1 := F x1 in
    let m := lin_m N M1 M0 x1 x0 in
    let b := lin_b N M0 m x0 in
    (x0, m, b).
  Definition lin_value1 (g : gdesc) (F : T -> T) (x : T) : T :=
    let '(_, m, b) := lin_params g F x in lin_value N m x b.
  Definition lin_grad1 (g : gdesc) (F : T -> T) (x : T) : T :=
    let '(_, m, _) := lin_params g F x in lin_grad N m.

  (* (x1, M1, a, b) *)
  Definition par_params (g : gdesc) (F : T -> T) (x : T) : T * T * T * T :=
    let x1 := par_x1 N (round_nearest g x) in
    let dx := par_dx N (g_delta g) in
    let x0 := par_x0 N (round_nearest g (par_x0_arg N x1 dx)) in
    let x2 := par_x2 N (round_nearest g (par_x2_arg N x1 dx)) in
    let M0 := F x0 in
    let M1 := F x1 in
    let M2 := F x2 in
    (x1, M1, par_a N M0 M1 M2 dx, par_b N M2 M0 dx).
  Definition par_value1 (g : gdesc) (F : T -> T) (x : T) : T :=
    let '(x1, M1, a, b) := par_params g F x in par_value N a (par_xm N x x1) b M1.
  Definition par_grad1 (g : gdesc) (F : T -> T) (x : T) : T :=
    let '(x1, M1, a, b) := par_params g F x in par_grad_ret N (par_grad N a (par_xm N x x1) b).

  (* ------------------------------------------------------------------ *)
  (* the whole call: per-source parameter values xs (length 1 = one value
     shared by all sources, else one per source), values array laid out by
     idxs = [(source, event)], manifold function Fm id x src evt (id = the
     trial data state id: the manifold depends on the trial data), cache. *)
  Definition bcast (xs : list T) (s : nat) : res T :=
    match xs with
    | [x] => Ok x
    | _ => match nth_error xs s with Some x => Ok x | None => Err ValueError end
    end.

  (* np.all(np.equal(a, b)) with numpy broadcasting of (n,) against (1,) *)
  Fixpoint all_eq (a b : list T) : bool :=
    match a, b with
    | [], [] => true
    | x :: a', y :: b' => neqb N x y && all_eq a' b'
    | _, _ => false
    end.
  Definition np_all_equal (a b : list T) : res bool :=
    match a, b with
    | [x], _ => Ok (forallb (fun y => neqb N x y) b)
    | _, [y] => Ok (forallb (fun x => neqb N x y) a)
    | _, _ => if Nat.eqb (length a) (length b) then Ok (all_eq a b) else Err ValueError
    end.

  Definition manifold := Z -> T -> nat -> nat -> T.

  (* Linear1D cache: (trial_data_state_id, x0 per source, m per value, b per value) *)
  Definition lin_cache := option (Z * list T * list T * list T).

  Definition lin_entry (g : gdesc) (Fm : manifold) (id : Z) (xs x0s x1s : list T) (se : nat * nat)
    : res (T * T * T) :=          (* (value, m, b) *)
    let '(s, e) := se in
    do x <- bcast xs s; do x0 <- bcast x0s s; do x1 <- bcast x1s s;
    let M0 := Fm id x0 s e in
    let M1 := Fm id x1 s e in
    let m := lin_m N M1 M0 x1 x0 in
    let b := lin_b N M0 m x0 in
    Ok (lin_value N m x b, m, b).

  Fixpoint lin_cached_values (xs : list T) (idxs : list (nat * nat)) (ms bs : list T) : res (list T) :=
    match idxs, ms, bs with
    | [], [], [] => Ok []
    | (s, _) :: r, m :: ms', b :: bs' =>
        do x <- bcast xs s; do vs <- lin_cached_values xs r ms' bs'; Ok (lin_value_cached N m x b :: vs)
    | _, _, _ => Err ValueError
    end.

  Definition lin_call (g : gdesc) (Fm : manifold) (idxs : list (nat * nat))
             (st : lin_cache) (id : Z) (xs : list T)
    : res (list T * list T * lin_cache) :=       (* (values, grads, cache') *)
    let x0s := map (fun x => lin_x0 N (round_lower g x)) xs in
    (* _is_cached: `and` short-circuits, so the arrays are compared only when
       the state ids agree; the empty cache has state id None *)
    do hit <- match st with
              | Some (cid, cx0s, _, _) =>
                  if lin_is_cached (Some cid) id true
                  then do ae <- np_all_equal cx0s x0s; Ok (lin_is_cached (Some cid) id ae)
                  else Ok false
              | None => Ok (lin_is_cached None id true)
              end;
    match hit, st with
    | true, Some (_, _, ms, bs) =>
        do vs <- lin_cached_values xs idxs ms bs;
        Ok (vs, map (lin_grad_cached N) ms, st)
    | _, _ =>
        let x1s := map (fun x => lin_x1 N (round_upper g x)) xs in
        do r <- mapM (lin_entry g Fm id xs x0s x1s) idxs;
        let ms := map (fun t => snd (fst t)) r in
        let bs := map (fun t => snd t) r in
        Ok (map (fun t => fst (fst t)) r, map (lin_grad N) ms, Some (id, x0s, ms, bs))
    end.

  (* Parabola1D cache: (id, x1 per source, M1, a, b per value) *)
  Definition par_cache := option (Z * list T * list T * list T * list T).

  Definition par_entry_params (g : gdesc) (Fm : manifold) (id : Z) (x1s x0s x2s : list T) (se : nat * nat)
    : res (T * T * T) :=          (* (M1, a, b) *)
    let '(s, e) := se in
    do x1 <- bcast x1s s; do x0 <- bcast x0s s; do x2 <- bcast x2s s;
    let dx := par_dx N (g_delta g) in
    let M0 := Fm id x0 s e in
    let M1 := Fm id x1 s e in
    let M2 := Fm id x2 s e in
    Ok (M1, par_a N M0 M1 M2 dx, par_b N M2 M0 dx).

  Fixpoint par_values (xs x1s : list T) (idxs : list (nat * nat)) (prm : list (T * T * T))
    : res (list (T * T)) :=       (* (value, grad) *)
    match idxs, prm with
    | [], [] => Ok []
    | (s, _) :: r, (M1, a, b) :: prm' =>
        do x <- bcast xs s; do x1 <- bcast x1s s;
        (* (x - x1) is formed per source and then broadcast *)
        let xm := par_xm N x x1 in
        do vs <- par_values xs x1s r prm';
        Ok ((par_value N a xm b M1, par_grad_ret N (par_grad N a xm b)) :: vs)
    | _, _ => Err ValueError
    end.

  Definition par_call (g : gdesc) (Fm : manifold) (idxs : list (nat * nat))
             (st : par_cache) (id : Z) (xs : list T)
    : res (list T * list T * par_cache) :=
    let x1s := map (fun x => par_x1 N (round_nearest g x)) xs in
    do hit <- match st with
              | Some (cid, cx1s, _, _, _) =>
                  if par_is_cached_id (Some cid) id
                  then do ae <- np_all_equal cx1s x1s; Ok (negb (par_is_cached_differs (negb ae)))
                  else Ok false
              | None => Ok (par_is_cached_id None id)
              end;
    do pst <- match hit, st with
              | true, Some (_, _, M1s, as_, bs) =>
                  Ok (combine (combine M1s as_) bs, st)
              | _, _ =>
                  let dx := par_dx N (g_delta g) in
                  let x0s := map (fun x1 => par_x0 N (round_nearest g (par_x0_arg N x1 dx))) x1s in
                  let x2s := map (fun x1 => par_x2 N (round_nearest g (par_x2_arg N x1 dx))) x1s in
                  do prm <- mapM (par_entry_params g Fm id x1s x0s x2s) idxs;
                  Ok (prm, Some (id, x1s, map (fun t => fst (fst t)) prm,
                                 map (fun t => snd (fst t)) prm, map (fun t => snd t) prm))
              end;
    let '(prm, st') := pst in
    (* x - x1 of arrays of different length (1 vs n_sources) broadcasts; equal
       lengths always here because x1s = map _ xs *)
    do vg <- par_values xs x1s idxs prm;
    Ok (map fst vg, map snd vg, st').

  (* a history of calls on ONE interpolation object.  The layout of the values
     array is a function of the trial data state id; a call that raises leaves
     the cache as it was (the code assigns the cache after computing). *)
  Fixpoint lin_run (g : gdesc) (Fm : manifold) (layout : Z -> list (nat * nat))
           (st : lin_cache) (calls : list (Z * list T)) : list (res (list T * list T)) :=
    match calls with
    | [] => []
    | (id, xs) :: r =>
        match lin_call g Fm (layout id) st id xs with
        | Ok (v, gr, st') => Ok (v, gr) :: lin_run g Fm layout st' r
        | Err e => Err e :: lin_run g Fm layout st r
        end
    end.
  Fixpoint par_run (g : gdesc) (Fm : manifold) (layout : Z -> list (nat * nat))
           (st : par_cache) (calls : list (Z * list T)) : list (res (list T * list T)) :=
    match calls with
    | [] => []
    | (id, xs) :: r =>
        match par_call g Fm (layout id) st id xs with
        | Ok (v, gr, st') => Ok (v, gr) :: par_run g Fm layout st' r
        | Err e => Err e :: par_run g Fm layout st r
        end
    end.

  (* the computable float predicate of the property: every stored grid point
     is a fixed point of "lower" and "nearest", and "upper" is the next one *)
  Fixpoint list_eqb (a b : list T) : bool :=
    match a, b with
    | [], [] => true
    | x :: a', y :: b' => neqb N x y && list_eqb a' b'
    | _, _ => false
    end.
  Definition self_consistent (p : pgrid) : bool :=
    let g := pg_desc p in
    let gr := pg_grid p in
    list_eqb (map (round_lower g) gr) gr
    && list_eqb (map (round_nearest g) gr) gr
    && list_eqb (map (round_upper g) (removelast gr)) (tl gr).
End Model.
