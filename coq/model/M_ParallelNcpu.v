(* Model of skyllh/core/multiproc.py get_ncpu(cfg, local_ncpu): the number of
   processes handed to parallelize by IsParallelizable.ncpu / Analysis.do_trials.
   Definitions only. *)
From Coq Require Import ZArith List Bool.
From Sky Require Import Result G_parallel M_Parallel.
Import ListNotations.
Open Scope Z_scope.

(* a setting: None, an int, or anything else (float, str, ...) *)
Inductive nval : Type := VNone | VInt (z : Z) | VBad.

Definition as_opt (v : nval) : option Z :=
  match v with VNone => None | VInt z => Some z | VBad => Some 0 end.

(* cfg = cfg['multiproc']['ncpu'], local = local_ncpu *)
Definition get_ncpu (cfg local : nval) : res Z :=
  let v1 := if ncpu_local_missing (as_opt local) then cfg else local in
  let v2 := if ncpu_cfg_missing (as_opt v1) then VInt ncpu_default else v1 in
  match v2 with
  | VInt z => if ncpu_too_small z then Err ValueError else Ok z
  | _ => Err TypeError                      (* not isinstance(ncpu, int) *)
  end.
