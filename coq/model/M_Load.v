(* Model of data loading in skyllh: skyllh/core/storage.py (NPYFileLoader both
   efficiency modes, TextFileLoader, ParquetFileLoader, PKLFileLoader glue,
   DataFieldRecordArray.__init__/append/rename_fields/tidy_up),
   skyllh/core/datafields.py (stage bits, get_joint_names) and
   skyllh/core/dataset.py (Dataset.load_data, load_and_prepare_data,
   assert_data_format).

   A file on disk is an oracle: a schema (ordered field names with dtypes) and a
   list of rows.  Field names and dtypes are integers; cell values are integers
   (the correspondence uses integer-valued data that every dtype involved holds
   exactly, so a dtype conversion changes the dtype tag only).  Formulas (block
   size, loop bounds, index expressions, field filters, stage masks) come from
   the regenerated gen/G_load.v.  Definitions only. *)
From Coq Require Import ZArith List Bool.
From Sky Require Import Result PyList G_load.
Import ListNotations.
Open Scope Z_scope.

Definition name := Z.
Definition dtype := Z.          (* 0 int32, 1 int64, 2 float32, 3 float64 *)

(* ------------------------------------------------------------------ dicts *)
(* `x in list` exactly as the translator writes it *)
Definition zmem (x : Z) (l : list Z) : bool := List.existsb (Z.eqb x) l.

(* Python dict (insertion ordered, unique keys) as association list *)
Fixpoint alookup {V} (k : Z) (d : list (Z * V)) : option V :=
  match d with
  | [] => None
  | (k', v) :: r => if k =? k' then Some v else alookup k r
  end.

Fixpoint aremove {V} (k : Z) (d : list (Z * V)) : list (Z * V) :=
  match d with
  | [] => []
  | (k', v) :: r => if k =? k' then aremove k r else (k', v) :: aremove k r
  end.

(* d[k] = v : in place when the key exists, appended otherwise *)
Fixpoint aset {V} (k : Z) (v : V) (d : list (Z * V)) : list (Z * V) :=
  match d with
  | [] => [(k, v)]
  | (k', v') :: r => if k =? k' then (k, v) :: r else (k', v') :: aset k v r
  end.

Definition keys {V} (d : list (Z * V)) : list Z := map fst d.

(* {**a, **b} *)
Definition dict_merge {V} (a b : list (Z * V)) : list (Z * V) :=
  fold_left (fun acc kv => aset (fst kv) (snd kv) acc) b a.

(* dict(pairs) / {k: v for ...}: later pairs overwrite earlier ones *)
Definition dict_of {V} (l : list (Z * V)) : list (Z * V) :=
  fold_left (fun acc kv => aset (fst kv) (snd kv) acc) l [].

(* list(set(l)): only membership is used by the npy/csv/parquet loaders; the
   model keeps the first occurrences in order *)
Fixpoint dedup (l : list Z) : list Z :=
  match l with
  | [] => []
  | x :: r => x :: filter (fun y => negb (y =? x)) (dedup r)
  end.

(* ------------------------------------------------------------------ tables *)
Definition col := (name * (dtype * list Z))%type.
Definition table := list col.          (* DataFieldRecordArray: ordered dict of columns *)

Definition tnames (t : table) : list name := keys t.
(* len(dfra): length of the first column, 0 without columns *)
Definition tlen (t : table) : Z :=
  match t with [] => 0 | (_, (_, v)) :: _ => zlen v end.

Record file := mkFile { f_schema : list (name * dtype); f_rows : list (list Z) }.

Record lopts := mkOpts {
  o_keep : option (list name);      (* keep_fields *)
  o_conv : list (dtype * dtype);    (* dtype_conversions *)
  o_exc  : list name }.             (* dtype_conversion_except_fields *)

Definition keep_given (o : lopts) : bool :=
  match o_keep o with Some _ => true | None => false end.
Definition keep_list (o : lopts) : list name :=
  match o_keep o with Some l => l | None => [] end.

(* the dtype a field is stored with; `conv` is the regenerated test
   `fname not in except and dt in conversions` (mem_conv / dfra_conv) *)
Definition conv_dtype (conv : name -> list name -> dtype -> list dtype -> bool)
           (o : lopts) (fname : name) (dt : dtype) : dtype :=
  if conv fname (o_exc o) dt (keys (o_conv o))
  then match alookup dt (o_conv o) with Some d => d | None => dt end
  else dt.

(* one column of a structured array: data[name] *)
Definition column (rows : list (list Z)) (i : Z) : res (list Z) :=
  mapM (fun r => py_get r i) rows.

(* ---------------------------------------------- DataFieldRecordArray.__init__
   on a structured ndarray (NDArrayDataTableAccessor), copy or not: for every
   field of the array in order, skip / convert / take the column *)
Fixpoint dfra_init_from (sch : list (name * dtype)) (i : Z) (rows : list (list Z))
         (o : lopts) : res table :=
  match sch with
  | [] => Ok []
  | (fname, dt) :: rest =>
      if dfra_skip (keep_given o) fname (keep_list o)
      then dfra_init_from rest (i + 1) rows o
      else do c <- column rows i;
           do t <- dfra_init_from rest (i + 1) rows o;
           Ok ((fname, (conv_dtype dfra_conv o fname dt, c)) :: t)
  end.

Definition dfra_init (f : file) (o : lopts) : res table :=
  dfra_init_from (f_schema f) 0 (f_rows f) o.

(* _load_file_time_efficiently: one np.load, then the constructor.  The second
   component counts the np.load calls. *)
Definition load_file_time (f : file) (o : lopts) : res (table * Z) :=
  do t <- dfra_init f o; Ok (t, 1).

(* ------------------------------------------- _load_file_memory_efficiently *)
(* np.empty: cells are uninitialised (None) until the row loop writes them *)
Definition mcol := (name * (dtype * list (option Z)))%type.

Fixpoint mem_alloc (sch : list (name * dtype)) (n_rows : Z) (o : lopts) : list mcol :=
  match sch with
  | [] => []
  | (fname, dt) :: rest =>
      if mem_skip (keep_given o) fname (keep_list o)
      then mem_alloc rest n_rows o
      else (fname, (conv_dtype mem_conv o fname dt, repeat None (Z.to_nat n_rows)))
             :: mem_alloc rest n_rows o
  end.

(* fname_to_fidx = dict(enumerate(field_names)) and its lookup *)
Fixpoint enum_from {A} (i : Z) (l : list A) : list (Z * A) :=
  match l with [] => [] | a :: r => (i, a) :: enum_from (i + 1) r end.
Definition fname_to_fidx (sch : list (name * dtype)) : list (name * Z) :=
  dict_of (map (fun p => (fst (snd p), fst p)) (enum_from 0 sch)).
Definition dict_get {V} (d : list (Z * V)) (k : Z) : res V :=
  match alookup k d with Some v => Ok v | None => Err KeyError end.

(* for fname in data.keys(): fidx = fname_to_fidx[fname]; data[fname][ridx] = row[fidx] *)
Fixpoint mem_store_row (f2i : list (name * Z)) (row : list Z) (ridx : Z)
         (data : list mcol) : res (list mcol) :=
  match data with
  | [] => Ok []
  | (fname, (dt, cells)) :: rest =>
      do fi <- dict_get f2i (mem_fidx_idx0 fname);
      let fidx := mem_fidx fname fi in
      do v <- py_get row (mem_store_val_idx0 fidx);
      do cells' <- py_set cells (mem_store_at ridx) (Some (mem_store_val fidx v));
      do rest' <- mem_store_row f2i row ridx rest;
      Ok ((fname, (dt, cells')) :: rest')
  end.

(* the row loop `for ridx in range(lo, hi)`: `fuel` iterations from `ridx`.
   `handle` is the currently open memory map, `disk k` what the k-th np.load of
   the file returns (the content on disk may differ between opens), `opens` the
   number of np.load calls so far: a re-open makes the (opens+1)-th load current. *)
Fixpoint mem_loop (fuel : nat) (ridx bs : Z) (disk : Z -> list (list Z)) (handle : list (list Z))
         (f2i : list (name * Z)) (data : list mcol) (opens : Z)
  : res (list mcol * Z) :=
  match fuel with
  | O => Ok (data, opens)
  | S fuel' =>
      do row <- py_get handle (mem_row_idx0 ridx);
      do data' <- mem_store_row f2i row ridx data;
      if bs =? 0 then Err ZeroDivision else
      if mem_reopen ridx bs
      then mem_loop fuel' (ridx + 1) bs disk (disk (opens + 1)) f2i data' (opens + 1)
      else mem_loop fuel' (ridx + 1) bs disk handle f2i data' opens
  end.

(* DataFieldRecordArray(data, copy=False): the arrays are taken as they are.  A
   cell that was never written would be returned uninitialised; the model makes
   that an error (AssertionError) and the theorems show it cannot happen. *)
Fixpoint freeze_cells (l : list (option Z)) : res (list Z) :=
  match l with
  | [] => Ok []
  | Some v :: r => do r' <- freeze_cells r; Ok (v :: r')
  | None :: _ => Err AssertionError
  end.
Fixpoint freeze (data : list mcol) : res table :=
  match data with
  | [] => Ok []
  | (fname, (dt, cells)) :: rest =>
      do c <- freeze_cells cells; do t <- freeze rest; Ok ((fname, (dt, c)) :: t)
  end.

(* the loader on a file whose content at the k-th open is `ver k` (schema fixed) *)
Definition load_file_mem_ver (bs : Z) (sch : list (name * dtype)) (ver : Z -> list (list Z))
           (o : lopts) : res (table * Z) :=
  let n_rows := zlen (ver 1) in
  let data := mem_alloc sch n_rows o in
  let lo := mem_range_lo in
  let hi := mem_range_hi n_rows in
  do r <- mem_loop (Z.to_nat (hi - lo)) lo bs ver (ver 1) (fname_to_fidx sch) data 1;
  do t <- freeze (fst r);
  Ok (t, snd r).

(* a file that does not change while it is loaded *)
Definition load_file_mem_bs (bs : Z) (f : file) (o : lopts) : res (table * Z) :=
  load_file_mem_ver bs (f_schema f) (fun _ => f_rows f) o.

Definition load_file_mem (f : file) (o : lopts) : res (table * Z) :=
  load_file_mem_bs mem_bs f o.

(* ------------------------------------------------ DataFieldRecordArray.append *)
(* numpy result type of np.append on the four modelled dtypes *)
Definition promote (a b : dtype) : dtype :=
  if a =? b then a
  else if (a <=? 1) && (b <=? 1) then 1 else 3.

Fixpoint append_cols (t : table) (a : table) : res table :=
  match t with
  | [] => Ok []
  | (fname, (dt, v)) :: rest =>
      match alookup fname a with
      | Some (dt', v') =>
          do rest' <- append_cols rest a;
          Ok ((fname, (promote dt dt', v ++ v')) :: rest')
      | None => Err KeyError
      end
  end.

Definition append (t a : table) : res table :=
  if existsb (fun fname => app_missing fname (tnames a)) (tnames t)
  then Err KeyError
  else append_cols t a.

(* --------------------------------------------------------- file loaders *)
Inductive effmode := MNone | MTime | MMemory | MBad.

(* a path names an existing file (Some) or not (None: assert_file_exists raises) *)
Definition open_file (p : option file) : res file :=
  match p with Some f => Ok f | None => Err RuntimeError end.

(* first file, then `for i in range(lo, hi)`: append the i-th *)
Definition load_all (load_one : option file -> res (table * Z))
           (files : list (option file)) (lo hi : Z) : res (table * Z) :=
  do p0 <- py_get files 0;
  do r0 <- load_one p0;
  fold_left (fun acc i =>
               do a <- acc;
               do p <- py_get files i;
               do r <- load_one p;
               do t <- append (fst a) (fst r);
               Ok (t, snd a + snd r))
            (map (fun k => lo + Z.of_nat k) (seq 0 (Z.to_nat (hi - lo))))
            (Ok r0).

(* `if efficiency_mode is None: efficiency_mode = 'time'` (regenerated: is the default the time mode?) *)
Definition resolve_mode (mode : effmode) : effmode :=
  match mode with
  | MNone => if mode_default_time then MTime else MMemory
  | m => m
  end.

Definition npy_load (mode : effmode) (files : list (option file)) (o : lopts)
  : res (table * Z) :=
  match resolve_mode mode with
  | MBad => Err ValueError
  | _ =>
      let one := fun p => do f <- open_file p;
                          match resolve_mode mode with
                          | MMemory => load_file_mem f o
                          | _ => load_file_time f o
                          end in
      load_all one files npy_rest_lo (npy_rest_hi (zlen files))
  end.

(* TextFileLoader._load_file: every column float64 (3); with keep_fields only the
   named columns are parsed; no column selected is a ValueError *)
Definition txt_load_file (p : option file) (o : lopts) : res (table * Z) :=
  do f <- open_file p;
  let idx := enum_from 0 (f_schema f) in
  let used := if keep_given o
              then filter (fun ic => txt_use (fst (snd ic)) (keep_list o)) idx
              else idx in
  if txt_none (zlen used) then Err ValueError else
  do cols <- mapM (fun ic => do c <- column (f_rows f) (fst ic); Ok (fst (snd ic), (3, c))) used;
  (* DataFieldRecordArray(data_ndarray, keep_fields, conversions, copy=False) on
     the loaded structured array *)
  do t <- mapM (fun c : col =>
                  Ok (fst c, (conv_dtype dfra_conv o (fst c) (fst (snd c)), snd (snd c))))
               (filter (fun c : col => negb (dfra_skip (keep_given o) (fst c) (keep_list o))) cols);
  Ok (t, 1).

Definition txt_load (files : list (option file)) (o : lopts) : res (table * Z) :=
  load_all (fun p => txt_load_file p o) files txt_rest_lo (txt_rest_hi (zlen files)).

(* ParquetFileLoader.load_data: per file the columns present in the file and
   named in keep_fields, in file order; pyarrow.concat_tables needs equal schemas
   (ArrowInvalid is a ValueError); then the constructor.  Value-wise a parquet
   table is read as the table it holds. *)
Definition pq_read (p : option file) (o : lopts) : res file :=
  do f <- open_file p;
  if keep_given o
  then
    let used := filter (fun ic => pq_use (fst (snd ic)) (keep_list o)) (enum_from 0 (f_schema f)) in
    do rows <- mapM (fun r => mapM (fun ic => py_get r (fst ic)) used) (f_rows f);
    Ok (mkFile (map snd used) rows)
  else Ok f.

Definition schema_eqb (a b : list (name * dtype)) : bool :=
  (zlen a =? zlen b) &&
  forallb (fun pq => (fst (fst pq) =? fst (snd pq)) && (snd (fst pq) =? snd (snd pq))) (combine a b).

Fixpoint pq_concat (acc : file) (rest : list (option file)) (o : lopts) : res file :=
  match rest with
  | [] => Ok acc
  | p :: rest' =>
      do f <- pq_read p o;
      if schema_eqb (f_schema acc) (f_schema f)
      then pq_concat (mkFile (f_schema acc) (f_rows acc ++ f_rows f)) rest' o
      else Err ValueError
  end.

Definition pq_load (files : list (option file)) (o : lopts) : res table :=
  do p0 <- py_get files 0;
  do f0 <- pq_read p0 o;
  do f <- pq_concat f0 (tl files) o;
  dfra_init f o.

(* PKLFileLoader.load_data: the unpickled objects as they are; one object for one
   file, a list of objects otherwise; all keyword arguments are ignored *)
Inductive pkl_result := PklOne (f : file) | PklMany (l : list file).
Definition pkl_load (files : list (option file)) : res pkl_result :=
  do l <- mapM open_file files;
  match l with [f] => Ok (PklOne f) | _ => Ok (PklMany l) end.

(* ------------------------------------------------------- rename / tidy_up *)
(* rename_fields(conversions, must_exist=False): first every to-be-renamed field
   (old name in self.field_name_list) is popped, in the order of the dictionary,
   then each is inserted under its new name; the name list is refreshed last *)
Fixpoint rename_pop (stale : list name) (t : table) (conv : list (name * name))
  : res (table * list col) :=
  match conv with
  | [] => Ok (t, [])
  | (old, new) :: rest =>
      if ren_present old stale
      then match alookup old t with
           | Some c => do r <- rename_pop stale (aremove old t) rest;
                       Ok (fst r, (new, c) :: snd r)
           | None => Err KeyError
           end
      else rename_pop stale t rest
  end.

Definition rename_fields (t : table) (conv : list (name * name)) : res table :=
  do r <- rename_pop (tnames t) t conv;
  Ok (fold_left (fun acc nc => aset (fst nc) (snd nc) acc) (snd r) (fst r)).

Definition tidy_up (t : table) (keep : list name) : table :=
  filter (fun c : col => negb (tidy_remove (fst c) keep)) t.

(* ------------------------------------------------------------ datafields *)
Definition stage_table := list (name * Z).

Definition get_joint_names (df : stage_table) (stages : Z) : list name :=
  keys (filter (fun fs => joint_sel (st_or_check (snd fs) stages)) df).

(* _conv_new2orig_field_names *)
Definition conv_new2orig (names : list name) (orig2new : list (name * name)) : list name :=
  let new2orig := dict_of (map (fun kv => (snd kv, fst kv)) orig2new) in
  map (fun n => match alookup n new2orig with Some o => o | None => n end) names.

(* ---------------------------------------------------------------- Dataset *)
Inductive fmt := FNpy | FCsv | FParquet.

Record dataset := mkDs {
  d_cfg_fields : stage_table;          (* cfg['datafields'] *)
  d_ds_fields  : stage_table;          (* Dataset.datafields *)
  d_fmt        : fmt;
  d_exp_files  : list (option file);
  d_mc_files   : list (option file);
  d_exp_ren    : list (name * name);
  d_mc_ren     : list (name * name);
  d_livetime   : option Z }.

Record dopts := mkDo {
  do_keep : list name;                  (* keep_fields ([] for None) *)
  do_conv : list (dtype * dtype);       (* dtc_dict *)
  do_exc  : option (list name);         (* dtc_except_fields *)
  do_mode : effmode }.

Record dsdata := mkData { dd_exp : option table; dd_mc : option table; dd_livetime : option Z }.

Definition file_load (fm : fmt) (mode : effmode) (files : list (option file)) (o : lopts)
  : res table :=
  match fm with
  | FNpy => do r <- npy_load mode files o; Ok (fst r)
  | FCsv => do r <- txt_load files o; Ok (fst r)
  | FParquet => pq_load files o
  end.

(* which stage table a step uses.  The regenerated `*_merge` kernels give the
   ORDER in which the two tables are merged by `{**a, **b}` (token 1 = the
   configuration's cfg['datafields'], token 2 = Dataset.datafields; a later table
   overrides an earlier one); the regenerated `*_table` kernels are the identity on
   the local variable `datafields` holding that merge (token 0). *)
Definition table_of (ds : dataset) (tok : Z) : stage_table :=
  if tok =? 1 then d_cfg_fields ds else if tok =? 2 then d_ds_fields ds else [].

Definition merge_order (ds : dataset) (order : list Z) : stage_table :=
  match order with
  | [] => []
  | a :: r => fold_left (fun acc tok => dict_merge acc (table_of ds tok)) r (table_of ds a)
  end.

Definition pick_table (ds : dataset) (order : list Z) (token : Z) : stage_table :=
  if token =? 0 then merge_order ds order else d_cfg_fields ds.

Definition exc_orig (o : dopts) (ren : list (name * name)) : list name :=
  match do_exc o with Some l => conv_new2orig l ren | None => [] end.

Definition load_part (ds : dataset) (o : dopts) (files : list (option file))
           (keep : list name) (ren : list (name * name)) : res (option table) :=
  if zlen files >? 0
  then do t <- file_load (d_fmt ds) (do_mode o) files
                         (mkOpts (Some keep) (do_conv o) (exc_orig o ren));
       do t' <- rename_fields t ren;
       Ok (Some t')
  else Ok None.

Definition keep_exp (ds : dataset) (o : dopts) : list name :=
  dedup (conv_new2orig
           (get_joint_names (pick_table ds (ld_merge 1 2) (ld_exp_table 0))
                            (ld_exp_stages st_prep_exp st_ana_exp) ++ do_keep o)
           (d_exp_ren ds)).

Definition keep_mc (ds : dataset) (o : dopts) : list name :=
  dedup (conv_new2orig
           (get_joint_names (pick_table ds (ld_merge 1 2) (ld_mc_table_e 0))
                            (ld_mc_stages_e st_prep_exp st_ana_exp) ++ do_keep o)
           (d_exp_ren ds)
         ++
         conv_new2orig
           (get_joint_names (pick_table ds (ld_merge 1 2) (ld_mc_table_m 0))
                            (ld_mc_stages_m st_prep_exp st_ana_exp st_prep_mc st_ana_mc)
            ++ do_keep o)
           (d_mc_ren ds)).

Definition load_data (ds : dataset) (o : dopts) : res dsdata :=
  do e <- load_part ds o (d_exp_files ds) (keep_exp ds o) (d_exp_ren ds);
  do m <- load_part ds o (d_mc_files ds) (keep_mc ds o) (d_mc_ren ds);
  Ok (mkData e m (d_livetime ds)).

(* assert_data_format *)
Definition missing_keys (present required : list name) : list name :=
  filter (fun k => fmt_missing k present) required.

Definition assert_data_format (ds : dataset) (d : dsdata) : res unit :=
  do _ <- match dd_exp d with
          | Some t =>
              if fmt_exp_bad (zlen (missing_keys (tnames t)
                    (get_joint_names (pick_table ds (fmt_merge 1 2) (fmt_exp_table 0)) (fmt_exp_stages st_ana_exp))))
              then Err KeyError else Ok tt
          | None => Ok tt
          end;
  do _ <- match dd_mc d with
          | Some t =>
              if fmt_mc_bad (zlen (missing_keys (tnames t)
                    (get_joint_names (pick_table ds (fmt_merge 1 2) (fmt_mc_table 0))
                                     (fmt_mc_stages st_ana_exp st_ana_mc))))
              then Err KeyError else Ok tt
          | None => Ok tt
          end;
  match dd_livetime d with None => Err ValueError | Some _ => Ok tt end.

(* load_and_prepare_data; `prep` stands for prepare_data (the user's data
   preparation functions, any function that may fail) *)
Definition load_and_prepare (ds : dataset) (o : dopts) (prep : dsdata -> res dsdata)
  : res dsdata :=
  do d0 <- load_data ds o;
  do d <- prep d0;
  let e := option_map (fun t => tidy_up t
             (get_joint_names (pick_table ds (lap_merge 1 2) (tidy_exp_table 0)) (tidy_exp_stages st_ana_exp)
              ++ do_keep o)) (dd_exp d) in
  let m := option_map (fun t => tidy_up t
             (get_joint_names (pick_table ds (lap_merge 1 2) (tidy_mc_table 0)) (tidy_mc_stages st_ana_exp st_ana_mc)
              ++ do_keep o)) (dd_mc d) in
  let d' := mkData e m (dd_livetime d) in
  do _ <- assert_data_format ds d';
  Ok d'.

(* a small language of data preparation functions for the correspondence *)
Inductive prep_op :=
| PAddExp (new src : name)      (* data.exp.append_field(new, f(data.exp[src])) when new is absent *)
| PAddMc (new src : name)
| PDropExp (n : name)           (* data.exp.remove_field(n) *)
| PRaise.                       (* raises RuntimeError *)

Definition prep_add (t : table) (new src : name) : res table :=
  if zmem new (tnames t) then Ok t
  else match alookup src t with
       | Some (dt, v) => Ok (t ++ [(new, (3, v))])
       | None => Err KeyError
       end.

Definition prep_step (d : dsdata) (op : prep_op) : res dsdata :=
  match op with
  | PAddExp new src =>
      match dd_exp d with
      | Some t => do t' <- prep_add t new src; Ok (mkData (Some t') (dd_mc d) (dd_livetime d))
      | None => Ok d
      end
  | PAddMc new src =>
      match dd_mc d with
      | Some t => do t' <- prep_add t new src; Ok (mkData (dd_exp d) (Some t') (dd_livetime d))
      | None => Ok d
      end
  | PDropExp n =>
      match dd_exp d with
      | Some t => if zmem n (tnames t)
                  then Ok (mkData (Some (aremove n t)) (dd_mc d) (dd_livetime d))
                  else Err KeyError
      | None => Ok d
      end
  | PRaise => Err RuntimeError
  end.

Definition run_prep (ops : list prep_op) (d : dsdata) : res dsdata :=
  fold_left (fun acc op => do d' <- acc; prep_step d' op) ops (Ok d).

(* helper for the correspondence: a synthetic file whose row i is
   [a0 + b0*i; a1 + b1*i; ...] for the coefficient list, n rows *)
Definition synth_file (sch : list (name * dtype)) (coef : list (Z * Z)) (n : Z) : file :=
  mkFile sch (map (fun k => map (fun ab => fst ab + snd ab * Z.of_nat k) coef)
                  (seq 0 (Z.to_nat n))).
