(* Model of skyllh/core/minimizer.py: NR1dNsMinimizerImpl.minimize,
   NRNsScan2dMinimizerImpl.minimize, Minimizer.minimize (the wrapper around any
   MinimizerImpl) and the negation done by LLHRatio.maximize /
   TCLLHRatio.maximize_with_1d_newton_rapson_minimizer.

   Polymorphic in the number system `Num T`: theorems are stated at `RNum`
   (proofs/P_Minimize*.v), the same definitions are executed on IEEE doubles
   through extraction (ocaml/c11) and compared with the real classes.
   Formulas, comparisons and flag values come from the regenerated
   gen/G_minimize.v; this file supplies control flow, loops (structural
   recursion on the code's own bound max_steps / max_repetitions) and the
   error paths.  Definitions only. *)
From Coq Require Import ZArith List Bool.
From Sky Require Import Result Num G_minimize.
Import ListNotations.
Open Scope Z_scope.

(* ------------------------------------------------------------------ results *)
(* (x[0], f, status['warnflag'], status['niter'], status['last_nr_step']) and
   the sequence of points at which `func` was called, in call order *)
Record nrres (T : Type) : Type := mkres {
  r_x : T; r_f : T; r_flag : Z; r_niter : Z; r_step : T; r_trace : list T }.
Arguments mkres {T} _ _ _ _ _ _.
Arguments r_x {T} _. Arguments r_f {T} _. Arguments r_flag {T} _.
Arguments r_niter {T} _. Arguments r_step {T} _. Arguments r_trace {T} _.

Definition tr_cons {T} (a : T) (r : nrres T) : nrres T :=
  mkres (r_x r) (r_f r) (r_flag r) (r_niter r) (r_step r) (a :: r_trace r).

Definition fst3 {A B C} (t : A * B * C) : A := fst (fst t).
Definition snd3 {A B C} (t : A * B * C) : B := snd (fst t).
Definition thd3 {A B C} (t : A * B * C) : C := snd t.

(* ------------------------------------------------------------------ NR 1d *)
Section NR.
  Context {T : Type} (N : Num T).
  (* func(x) with x[0] = ns and all other entries at their initial value:
     (f, fprime, fprimeprime) *)
  Variable obj : T -> T * T * T.
  Variables ns_tol ns_min ns_max : T.

  (* the code after the while loop: x[0] = ns; re-evaluation unless the exit
     was forced at a boundary; warnflag 2 for a NaN value; warnflag 1 when
     niter == max_steps *)
  Definition nr_finish (max_steps niter : Z) (ns step : T) (flag : Z)
             (at_boundary : bool) (fcur : T) : nrres T :=
    let f := if nr_reeval at_boundary then fst3 (obj ns) else fcur in
    (* a function value that is not a number: warnflag 2 *)
    let flag1 := if nr_f_nan N f then nr_flag_fnan else flag in
    let flag' := if nr_maxed niter max_steps then nr_flag_maxed else flag1 in
    mkres ns f flag' niter step (if nr_reeval at_boundary then [ns] else []).

  Definition nr_clip (ns : T) : T :=
    if nr_clip_lo N ns ns_min then ns_min
    else if nr_clip_hi N ns ns_max then ns_max else ns.

  (* the while loop; `fuel` counts the iterations still allowed by max_steps
     (fuel = max_steps - niter): running out of fuel while the code's own
     counter test still holds cannot happen and is an explicit error *)
  Fixpoint nr_loop (fuel : nat) (max_steps niter : Z) (ns step fprime : T)
    : res (nrres T) :=
    if nr_cond_num N ns_tol step fprime && nr_cond_iter niter max_steps then
      match fuel with
      | O => Err OutOfFuel
      | S k =>
        let '(f, f1, f2) := obj ns in
        let st := nr_step N f1 f2 in
        if nr_step_nan N st then
          Ok (tr_cons ns (nr_finish max_steps niter ns st nr_flag_nan false f))
        else if nr_at_bound N ns ns_min ns_max st then
          let flag := if nr_at_lo N ns ns_min then nr_flag_lo
                      else if nr_at_hi N ns ns_max then nr_flag_hi else nr_flag0 in
          Ok (tr_cons ns (nr_finish max_steps niter ns st flag true f))
        else
          do r <- nr_loop k max_steps (nr_niter_inc niter)
                          (nr_clip (nr_ns_next N ns st)) st f1;
          Ok (tr_cons ns r)
      end
    else Ok (nr_finish max_steps niter ns step nr_flag0 false (nzero N)).

  Definition nr1d (max_steps : Z) (init : T) : res (nrres T) :=
    if nr_init_bad N ns_min init then Err ValueError
    else nr_loop (Z.to_nat max_steps) max_steps nr_niter0 init
                 (nr_step0 N ns_tol) (nr_fprime0 N).
End NR.

(* NR1dNsMinimizerImpl.minimize on the parameter vector: only x[0] varies *)
Definition nr1d_vec {T} (N : Num T) (func : list T -> T * T * T)
           (ns_tol : T) (max_steps : Z) (bounds : list (T * T)) (initials : list T)
  : res (list T * nrres T) :=
  match bounds, initials with
  | (ns_min, ns_max) :: _, i0 :: rest =>
      do r <- nr1d N (fun ns => func (ns :: rest)) ns_tol ns_min ns_max max_steps i0;
      Ok (r_x r :: rest, r)
  | _, _ => Err IndexError
  end.

(* ------------------------------------------------------------------ NR + scan *)
Section Scan.
  Context {T : Type} (N : Num T).
  Variable func : list T -> T * T * T.
  Variables (ns_tol : T) (max_steps : Z) (bounds : list (T * T)).

  (* the for loop over p2_scan_values; `best` = (best_xmin, best status/fmin) *)
  Fixpoint scan_loop (p2s : list T) (i0 : T) (rest : list T)
           (best : option (list T * nrres T)) (niter_total : Z)
    : res (option (list T * nrres T) * Z) :=
    match p2s with
    | [] => Ok (best, niter_total)
    | p2 :: more =>
        do xr <- nr1d_vec N func ns_tol max_steps bounds (i0 :: p2 :: rest);
        let '(x, r) := xr in
        let nt := scan_niter niter_total (r_niter r) in
        let best' := match best with
                     | None => Some (x, r)
                     | Some (bx, br) =>
                         (* a NaN best is replaced by any later step *)
                         if scan_best_nan N (r_f br) || scan_better N (r_f r) (r_f br)
                         then Some (x, r) else best
                     end in
        scan_loop more i0 rest best' nt
    end.

  (* p2s = np.linspace(p2_low, p2_high, int((p2_high-p2_low)/p2_scan_step)+1),
     supplied by the caller; initials must have at least two entries *)
  Definition scan2d (p2s : list T) (initials : list T) : res (list T * nrres T) :=
    match initials with
    | i0 :: _ :: rest =>
        do bn <- scan_loop p2s i0 rest None 0;
        match fst bn with
        | None => Err TypeError         (* best_status is None: empty scan *)
        | Some (x, r) =>
            Ok (x, mkres (r_x r) (r_f r) (r_flag r) (snd bn) (r_step r) (r_trace r))
        end
    | _ => Err IndexError
    end.
End Scan.

(* ------------------------------------------------------------------ wrapper *)
Section Wrapper.
  Context {T : Type} (N : Num T) {St : Type}.
  (* the k-th call (k = 0, 1, ...) of minimizer_impl.minimize(initials, bounds,
     func, ...): any implementation; scipy / iminuit are oracles *)
  Variable impl : Z -> list T -> res (list T * T * St).
  Variables conv rep : St -> bool.        (* has_converged, is_repeatable *)
  (* `(fmin, grads) = func(xmin, *args)` of the clipping branch *)
  Variable reeval : list T -> res T.
  Variable bounds : list (T * T).
  (* rss.random.uniform(size=n) of the k-th repetition *)
  Variable uniform : Z -> list T.
  Variable max_reps : Z.

  Fixpoint random_initials (bs : list (T * T)) (us : list T) : res (list T) :=
    match bs, us with
    | [], [] => Ok []
    | (lo, hi) :: bs', u :: us' =>
        do r <- random_initials bs' us'; Ok (wr_random_initial N lo u hi lo :: r)
    | _, _ => Err ValueError             (* shape mismatch *)
    end.

  Fixpoint wr_loop (fuel : nat) (reps : Z) (cur : list T * T * St)
    : res (list T * T * St * Z) :=
    if wr_again reps max_reps (conv (snd cur)) (rep (snd cur)) then
      match fuel with
      | O => Err OutOfFuel
      | S k =>
          do ini <- random_initials bounds (uniform reps);
          do nxt <- impl (wr_reps_inc reps) ini;
          wr_loop k (wr_reps_inc reps) nxt
      end
    else Ok (cur, reps).

  Fixpoint clip_vec (x : list T) (bs : list (T * T)) : res (list T * bool) :=
    match x, bs with
    | [], [] => Ok ([], false)
    | xi :: x', (lo, hi) :: bs' =>
        do r <- clip_vec x' bs';
        let cmin := wr_condmin N xi lo in
        let cmax := wr_condmax N xi hi in
        Ok (wr_clip_hi N cmax (wr_clip_lo N cmin xi lo) hi :: fst r,
            wr_any_clip (cmin || snd r) cmax || snd r)
    | _, _ => Err ValueError             (* broadcasting error *)
    end.

  Definition minimize (initials : list T) : res (list T * T * St * Z) :=
    do first <- impl 0 initials;
    do lr <- wr_loop (Z.to_nat max_reps) wr_reps0 first;
    let '(xmin, fmin, st, reps) := lr in
    if wr_fail (conv st) then Err ValueError
    else
      do c <- clip_vec xmin bounds;
      if snd c then (do f' <- reeval (fst c); Ok (fst c, f', st, reps))
      else Ok (xmin, fmin, st, reps).
End Wrapper.

(* ------------------------------------------------------------------ instances *)
(* Minimizer(NR1dNsMinimizerImpl).minimize: has_converged = warnflag <= 0,
   is_repeatable = False; the clipping branch unpacks `(fmin, grads)` from a
   3-tuple and would raise ValueError *)
Definition minimize_nr {T} (N : Num T) (func : list T -> T * T * T)
           (ns_tol : T) (max_steps max_reps : Z) (bounds : list (T * T))
           (uniform : Z -> list T) (initials : list T)
  : res (list T * T * nrres T * Z) :=
  minimize N
    (fun _ ini => do xr <- nr1d_vec N func ns_tol max_steps bounds ini;
                  Ok (fst xr, r_f (snd xr), snd xr))
    (fun st => nr_converged (r_flag st)) (fun _ => nr_repeatable)
    (fun _ => Err ValueError) bounds uniform max_reps initials.

Definition minimize_scan {T} (N : Num T) (func : list T -> T * T * T)
           (ns_tol : T) (max_steps max_reps : Z) (bounds : list (T * T))
           (p2s : list T) (uniform : Z -> list T) (initials : list T)
  : res (list T * T * nrres T * Z) :=
  minimize N
    (fun _ ini => do xr <- scan2d N func ns_tol max_steps bounds p2s ini;
                  Ok (fst xr, r_f (snd xr), snd xr))
    (fun st => nr_converged (r_flag st)) (fun _ => nr_repeatable)
    (fun _ => Err ValueError) bounds uniform max_reps initials.

(* negative_llhratio_func_nr1d_ns: (-f, -grads[ns_pidx], -grad2_ns) *)
Definition neg_obj {T} (N : Num T) (ns_pidx : Z) (llh : list T -> T * T * T) (x : list T) : T * T * T :=
  (* llh x = (log Lambda, d/d(parameter ns_pidx), d2/d(parameter ns_pidx)2) at x *)
  let '(f, g, g2) := llh x in (mx_neg_f N f, mx_neg_grad N ns_pidx g, mx_neg_grad2 N g2).

(* TCLLHRatio.maximize with an NR minimiser: (log_lambda_max, fitparam_values, status) *)
(* ns_pidx = pmm.get_gflp_idx('ns'): NR1dNsMinimizerImpl varies x[0], so the method raises unless ns is the
   first global floating parameter *)
Definition maximize_nr {T} (N : Num T) (ns_pidx : Z) (llh : list T -> T * T * T)
           (ns_tol : T) (max_steps max_reps : Z) (bounds : list (T * T))
           (uniform : Z -> list T) (initials : list T)
  : res (T * list T * nrres T) :=
  if mx_ns_not_first ns_pidx then Err ValueError else
  do m <- minimize_nr N (neg_obj N ns_pidx llh) ns_tol max_steps max_reps bounds uniform initials;
  let '(x, fmin, st, _) := m in Ok (mx_llmax_nr N fmin, x, st).

(* LLHRatio.maximize with any other implementation *)
Definition maximize_gen {T} (N : Num T) {St}
           (impl : Z -> list T -> res (list T * T * St)) (conv rep : St -> bool)
           (llh : list T -> res T) (bounds : list (T * T))
           (uniform : Z -> list T) (max_reps : Z) (initials : list T)
  : res (T * list T * St) :=
  do m <- minimize N impl conv rep
            (fun x => do f <- llh x; Ok (mx_neg_f_gen N f)) bounds uniform max_reps initials;
  let '(x, fmin, st, _) := m in Ok (mx_llmax_gen N fmin, x, st).

(* negative_llhratio_func_nr1d_ns spelled out: `mk v` = pmm.create_src_params_recarray(v) (created on every call),
   `ev v rc` = evaluate(fitparam_values=v, src_params_recarray=rc) = (f, grads),
   `g2 ns pidx rc` = calculate_ns_grad2(ns, ns_pidx, src_params_recarray=rc), `at_ v i` = v[i].
   The plumbing (which value goes where) is the identity kernels mx_closure_* of G_minimize.v. *)
Definition closure_nr {T V Rc : Type} (N : Num T) (mk : V -> Rc) (ev : V -> Rc -> T * (Z -> T))
           (g2 : T -> Z -> Rc -> T) (at_ : V -> Z -> T) (ns_pidx : Z) (v : V) : T * T * T :=
  let rc := mk v in
  let '(f, grads) := ev v rc in
  let ns := at_ v ns_pidx in
  (mx_neg_f N f, mx_neg_grad N ns_pidx (grads (mx_neg_grad_idx0 N ns_pidx)), mx_neg_grad2 N (g2 ns ns_pidx rc)).

(* TCLLHRatio.maximize with the NR + scan minimiser *)
Definition maximize_scan {T} (N : Num T) (ns_pidx : Z) (llh : list T -> T * T * T)
           (ns_tol : T) (max_steps max_reps : Z) (bounds : list (T * T)) (p2s : list T)
           (uniform : Z -> list T) (initials : list T)
  : res (T * list T * nrres T) :=
  if mx_ns_not_first ns_pidx then Err ValueError else
  do m <- minimize_scan N (neg_obj N ns_pidx llh) ns_tol max_steps max_reps bounds p2s uniform initials;
  let '(x, fmin, st, _) := m in Ok (mx_llmax_nr N fmin, x, st).
