(* Extension of the C19 model: the value computed by
   GaussianPSFPointLikeSourceSignalSpatialPDF.calculate_pd for one (source, event)
   pair: psi = angular_separation(src, evt) (call pinned by call_signalpdf_psi),
   sigma_sq = sigma**2, pd = 0.5/(pi sigma_sq) exp(-0.5 psi^2 / sigma_sq).
   Definitions only. *)
From Coq Require Import ZArith List Bool.
From Sky Require Import Num G_coords M_Coords.

Definition signalpdf_pd {T : Type} (N : Num T) (src_ra src_dec ra dec sigma : T) : T :=
  spdf_pd N (spdf_sigma_sq N sigma) (signalpdf_psi N src_ra src_dec ra dec).
