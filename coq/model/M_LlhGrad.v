(* C02 — the gradient assembly of the two-component llh ratio, in the shape of the code:
   SourceWeightedPDFRatio.get_gradient (stacking rule), PDFRatioProduct.get_gradient with
   its dependency flags, the per-source yield / weight gradients, the dataset-weight
   gradients, and the whole chain from the parameter layout (M_Layout) and differentiable
   leaf functions (PDF ratios on the interpolation parameter, detector yields) to the
   value and gradient vector of MultiDatasetTCLLHRatio.evaluate.
   Formulas are the kernels of gen/G_llh.v, key comparisons those of gen/G_layout.v.
   Polymorphic in the number system.  Definitions only. *)
From Coq Require Import ZArith List Bool.
From Sky Require Import Result PyList Num G_llh G_layout M_Llh M_Layout.
Import ListNotations.

Section G.
  Context {T : Type} (Nm : Num T).

  (* ------------------------------------------------------------------ *)
  (* SourceWeightedPDFRatio.get_gradient.
     a_k : weights of the dataset's row; da_k : their gradient (None: the int 0 when
     fitparam_id is not a key of a_jk_grads); vals : (source, event, R_ik) rows;
     dvals : the same rows with dR_ik (None: the int 0); Ri : the cached stacked ratio. *)
  Definition rows_of (k : nat) (vals : list (nat * nat * T)) : list (nat * T) :=
    map (fun v => (snd (fst v), snd v)) (filter (fun v => Nat.eqb (fst (fst v)) k) vals).

  Definition sw_grad_step (a_k : list T) (da_k : option (list T))
             (vals : list (nat * nat * T)) (dvals : option (list (nat * nat * T)))
             (S : list T) (k : nat) : list T :=
    let S1 := match da_k with
              | Some da => fancy_add (fun old r => k_sw_grad_term_a Nm old (nth k da (nzero Nm)) r) S (rows_of k vals)
              | None => S
              end in
    match dvals with
    | Some dv => fancy_add (fun old dr => k_sw_grad_term_b Nm old (nth k a_k (nzero Nm)) dr) S1 (rows_of k dv)
    | None => S1
    end.

  Definition sw_grad (a_k : list T) (da_k : option (list T)) (n_sel : nat)
             (vals : list (nat * nat * T)) (dvals : option (list (nat * nat * T))) (Ri : list T) : list T :=
    match da_k, dvals with
    | None, None => repeat (nzero Nm) n_sel            (* `return 0` *)
    | _, _ =>
        let A := nsum Nm a_k in
        let dAdp := match da_k with Some da => nsum Nm da | None => nzero Nm end in
        let G0 := map (fun r => k_sw_grad_init Nm r dAdp) Ri in
        let S := fold_left (sw_grad_step a_k da_k vals dvals) (seq 0 (length a_k)) (repeat (nzero Nm) n_sel) in
        map (fun p => k_sw_grad_norm Nm (k_sw_grad_add Nm (fst p) (snd p)) A) (combine G0 S)
    end.
End G.
