(* C02 — the gradient assembly of the two-component llh ratio, in the shape of the code:
   SourceWeightedPDFRatio.get_gradient (stacking rule), PDFRatioProduct.get_gradient with
   its dependency flags, the per-source yield / weight gradients, the dataset-weight
   gradients, and the whole chain from the parameter layout (M_Layout) and differentiable
   leaf functions (PDF ratios on the interpolation parameter, detector yields) to the
   value and gradient vector of MultiDatasetTCLLHRatio.evaluate.
   Formulas are the kernels of gen/G_llh.v, key comparisons those of gen/G_layout.v.
   Polymorphic in the number system.  Definitions only. *)
From Coq Require Import ZArith List Bool.
From Sky Require Import Result PyList Num G_llh G_layout M_Llh M_Layout.
Import ListNotations.

Section G.
  Context {T : Type} (Nm : Num T).

  (* ------------------------------------------------------------------ *)
  (* SourceWeightedPDFRatio.get_gradient.
     a_k : weights of the dataset's row; da_k : their gradient (None: the int 0 when
     fitparam_id is not a key of a_jk_grads); vals : (source, event, R_ik) rows;
     dvals : the same rows with dR_ik (None: the int 0); Ri : the cached stacked ratio. *)
  Definition rows_of (k : nat) (vals : list (nat * nat * T)) : list (nat * T) :=
    map (fun v => (snd (fst v), snd v)) (filter (fun v => Nat.eqb (fst (fst v)) k) vals).

  Definition sw_grad_step (a_k : list T) (da_k : option (list T))
             (vals : list (nat * nat * T)) (dvals : option (list (nat * nat * T)))
             (S : list T) (k : nat) : list T :=
    let S1 := match da_k with
              | Some da => fancy_add (fun old r => k_sw_grad_term_a Nm old (nth k da (nzero Nm)) r) S (rows_of k vals)
              | None => S
              end in
    match dvals with
    | Some dv => fancy_add (fun old dr => k_sw_grad_term_b Nm old (nth k a_k (nzero Nm)) dr) S1 (rows_of k dv)
    | None => S1
    end.

  Definition sw_grad (a_k : list T) (da_k : option (list T)) (n_sel : nat)
             (vals : list (nat * nat * T)) (dvals : option (list (nat * nat * T))) (Ri : list T) : list T :=
    match da_k, dvals with
    | None, None => repeat (nzero Nm) n_sel            (* `return 0` *)
    | _, _ =>
        let A := nsum Nm a_k in
        let dAdp := match da_k with Some da => nsum Nm da | None => nzero Nm end in
        let G0 := map (fun r => k_sw_grad_init Nm r dAdp) Ri in
        let S := fold_left (sw_grad_step a_k da_k vals dvals) (seq 0 (length a_k)) (repeat (nzero Nm) n_sel) in
        map (fun p => k_sw_grad_norm Nm (k_sw_grad_add Nm (fst p) (snd p)) A) (combine G0 S)
    end.

  (* ------------------------------------------------------------------ *)
  (* The whole gradient pipeline of MultiDatasetTCLLHRatio.evaluate for ONE fit parameter id,
     from the per-dataset inputs the code has at that point: N, n_selected, the row a_jk of the
     weights table, its gradient row (None: fitparam_id is no key of a_jk_grads), the table of
     (source, event, R_ik) and of (source, event, dR_ik/dp).  This is the composition whose
     derivative property is P_LlhPipeGrad.pipeline_p_derive; it is executed on IEEE doubles
     (ocaml/c02) against the real classes. *)
  Definition pipe_ds : Type :=
    (T * nat * list T * option (list T) * list (nat * nat * T) * list (nat * nat * T))%type.
  Definition pd_N (d : pipe_ds) : T := fst (fst (fst (fst (fst d)))).
  Definition pd_nsel (d : pipe_ds) : nat := snd (fst (fst (fst (fst d)))).
  Definition pd_a (d : pipe_ds) : list T := snd (fst (fst (fst d))).
  Definition pd_da (d : pipe_ds) : option (list T) := snd (fst (fst d)).
  Definition pd_vals (d : pipe_ds) : list (nat * nat * T) := snd (fst d).
  Definition pd_dvals (d : pipe_ds) : list (nat * nat * T) := snd d.

  Definition pd_Ri (d : pipe_ds) : list T := sw_ratio Nm (pd_a d) (pd_nsel d) (pd_vals d).
  Definition pd_dRi (d : pipe_ds) : list T :=
    sw_grad (pd_a d) (pd_da d) (pd_nsel d) (pd_vals d) (Some (pd_dvals d)) (pd_Ri d).
  Definition pd_da0 (d : pipe_ds) : list T :=
    match pd_da d with Some l => l | None => map (fun _ => nzero Nm) (pd_a d) end.

  (* (value, grads[ns], grads[p], calculate_ns_grad2) *)
  Definition pipeline_eval (opa ns : T) (DS : list pipe_ds) : T * T * T * T :=
    let a := map pd_a DS in
    let f := f_j Nm a in
    let df := f_j_grad Nm a (map pd_da0 DS) in
    (multi_value Nm opa ns f (map (fun d => (pd_N d, pd_Ri d)) DS),
     multi_grad_ns Nm opa ns f (map (fun d => (pd_N d, pd_Ri d)) DS),
     multi_grad_p Nm opa ns f df (map (fun d => (pd_N d, pd_Ri d, pd_dRi d)) DS),
     multi_ns_grad2 Nm opa ns f
       (map (fun d => (pd_N d, pd_Ri d, nsub Nm (pd_N d) (ofZ Nm (Z.of_nat (pd_nsel d))))) DS)).

  (* SigOverBkgPDFRatio: ratio and gradient of one table row in the four dependency cases
     (sig_dep, bkg_dep); the gradient mask is the separately computed `m` of get_gradient *)
  Definition sob_eval (zero_bkg s ds b db : T) (sig_dep bkg_dep : bool) : T * T :=
    (sob_ratio Nm zero_bkg s b,
     if lk_sobg_case1 sig_dep bkg_dep then nzero Nm                 (* case 1: zeros *)
     else if lk_sobg_mask Nm b then
       (if lk_sobg_case2 sig_dep bkg_dep then k_sob_grad_sig Nm ds b
        else if lk_sobg_case4 sig_dep bkg_dep then k_sob_grad_both Nm ds b db s
        else k_sob_grad_bkg Nm s b db)
     else nzero Nm).                                                (* grad[m] = ...: rows outside m stay 0 *)
End G.
