(* Model of the caches that sit between a trial's data and the numbers an LLH
   evaluation returns (property C06):

     TrialDataManager._trial_data_state_id and every site that changes it
       (skyllh/core/trialdata.py),
     Linear1D / Parabola1DGridManifoldInterpolationMethod._cache
       (skyllh/core/interpolate.py),
     MultiDimGridPDF._cache_pd / _cache_tdm_trial_data_state_id, one per grid
       point PDF of a SignalMultiDimGridPDFSet plus the background PDF
       (skyllh/core/pdf.py, signalpdf.py: _cache_eventdata),
     ZeroSigH0SingleDatasetTCLLHRatio._cache_nsgrad_i (skyllh/core/llhratio.py).

   Payloads are abstract: a `world` supplies the types of trial data, sources
   and arrays and the functions that compute them (PDF values, line / parabola
   coefficients, the LLH formulas).  The state holds the code's cache keys
   literally; every key comparison, every stored key and every state-id bump
   is a definition regenerated from the source (gen/G_cache.v).
   Definitions only. *)
From Coq Require Import ZArith List Bool.
From Sky Require Import Result G_cache.
Import ListNotations.
Open Scope Z_scope.

(* what a PDF sees of the TrialDataManager: the events of the trial together
   with the source hypothesis they were initialised with (event selection,
   src_evt_idxs, static data fields), and the source for which the source data
   fields currently hold values (None: the manager has no source data field) *)
Record view (data src : Type) := mkview { v_data : data; v_isrc : src }.
Arguments mkview {data src} _ _.
Arguments v_data {data src} _.
Arguments v_isrc {data src} _.
(* ... and the values of a global-fit-parameter dependent data field as the
   manager holds them now (None: no such field / not calculated) *)
Definition tv (data src gv : Type) : Type := (view data src * (option src * (option gv * option gv)))%type.

Record world := mkworld {
  data : Type;            (* trial data sets *)
  src : Type;             (* source hypotheses (SourceHypoGroupManager) *)
  V : Type;               (* (N_values,) arrays *)
  LC : Type;              (* line coefficients (m, b) *)
  PC : Type;              (* parabola coefficients (M1, a, b) *)
  O : Type;               (* interpolated values and gradients *)
  Out : Type;             (* (log_lambda, grads) *)
  G : Type;               (* nsgrad_i *)
  Out2 : Type;            (* nsgrad2 *)
  GV : Type;              (* values of a global-fit-parameter dependent data field *)
  (* ParameterGrid.round_to_lower / upper / nearest_grid_point, delta, and
     whether the PDF set has a PDF for a grid value *)
  glow : Z -> Z; gup : Z -> Z; gnear : Z -> Z; gdx : Z; in_grid : Z -> bool;
  (* MultiDimGridPDF.get_pd_with_eventdata of the signal PDF at a grid value:
     depends on the manager as it is now and on the event data array that
     SignalMultiDimGridPDFSet.initialize_for_new_trial built *)
  Fsig : tv data src GV -> tv data src GV -> Z -> V;
  (* background PDF *)
  Fbkg : tv data src GV -> V;
  Lmk : Z -> Z -> V -> V -> LC;        (* x0 x1 M0 M1 *)
  Lev : LC -> Z -> O;                  (* m*x + b, m *)
  Pmk : V -> V -> V -> PC;             (* M0 M1 M2 *)
  Pev : PC -> Z -> Z -> O;             (* x x1 *)
  (* SigOverBkgPDFRatio + ZeroSigH0SingleDatasetTCLLHRatio.evaluate *)
  fin : O -> V -> tv data src GV -> Z * Z -> Out;
  nsg_of : O -> V -> tv data src GV -> Z * Z -> G;
  g2 : G -> tv data src GV -> Z -> Out2;
  (* the calculation function of the global-fit-parameter dependent data field:
     func(tdm, shg_mgr, pmm, global_fitparams_dict) — reads the manager (events,
     source data fields), the current source hypothesis and the parameter value *)
  Fg : view data src -> option src -> src -> Z -> GV;
  (* a second such field, registered after the first, depending on another global parameter (ns) *)
  Fg2 : view data src -> option src -> src -> Z -> GV }.

(* configuration of the analysis objects *)
Record cfg := mkcfg {
  c_nsrc : Z;           (* len(tdm._source_data_fields_dict) *)
  c_npre : Z;           (* len(tdm._pre_evt_sel_static_data_fields_dict) *)
  c_nstat : Z;          (* len(tdm._static_data_fields_dict) *)
  c_cache_pd : bool;    (* MultiDimGridPDF.cache_pd_values *)
  c_par : bool;         (* Parabola1D (true) or Linear1D (false) interpolation *)
  c_ngfp : Z;           (* len(tdm._global_fitparam_data_fields_dict): 0, 1 (a field depending on the interpolation
                           parameter) or 2 (and a field, registered last, depending on ns) *)
  c_gfp_srcevt : bool }. (* that field has is_srcevt_data=True (values kept in DataField._values, not in tdm.events) *)

(* trace of what is actually computed during one operation *)
Inductive tr := TF (g : Z)      (* manifold function called for grid value g *)
              | TP (g : Z)      (* signal PDF of grid value g evaluated (not served from _cache_pd) *)
              | TB              (* background PDF evaluated *)
              | TG              (* calculation function of the global-fit-parameter data field called *)
              | TG2.            (* ... of the second field *)

Section Machine.
Variable W : world.
Variable C : cfg.
Notation Data := (data W).
Notation Src := (src W).
Notation Tv := (tv (data W) (src W) (GV W)).

Record pdfc := mkpdfc { p_sid : option Z; p_pd : option (V W) }.

Record state := mkst {
  s_sid : Z;                                (* tdm._trial_data_state_id *)
  s_view : option (view Data Src);          (* tdm.events, src_evt_idxs, static fields *)
  s_srcf : option Src;                      (* values of the source data fields *)
  s_cur : Src;                              (* llhratio._shg_mgr *)
  s_evd : option Tv;                        (* SignalMultiDimGridPDFSet._cache_eventdata *)
  s_lin : option Z * Z * option (LC W);     (* Linear1D._cache: trial_data_state_id, x0, (m, b) *)
  s_par : option Z * Z * option (PC W);     (* Parabola1D._cache: trial_data_state_id, x1, (M1, a, b) *)
  s_sig : Z -> pdfc;                        (* per grid value: _cache_tdm_trial_data_state_id, _cache_pd *)
  s_bkg : pdfc;
  s_nsg : option (G W);                     (* llhratio._cache_nsgrad_i *)
  s_gkey : option Z * option Z;             (* DataField._global_fitparam_value_list of the two fields *)
  s_gv : option (GV W) * option (GV W) }.                   (* the field's values: column of tdm.events, or DataField._values (srcevt) *)

(* what the PDFs can read besides the events: source data fields and the
   global-fit-parameter dependent field *)
Definition s_ext (st : state) : option Src * (option (GV W) * option (GV W)) := (s_srcf st, s_gv st).

Definition set_sid (st : state) v := mkst v (s_view st) (s_srcf st) (s_cur st) (s_evd st) (s_lin st) (s_par st) (s_sig st) (s_bkg st) (s_nsg st) (s_gkey st) (s_gv st).
Definition set_lin (st : state) v := mkst (s_sid st) (s_view st) (s_srcf st) (s_cur st) (s_evd st) v (s_par st) (s_sig st) (s_bkg st) (s_nsg st) (s_gkey st) (s_gv st).
Definition set_par (st : state) v := mkst (s_sid st) (s_view st) (s_srcf st) (s_cur st) (s_evd st) (s_lin st) v (s_sig st) (s_bkg st) (s_nsg st) (s_gkey st) (s_gv st).
Definition set_sig (st : state) v := mkst (s_sid st) (s_view st) (s_srcf st) (s_cur st) (s_evd st) (s_lin st) (s_par st) v (s_bkg st) (s_nsg st) (s_gkey st) (s_gv st).
Definition set_bkg_nsg (st : state) b n := mkst (s_sid st) (s_view st) (s_srcf st) (s_cur st) (s_evd st) (s_lin st) (s_par st) (s_sig st) b n (s_gkey st) (s_gv st).
Definition set_g (st : state) k v := mkst (s_sid st) (s_view st) (s_srcf st) (s_cur st) (s_evd st) (s_lin st) (s_par st) (s_sig st) (s_bkg st) (s_nsg st) k v.

Definition upd (f : Z -> pdfc) (g : Z) (c : pdfc) : Z -> pdfc :=
  fun h => if h =? g then c else f h.

(* TrialDataManager.calculate_source_data_fields *)
Definition calc_source_fields (st : state) (s : Src) : state :=
  if tdm_src_skip (c_nsrc C) then st
  else mkst (tdm_src_bump (s_sid st)) (s_view st) (Some s) (s_cur st) (s_evd st)
            (s_lin st) (s_par st) (s_sig st) (s_bkg st) (s_nsg st) (s_gkey st) (s_gv st).

(* SingleDatasetTCLLHRatio.__init__ on freshly built objects *)
Definition init (s0 : Src) : state :=
  calc_source_fields
    (mkst tdm_sid_initial None None s0 None (None, 0, None) (None, 0, None)
          (fun _ => mkpdfc None None) (mkpdfc None None) None (gfp_initial_value, gfp_initial_value) (None, None)) s0.

(* Analysis.initialize_trial: tdm.initialize_trial then
   llhratio.initialize_for_new_trial *)
Definition init_trial (st : state) (d : Data) : state :=
  let sid1 := if tdm_pre_skip (c_npre C) then s_sid st else tdm_pre_bump (s_sid st) in
  let sid2 := if tdm_stat_skip (c_nstat C) then sid1 else tdm_stat_bump sid1 in
  let sid3 := tdm_init_bump sid2 in
  let vw := mkview d (s_cur st) in
  (* the remembered parameter values of the global-fit-parameter field are
     forgotten (fix 13a1d9c), so the first evaluation of the trial recalculates
     the field whether or not the events array handed over already carries its
     column (modelled: a new array, the column of a plain field is gone;
     DataField._values of a srcevt field stays); the event data snapshot does
     not read the field *)
  mkst sid3 (Some vw) (s_srcf st) (s_cur st) (Some (vw, (s_srcf st, (None, None))))
       (s_lin st) (s_par st) (s_sig st) (s_bkg st)
       (match ns2_reset_on_new_trial with None => None | Some _ => s_nsg st end)
       (gfp_reset_on_new_trial, gfp_reset_on_new_trial)
       (if gfp_is_srcevt (c_gfp_srcevt C) then s_gv st else (None, None)).

(* SingleDatasetTCLLHRatio.change_shg_mgr *)
Definition change_source (st : state) (s : Src) : state :=
  calc_source_fields
    (mkst (s_sid st) (s_view st) (s_srcf st) s (s_evd st) (s_lin st) (s_par st)
          (s_sig st) (s_bkg st) (s_nsg st) (s_gkey st) (s_gv st)) s.

(* MultiDimGridPDF.get_pd_with_eventdata / get_pd with evt_mask = None:
   returns the value, the new cache and whether the PDF was evaluated *)
Definition pdf_get (sid : Z) (c : pdfc) (v : V W) : V W * pdfc * bool :=
  if pd_use_cache (c_cache_pd C) then
    if pd_cache_invalid (p_sid c) sid then
      (v, mkpdfc (Some (pd_store_sid sid)) (Some v), true)
    else match p_pd c with
         | Some w => (w, c, false)
         | None => (v, mkpdfc (Some (pd_store_sid sid)) (Some v), true)
         end
  else (v, c, true).

(* SignalMultiDimGridPDFSet._evaluate_pdfs for one grid value *)
Definition sig_eval (st : state) (cur evd : Tv) (g : Z) : state * list tr * res (V W) :=
  if in_grid W g then
    let '(v, c, computed) := pdf_get (s_sid st) (s_sig st g) (Fsig W cur evd g) in
    (set_sig st (upd (s_sig st) g c), TF g :: (if computed then [TP g] else []), Ok v)
  else (st, [TF g], Err KeyError).

(* Linear1DGridManifoldInterpolationMethod.__call__ *)
Definition interp_lin (st : state) (cur evd : Tv) (x : Z) : state * list tr * res (O W) :=
  let x0 := lin_x0_from (glow W x) in
  let '(csid, cx0, cl) := s_lin st in
  if lin_is_cached csid (lin_key_sid (s_sid st)) cx0 (lin_key_x0 x0) then
    match cl with
    | Some l => (st, [], Ok (Lev W l x))
    | None => (st, [], Err TypeError)
    end
  else
    let x1 := lin_x1_from (gup W x) in
    let '(st1, t0, r0) := sig_eval st cur evd x0 in
    match r0 with
    | Err e => (st1, t0, Err e)
    | Ok M0 =>
      let '(st2, t1, r1) := sig_eval st1 cur evd x1 in
      match r1 with
      | Err e => (st2, t0 ++ t1, Err e)
      | Ok M1 =>
        let l := Lmk W x0 x1 M0 M1 in
        (set_lin st2 (Some (lin_store_sid (s_sid st2)), lin_store_x0 x0, Some l),
         t0 ++ t1, Ok (Lev W l x))
      end
    end.

(* Parabola1DGridManifoldInterpolationMethod.__call__ *)
Definition interp_par (st : state) (cur evd : Tv) (x : Z) : state * list tr * res (O W) :=
  let x1 := par_x1_from (gnear W x) in
  let '(csid, cx1, cp) := s_par st in
  if par_sid_matches csid (par_key_sid (s_sid st)) && negb (par_key_differs cx1 (par_key_x1 x1)) then
    match cp with
    | Some p => (st, [], Ok (Pev W p x x1))
    | None => (st, [], Err TypeError)
    end
  else
    let x0 := gnear W (par_x0_arg x1 (gdx W)) in
    let x2 := gnear W (par_x2_arg x1 (gdx W)) in
    let '(st1, t0, r0) := sig_eval st cur evd x0 in
    match r0 with
    | Err e => (st1, t0, Err e)
    | Ok M0 =>
      let '(st2, t1, r1) := sig_eval st1 cur evd x1 in
      match r1 with
      | Err e => (st2, t0 ++ t1, Err e)
      | Ok M1 =>
        let '(st3, t2, r2) := sig_eval st2 cur evd x2 in
        match r2 with
        | Err e => (st3, t0 ++ t1 ++ t2, Err e)
        | Ok M2 =>
          let p := Pmk W M0 M1 M2 in
          (set_par st3 (Some (par_store_sid (s_sid st3)), par_store_x1 x1, Some p),
           t0 ++ t1 ++ t2, Ok (Pev W p x x1))
        end
      end
    end.

Definition interp (st : state) (cur evd : Tv) (x : Z) :=
  if c_par C then interp_par st cur evd x else interp_lin st cur evd x.

(* ZeroSigH0SingleDatasetTCLLHRatio.evaluate with a SigOverBkgPDFRatio of a
   SignalMultiDimGridPDFSet and a background MultiDimGridPDF *)
(* the columns of the events array: 0 (the event data), 1 / 2 once a plain field 1 / 2 has been calculated *)
Definition cols (st : state) : list Z :=
  if gfp_is_srcevt (c_gfp_srcevt C) then [0]
  else 0 :: (match fst (s_gv st) with Some _ => [1] | None => [] end)
         ++ (match snd (s_gv st) with Some _ => [2] | None => [] end).

(* DataField._calc_global_fitparam_dependent_values of field 1 (depends on the
   interpolation parameter) and of field 2 (registered last, depends on ns):
   new state and whether the calculation function was called *)
Definition gfp_field1 (st : state) (vw : view Data Src) (x : Z) : state * bool :=
  let calc := if gfp_name_missing 1 (cols st) then true else gfp_value_differs x (fst (s_gkey st)) in
  (if gfp_skip_calc calc then st
   else set_g st (Some (gfp_store_value x), snd (s_gkey st))
                 (Some (Fg W vw (s_srcf st) (s_cur st) x), snd (s_gv st)), calc).

Definition gfp_field2 (st : state) (vw : view Data Src) (ns : Z) : state * bool :=
  let calc := if gfp_name_missing 2 (cols st) then true else gfp_value_differs ns (snd (s_gkey st)) in
  (if gfp_skip_calc calc then st
   else set_g st (fst (s_gkey st), Some (gfp_store_value ns))
                 (fst (s_gv st), Some (Fg2 W vw (s_srcf st) (s_cur st) ns)), calc).

(* the first part of evaluate: tdm.calculate_global_fitparam_data_fields — every
   field in registration order, then ONE state-id bump whether or not a field
   was recalculated *)
Definition gfp_step (st : state) (vw : view Data Src) (ns x : Z) : state * list tr :=
  if llh_calc_gfp (tdm_has_gfp (c_ngfp C)) then
    if tdm_gfp_skip (c_ngfp C) then (st, [])
    else
      let '(st1, c1) := gfp_field1 st vw x in
      if 2 <=? c_ngfp C then
        let '(st2, c2) := gfp_field2 st1 vw ns in
        (set_sid st2 (tdm_gfp_bump (s_sid st2)), (if c1 then [TG] else []) ++ (if c2 then [TG2] else []))
      else (set_sid st1 (tdm_gfp_bump (s_sid st1)), if c1 then [TG] else [])
  else (st, []).

(* evaluate starts by forgetting the ns-gradients of the previous evaluation (fix 0119791) *)
Definition forget_nsg (st : state) : state :=
  set_bkg_nsg st (s_bkg st) (match ns2_reset_on_evaluate with None => None | Some _ => s_nsg st end).

Definition evaluate_body (st : state) (ns x : Z) : state * res (Out W) * list tr :=
  match s_view st, s_evd st with
  | Some vw, Some evd =>
    let '(st0, tg) := gfp_step st vw ns x in
    let cur := (vw, s_ext st0) in
    let '(st1, t, r) := interp st0 cur evd x in
    match r with
    | Err e => (st1, Err e, tg ++ t)
    | Ok o =>
      let '(b, c, computed) := pdf_get (s_sid st1) (s_bkg st1) (Fbkg W cur) in
      (set_bkg_nsg st1 c (Some (nsg_of W o b cur (ns, x))),
       Ok (fin W o b cur (ns, x)), tg ++ t ++ (if computed then [TB] else []))
    end
  | _, _ => (st, Err TypeError, [])
  end.

Definition evaluate (st : state) (ns x : Z) : state * res (Out W) * list tr :=
  evaluate_body (forget_nsg st) ns x.

(* ZeroSigH0SingleDatasetTCLLHRatio.calculate_ns_grad2 *)
Definition ns_grad2 (st : state) (ns : Z) : res (Out2 W) :=
  if ns2_no_cache (match s_nsg st with None => None | Some _ => Some 0 end) then Err RuntimeError
  else match s_nsg st, s_view st with
       | Some g, Some vw => Ok (g2 W g (vw, (s_srcf st, (None, None))) ns)
       | _, _ => Err TypeError
       end.

Inductive op := InitTrial (d : Data) | Evaluate (ns x : Z) | ChangeSource (s : Src) | NsGrad2 (ns : Z).
Inductive obs := ONone | OEval (r : res (Out W)) | ONs2 (r : res (Out2 W)).

Definition step (st : state) (o : op) : state * obs * list tr :=
  match o with
  | InitTrial d => (init_trial st d, ONone, [])
  | ChangeSource s => (change_source st s, ONone, [])
  | Evaluate ns x => let '(st', r, t) := evaluate st ns x in (st', OEval r, t)
  | NsGrad2 ns => (st, ONs2 (ns_grad2 st ns), [])
  end.

(* observations, traces and the state id after every operation *)
Fixpoint run (st : state) (ops : list op) : list (obs * list tr * Z) :=
  match ops with
  | [] => []
  | o :: r => let '(st', ob, t) := step st o in (ob, t, s_sid st') :: run st' r
  end.

Definition observations (st : state) (ops : list op) : list obs :=
  map (fun x => fst (fst x)) (run st ops).

(* the state after a history *)
Fixpoint mfinal (st : state) (ops : list op) : state :=
  match ops with
  | [] => st
  | o :: r => mfinal (fst (fst (step st o))) r
  end.

End Machine.

Arguments p_sid {W} _.
Arguments p_pd {W} _.
Arguments s_sid {W} _.
Arguments s_view {W} _.
Arguments s_srcf {W} _.
Arguments s_cur {W} _.
Arguments s_evd {W} _.
Arguments s_lin {W} _.
Arguments s_par {W} _.
Arguments s_sig {W} _.
Arguments s_bkg {W} _.
Arguments s_nsg {W} _.
Arguments s_gkey {W} _.
Arguments s_gv {W} _.
Arguments s_ext {W} _.

(* ------------------------------------------------------------------------
   An executable world with free (uninterpreted) payloads: every output is the
   list of numbers that records, tagged and with fixed-length fields, which
   data / source / grid values it was computed from.  Used by the
   correspondence and for the witnesses. *)
Definition enc_tv (c : tv Z Z (list Z)) : list Z :=
  [v_data (fst c); v_isrc (fst c); match fst (snd c) with None => -1 | Some s => s end]
  ++ match fst (snd (snd c)) with None => [0; 0; 0; 0; 0; 0] | Some g => 1 :: g end
  ++ match snd (snd (snd c)) with None => [0; 0; 0; 0; 0; 0] | Some g => 2 :: g end.

(* regular grid lb + i*d of the code (ParameterGrid), values in units of a
   dyadic fraction; PDFs exist for lo <= g <= hi *)
Definition zidx (lb d x : Z) : Z := Z.quot (x - lb) d.
Definition zlow (lb d x : Z) : Z := grid_low lb (zidx lb d x) d.
Definition zup (lb d x : Z) : Z := grid_up lb (zidx lb d x) d.
Definition znear (lb d x : Z) : Z :=
  let i := zidx lb d x in
  let r := (x - lb) - i * d in
  lb + (i + (if 2 * r >? d then 1 else 0)) * d.

Definition wfree (lb d lo hi : Z) : world :=
  mkworld Z Z (list Z) (list Z) (list Z) (list Z) (list Z) (list Z) (list Z) (list Z)
    (zlow lb d) (zup lb d) (znear lb d) d
    (fun g => (lo <=? g) && (g <=? hi) && ((g - lb) mod d =? 0))
    (fun cur evd g => [1; g] ++ enc_tv cur ++ enc_tv evd)
    (fun cur => 6 :: enc_tv cur)
    (fun x0 x1 M0 M1 => [2; x0; x1] ++ M0 ++ M1)
    (fun l x => [3; x] ++ l)
    (fun M0 M1 M2 => 4 :: M0 ++ M1 ++ M2)
    (fun p x x1 => [5; x; x1] ++ p)
    (fun o b cur p => [7; fst p; snd p] ++ enc_tv cur ++ b ++ o)
    (fun o b cur p => [8; fst p; snd p] ++ enc_tv cur ++ b ++ o)
    (fun g cur ns => [9; ns] ++ enc_tv cur ++ g)
    (fun vw sf cs x => [v_data vw; v_isrc vw; match sf with None => -1 | Some s => s end; cs; x])
    (fun vw sf cs n => [v_data vw; v_isrc vw; match sf with None => -1 | Some s => s end; cs; n]).

(* ------------------------------------------------------------------------
   Two datasets: MultiDatasetTCLLHRatio over two ZeroSigH0SingleDatasetTCLLHRatio
   machines (each with its own TrialDataManager, PDFs and caches), optionally
   wrapped by NsProfileMultiDatasetTCLLHRatio with its remembered
   null-hypothesis value _logL_0. *)
Record mworld (W : world) := mkmworld {
  MOut : Type;                                   (* (log_lambda, grads) of the multi-dataset function *)
  MOut2 : Type;
  nsf : src W -> Z -> Z -> Z;                    (* ns * f_j, f from the DatasetSignalWeightFactorsService (source dependent) *)
  mfin : Out W -> Out W -> src W -> Z * Z -> MOut;
  mg2 : Out2 W -> Out2 W -> src W -> Z -> MOut2;
  psub : MOut -> MOut -> MOut }.                 (* logL - _logL_0, gradients of logL *)
Arguments MOut {W} _.
Arguments MOut2 {W} _.
Arguments nsf {W} _ _ _ _.
Arguments mfin {W} _ _ _ _ _.
Arguments mg2 {W} _ _ _ _ _.
Arguments psub {W} _ _ _.

Record mcfg := mkmcfg {
  m_profile : bool;      (* NsProfileMultiDatasetTCLLHRatio on top *)
  m_ns0 : Z;             (* mean_n_sig_0 *)
  m_x0 : Z }.            (* value of the (then fixed) interpolation parameter *)

Section Multi.
Variable W : world.
Variable C : cfg.
Variable MW : mworld W.
Variable MC : mcfg.

Record mstate := mkm {
  m1 : state W;                      (* dataset 0 *)
  m2 : state W;                      (* dataset 1 *)
  m_l0 : option (MOut MW);           (* NsProfileMultiDatasetTCLLHRatio._logL_0 *)
  m_wsrc : option (src W) }.         (* the weight factors f of the last evaluation (services keep them) *)

Definition minit (s0 : src W) : mstate := mkm (init W C s0) (init W C s0) None None.

(* MultiDatasetTCLLHRatio.evaluate *)
Definition meval2 (s : mstate) (ns x : Z) : mstate * res (MOut MW) * list tr :=
  let cur := s_cur (m1 s) in
  let '(a, r1, t1) := evaluate W C (m1 s) (nsf MW cur 0 ns) x in
  match r1 with
  | Err e => (mkm a (m2 s) (m_l0 s) (Some cur), Err e, t1)
  | Ok o1 =>
    let '(b, r2, t2) := evaluate W C (m2 s) (nsf MW cur 1 ns) x in
    match r2 with
    | Err e => (mkm a b (m_l0 s) (Some cur), Err e, t1 ++ t2)
    | Ok o2 => (mkm a b (m_l0 s) (Some cur), Ok (mfin MW o1 o2 cur (ns, x)), t1 ++ t2)
    end
  end.

Inductive mop := MInit (d1 d2 : data W) | MEval (ns x : Z) | MSrc (s : src W) | MNs2 (n : Z).
Inductive mobs := MInitO (r : res Z) | MNone | MEvalO (r : res (MOut MW)) | MNs2O (r : res (MOut2 MW)).

Definition mstep (s : mstate) (o : mop) : mstate * mobs * list tr :=
  match o with
  | MInit d1 d2 =>
      (* every TrialDataManager.initialize_trial, then initialize_for_new_trial
         down the cascade; the ns-profile function then evaluates the
         null-hypothesis value for the new trial *)
      let s1 := mkm (init_trial W C (m1 s) d1) (init_trial W C (m2 s) d2) (m_l0 s) (m_wsrc s) in
      if m_profile MC then
        let '(s2, r, t) := meval2 s1 (prof_logL0_arg (prof_logL0_point (m_ns0 MC))) (m_x0 MC) in
        match r with
        | Ok v => (mkm (m1 s2) (m2 s2) (Some v) (m_wsrc s2), MInitO (Ok 0), t)
        | Err e => (s2, MInitO (Err e), t)
        end
      else (s1, MInitO (Ok 0), [])
  | MEval ns x =>
      let '(s', r, t) := meval2 s ns x in
      (s', MEvalO (if m_profile MC then
                     match r with
                     | Ok v => match m_l0 s' with Some l => Ok (psub MW v l) | None => Err TypeError end
                     | Err e => Err e
                     end
                   else r), t)
  | MSrc sr => (mkm (change_source W C (m1 s) sr) (change_source W C (m2 s) sr) (m_l0 s) (m_wsrc s), MNone, [])
  | MNs2 n =>
      (s, MNs2O (match m_wsrc s with
                 | None => Err AttributeError
                 | Some ws =>
                   match ns_grad2 W (m1 s) (nsf MW ws 0 n) with
                   | Err e => Err e
                   | Ok a => match ns_grad2 W (m2 s) (nsf MW ws 1 n) with
                             | Err e => Err e
                             | Ok b => Ok (mg2 MW a b ws n)
                             end
                   end
                 end), [])
  end.

Fixpoint mrun (s : mstate) (ops : list mop) : list (mobs * list tr * (Z * Z)) :=
  match ops with
  | [] => []
  | o :: r => let '(s', ob, t) := mstep s o in (ob, t, (s_sid (m1 s'), s_sid (m2 s'))) :: mrun s' r
  end.

Definition mobservations (s : mstate) (ops : list mop) : list mobs :=
  map (fun x => fst (fst x)) (mrun s ops).

End Multi.

Definition mwfree (lb d lo hi : Z) : mworld (wfree lb d lo hi) :=
  mkmworld (wfree lb d lo hi) (list Z) (list Z)
    (fun cs j ns => ns * 1000 + cs * 10 + j)
    (fun o1 o2 cs p => [20; cs; fst p; snd p] ++ o1 ++ o2)
    (fun a b cs n => [21; cs; n] ++ a ++ b)
    (fun v l => 22 :: v ++ l).

(* ------------------------------------------------------------------------
   Maximisation and test statistic.  The minimiser (scipy L-BFGS-B, Newton-
   Raphson, ...) is an ORACLE: a deterministic strategy that, from the list of
   the queries made so far and what evaluate returned for them, chooses the next
   parameter point or stops; the result (log_lambda_max, best fit, status) is a
   function `pick` of that list, the test statistic a function of the result. *)
Section Maximize.
Variable W : world.
Variable C : cfg.
Variable MaxOut : Type.
Definition qlog := list ((Z * Z) * res (Out W)).
Variable strat : qlog -> option (Z * Z).      (* None: converged / gave up *)
Variable pick : qlog -> MaxOut.

(* LLHRatio.maximize: the objective is evaluate on the very same objects *)
Fixpoint max_loop (fuel : nat) (st : state W) (h : qlog) : state W * qlog * list tr :=
  match fuel with
  | 0%nat => (st, h, [])
  | S f =>
    match strat h with
    | None => (st, h, [])
    | Some (ns, x) =>
      let '(st1, r, t) := evaluate W C st ns x in
      let '(st2, h2, t2) := max_loop f st1 (h ++ [((ns, x), r)]) in
      (st2, h2, t ++ t2)
    end
  end.

Definition maximize (fuel : nat) (st : state W) : state W * MaxOut :=
  let '(st', h, _) := max_loop fuel st [] in (st', pick h).

(* histories that may contain maximisations *)
Inductive xop := XOp (o : op W) | XMax (fuel : nat).

Fixpoint xfinal (st : state W) (xs : list xop) : state W :=
  match xs with
  | [] => st
  | XOp o :: r => xfinal (fst (fst (step W C st o))) r
  | XMax fuel :: r => xfinal (fst (maximize fuel st)) r
  end.

End Maximize.

(* ------------------------------------------------------------------------
   SplinedI3EnergySigSetOverBkgPDFRatio in place of the SigOverBkgPDFRatio: its
   own _cache = (trial_data_state_id, interpol_params_recarray, (ratio, grads))
   in front of the interpolation method; get_gradient re-uses what get_ratio
   cached.  (The event data it hands to the interpolation method is rebuilt from
   the manager at every call; it is modelled by the snapshot taken when the
   trial was initialised, of which it is a function.) *)
Section I3.
Variable W : world.
Variable C : cfg.

Record i3state := mki3 {
  i_base : state W;
  i_c : option Z * Z * option (O W) }.

Definition i3init (s0 : src W) : i3state := mki3 (init W C s0) (None, 0, None).

(* SplinedI3EnergySigSetOverBkgPDFRatio._is_cached: none of its three tests fires *)
Definition i3_is_cached (c : option Z * Z * option (O W)) (sid x : Z) : bool :=
  negb (i3_sid_none (fst (fst c))) && negb (i3_sid_differs (fst (fst c)) sid) && negb (i3_key_differs (snd (fst c)) x).

Definition i3_evaluate (s : i3state) (ns x : Z) : i3state * res (Out W) * list tr :=
  let st := forget_nsg W (i_base s) in
  match s_view st, s_evd st with
  | Some vw, Some evd =>
    let '(st0, tg) := gfp_step W C st vw ns x in
    let cur := (vw, s_ext st0) in
    if i3_is_cached (i_c s) (s_sid st0) x then
      match snd (i_c s) with
      | Some o => (mki3 (set_bkg_nsg W st0 (s_bkg st0) (Some (nsg_of W o (Fbkg W cur) cur (ns, x)))) (i_c s),
                   Ok (fin W o (Fbkg W cur) cur (ns, x)), tg)
      | None => (mki3 st0 (i_c s), Err TypeError, tg)
      end
    else
      let '(st1, t, r) := interp W C st0 cur evd x in
      match r with
      | Err e => (mki3 st1 (i_c s), Err e, tg ++ t)
      | Ok o => (mki3 (set_bkg_nsg W st1 (s_bkg st1) (Some (nsg_of W o (Fbkg W cur) cur (ns, x))))
                      (Some (s_sid st1), x, Some o),
                 Ok (fin W o (Fbkg W cur) cur (ns, x)), tg ++ t)
      end
  | _, _ => (mki3 st (i_c s), Err TypeError, [])
  end.

Definition i3step (s : i3state) (o : op W) : i3state * obs W * list tr :=
  match o with
  | InitTrial _ d => (mki3 (init_trial W C (i_base s) d) (i_c s), ONone W, [])
  | ChangeSource _ sr => (mki3 (change_source W C (i_base s) sr) (i_c s), ONone W, [])
  | Evaluate _ ns x => let '(s', r, t) := i3_evaluate s ns x in (s', OEval W r, t)
  | NsGrad2 _ n => (s, ONs2 W (ns_grad2 W (i_base s) n), [])
  end.

Fixpoint i3run (s : i3state) (ops : list (op W)) : list (obs W * list tr * Z) :=
  match ops with
  | [] => []
  | o :: r => let '(s', ob, t) := i3step s o in (ob, t, s_sid (i_base s')) :: i3run s' r
  end.

Definition i3observations (s : i3state) (ops : list (op W)) : list (obs W) :=
  map (fun x => fst (fst x)) (i3run s ops).

End I3.
