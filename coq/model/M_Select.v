(* Model of skyllh/core/event_selection.py (all select_events methods, the
   intersection, create_src_evt_mask) and of TrialDataManager.initialize_trial
   (selection, sort by the index field, re-assignment of the event indices,
   default full mapping).

   Discrete level.  A selection method is given by its boolean criterion
   (source, event) -> bool; the model is the numpy plumbing the code performs
   on the resulting (N_sources, N_events) boolean array.  The criteria
   themselves (declination band, RA distance, psi cuts) are the translated
   formulas of gen/G_select.v and are plugged in by model/M_SelectNum.v; the
   theorems are parametric in the criterion, which is what makes them hold for
   every method.  Index / batching arithmetic comes from gen/G_select.v.
   Definitions only. *)
From Coq Require Import ZArith List Bool.
From Sky Require Import Result PyList G_select.
Import ListNotations.
Open Scope Z_scope.

Definition bmat := list (list bool).
Definition tbl := list (Z * Z).         (* zip(src_idxs, evt_idxs) *)

Fixpoint map2 {A B C} (f : A -> B -> C) (l : list A) (l' : list B) : list C :=
  match l, l' with
  | a :: r, b :: r' => f a b :: map2 f r r'
  | _, _ => []
  end.

(* np.any(m, axis=0) of an (ns, ne) array *)
Fixpoint any0 (ne : nat) (m : bmat) : list bool :=
  match m with
  | [] => repeat false ne
  | r :: m' => map2 orb r (any0 ne m')
  end.

(* positions of True counted from j: `events.indices[mask]` is where_from 0 mask *)
Fixpoint where_from (j : nat) (mask : list bool) : list nat :=
  match mask with
  | [] => []
  | b :: r => if b then j :: where_from (S j) r else where_from (S j) r
  end.

(* m[:, mask] *)
Definition cols (mask : list bool) (m : bmat) : bmat :=
  map (fun r => mask_select r mask) m.

(* np.argwhere of a 2-d boolean array: row-major *)
Fixpoint argwhere_from (k : nat) (m : bmat) : list (nat * nat) :=
  match m with
  | [] => []
  | r :: m' => map (pair k) (where_from 0 r) ++ argwhere_from (S k) m'
  end.

(* mask = any(mask_sky, axis=0); selected_events_idxs = events.indices[mask];
   idxs = argwhere(mask_sky[:, mask]) *)
Definition select_core (ne : nat) (m : bmat) : list nat * list (nat * nat) :=
  let mask := any0 ne m in
  (where_from 0 mask, argwhere_from 0 (cols mask m)).

(* an (ns, ne) boolean array given by a function of the indices *)
Definition tab (ns ne : nat) (f : nat -> nat -> bool) : bmat :=
  map (fun k => map (f k) (seq 0 ne)) (seq 0 ns).

(* integer index with numpy semantics: negative wraps once, else IndexError *)
Definition wrap (n : nat) (i : Z) : res nat :=
  let zn := Z.of_nat n in
  if (i <? - zn) || (zn <=? i) then Err IndexError
  else Ok (Z.to_nat (if i <? 0 then i + zn else i)).

Definition take_wrap {A} (l : list A) (i : Z) : res A :=
  do k <- wrap (length l) i;
  match nth_error l k with Some a => Ok a | None => Err IndexError end.

Definition take_nat {A} (l : list A) (idx : list nat) : res (list A) :=
  mapM (fun i => match nth_error l i with Some a => Ok a | None => Err IndexError end) idx.

Definition zz (p : nat * nat) : Z * Z := (Z.of_nat (fst p), Z.of_nat (snd p)).

(* (np.repeat(np.arange(ns), ne), np.tile(np.arange(ne), ns)) *)
Definition full_tbl (ns ne : nat) : tbl :=
  flat_map (fun k => map (fun j => (Z.of_nat k, Z.of_nat j)) (seq 0 ne)) (seq 0 ns).

(* SpatialEventSelectionMethod.create_src_evt_mask:
   mask = zeros((ns, ne), bool); mask[src_idxs, evt_idxs] = True *)
Definition tbl_mask (ns ne : nat) (t : tbl) : res bmat :=
  do t' <- mapM (fun p => do k <- wrap ns (csm_row (fst p));
                          do j <- wrap ne (csm_col (snd p)); Ok (k, j)) t;
  Ok (tab ns ne (fun k j => existsb (fun q => Nat.eqb (fst q) k && Nat.eqb (snd q) j) t')).

Inductive band_kind := KDec | KRA.
Definition inc_kernel (kd : band_kind) : bool -> bool -> bool :=
  match kd with KDec => db_mask_inc | KRA => rb_mask_inc end.

(* `if src_evt_idxs is not None: mask &= self.create_src_evt_mask(...)` *)
Definition and_inc (andf : bool -> bool -> bool) (m : bmat) (ns ne : nat)
           (inc : option tbl) : res bmat :=
  match inc with
  | None => Ok m
  | Some t => do mi <- tbl_mask ns ne t; Ok (map2 (map2 andf) m mi)
  end.

(* mask_ra[lo:hi, :] = new  (row slices of equal length) *)
Definition set_rows (m : bmat) (lo hi : Z) (new : bmat) : res bmat :=
  let n := zlen m in
  let a := py_norm_idx n lo in
  let b := py_norm_idx n hi in
  if negb (zlen new =? Z.max 0 (b - a)) then Err ValueError
  else Ok (firstn (Z.to_nat a) m ++ new ++ skipn (Z.to_nat (a + zlen new)) m).

Section Methods.
  Variables S E : Type.

  (* the criterion array a method computes by broadcasting *)
  Definition mat (c : S -> E -> bool) (srcs : list S) (evs : list E) : bmat :=
    map (fun s => map (c s) evs) srcs.

  Inductive meth : Type :=
  | MAll                                            (* AllEventSelectionMethod *)
  | MBand (kd : band_kind) (c : S -> E -> bool)     (* DecBand / RABand *)
  | MBox (bs : Z) (cra crab cdec : S -> E -> bool)  (* SpatialBox: RA mask (plain / batched path), dec mask *)
  | MPsi (c : E -> bool)                            (* PsiFunc (single source) *)
  | MPair (c : S -> E -> bool)                      (* AngErrOfPsi: evaluated per incoming pair *)
  | MAnd (a b : meth).                              (* IntersectionEventSelectionMethod *)

  Record sel : Type := {
    s_events : list E;        (* selected_events *)
    s_tbl : tbl;              (* (src_idxs, evt_idxs) *)
    s_orig : list Z           (* original_evt_idxs *)
  }.

  Definition finish (evs : list E) (m : bmat) : res sel :=
    let '(orig, pairs) := select_core (length evs) m in
    do ev' <- take_nat evs orig;
    Ok {| s_events := ev'; s_tbl := map zz pairs; s_orig := map Z.of_nat orig |}.

  (* one pass of `for bi in range(n_batches)` in SpatialBox *)
  Definition batch_step (bs nb : Z) (rowf : S -> list bool) (srcs : list S)
             (acc : bmat) (bi : Z) : res bmat :=
    let n := zlen srcs in
    let '(lo, hi) := if sb_is_last bi nb then (sb_lo_last bi bs, n)
                     else (sb_lo bi bs, sb_hi bi bs) in
    set_rows acc lo hi (map rowf (py_slice srcs lo hi)).

  Definition fill_batches (bs : Z) (rowf : S -> list bool) (srcs : list S) (ne : nat)
    : res bmat :=
    let nb := sb_n_batches (zlen srcs) bs in
    fold_left (fun acc bi => do a <- acc; batch_step bs nb rowf srcs a bi)
              (map Z.of_nat (seq 0 (Z.to_nat nb)))
              (Ok (repeat (repeat false ne) (length srcs))).

  Fixpoint run (m : meth) (srcs : list S) (evs : list E) (inc : option tbl) : res sel :=
    let ns := length srcs in
    let ne := length evs in
    match m with
    | MAll =>
        Ok {| s_events := evs;
              s_tbl := match inc with None => full_tbl ns ne | Some t => t end;
              s_orig := map Z.of_nat (seq 0 ne) |}
    | MBand kd c =>
        do m1 <- and_inc (inc_kernel kd) (mat c srcs evs) ns ne inc;
        finish evs m1
    | MBox bs cra crab cdec =>
        do mra <- (if sb_use_batches (Z.of_nat ns) bs
                   then fill_batches bs (fun s => map (crab s) evs) srcs ne
                   else Ok (mat cra srcs evs));
        let msky := map2 (map2 sb_mask_sky) mra (mat cdec srcs evs) in
        do m1 <- and_inc sb_mask_inc msky ns ne inc;
        finish evs m1
    | MPsi c =>
        (* __init__ refuses any other number of sources: `if n_sources != 1: raise ValueError` *)
        if pf_ns_bad (Z.of_nat ns) then Err ValueError
        else finish evs [map c evs]                 (* np.atleast_2d(mask) *)
    | MPair c =>
        let t := match inc with None => full_tbl ns ne | Some t => t end in
        (* np.take(src_arr[..], src_idxs), np.take(events[..], evt_idxs) *)
        do vals <- mapM (fun p => do s <- take_wrap srcs (ae_ra1_idx0 (fst p));
                                  do e <- take_wrap evs (ae_ra2_idx0 (snd p));
                                  Ok (c s e)) t;
        (* scipy.sparse.csr_matrix((mask_psi, (src_idxs, evt_idxs)), shape) *)
        if existsb (fun p => (fst p <? 0) || (snd p <? 0)) t then Err ValueError
        else finish evs
               (tab ns ne (fun k j =>
                  existsb (fun pv => (fst (fst pv) =? Z.of_nat k)
                                     && (snd (fst pv) =? Z.of_nat j) && snd pv)
                          (combine t vals)))
    | MAnd a b =>
        do r1 <- run a srcs evs inc;
        do r2 <- run b srcs (s_events r1) (Some (s_tbl r1));
        (* np.take(org_evt_idxs1, org_evt_idxs2) *)
        do org <- mapM (fun i => take_wrap (s_orig r1) (ix_org_idx0 i)) (s_orig r2);
        Ok {| s_events := s_events r2; s_tbl := s_tbl r2; s_orig := org |}
    end.

  (* select_events(..., ret_original_evt_idxs=False): the atomic methods run the same statements
     and return without the original indices; IntersectionEventSelectionMethod has a SEPARATE
     branch for it (calls both methods without the flag, no np.take) — the branch
     TrialDataManager.initialize_trial uses *)
  Fixpoint run_nr (m : meth) (srcs : list S) (evs : list E) (inc : option tbl)
    : res (list E * tbl) :=
    match m with
    | MAnd a b =>
        do r1 <- run_nr a srcs evs inc;
        run_nr b srcs (fst r1) (Some (snd r1))
    | _ => do r <- run m srcs evs inc; Ok (s_events r, s_tbl r)
    end.

  (* ------------------------------------------------- TrialDataManager *)
  (* np.argsort of the index field of the given events: external code *)
  Variable argsort : list E -> list Z.

  (* new_idxs = np.empty_like(p); new_idxs[p] = np.arange(len(p)) ; entries never
     written stay uninitialised (None) *)
  Fixpoint scatter (n : nat) (acc : list (option Z)) (i : Z) (p : list Z)
    : res (list (option Z)) :=
    match p with
    | [] => Ok acc
    | x :: r => do k <- wrap n (tdm_inv_pos x);
                scatter n (set_nth acc k (Some i)) (i + 1) r
    end.

  Definition tdm_init (m : option meth) (srcs : list S) (evs : list E)
             (index_field : bool) : res (list E * tbl) :=
    do st <- match m with
             | None => Ok (evs, None)
             | Some m => do r <- run_nr m srcs evs None; Ok (fst r, Some (snd r))
             end;
    let '(ev1, t1) := st in
    do st2 <- (if index_field then
                 let p := argsort ev1 in
                 do ev2 <- mapM (take_wrap ev1) p;          (* field[sorted_idxs] *)
                 match t1 with
                 | None => Ok (ev2, None)
                 | Some t =>
                     do inv <- scatter (length p) (repeat None (length p)) 0 p;
                     do t' <- mapM (fun q =>
                                do v <- take_wrap inv (snd q);
                                match v with
                                | Some j => Ok (tdm_src_keep (fst q), tdm_new_evt j)
                                | None => Err RuntimeError      (* uninitialised read *)
                                end) t;
                     Ok (ev2, Some t')
                 end
               else Ok (ev1, t1));
    let '(ev2, t2) := st2 in
    Ok (ev2, match t2 with
             | Some t => t
             | None => full_tbl (length srcs) (length ev2)
             end).
End Methods.

Arguments MAll {S E}.
Arguments MBand {S E} _ _.
Arguments MBox {S E} _ _ _ _.
Arguments MPsi {S E} _.
Arguments MPair {S E} _.
Arguments MAnd {S E} _ _.
Arguments s_events {E} _.
Arguments s_tbl {E} _.
Arguments s_orig {E} _.
Arguments mat {S E} _ _ _.
Arguments finish {E} _ _.
Arguments fill_batches {S} _ _ _ _.
Arguments batch_step {S} _ _ _ _ _ _.
Arguments run {S E} _ _ _ _.
Arguments run_nr {S E} _ _ _ _.
Arguments tdm_init {S E} _ _ _ _ _.

(* criteria given by a literal array (used by the correspondence: the
   criterion values are computed outside, sources and events are their indices) *)
Definition lookup (M : bmat) (s e : Z) : bool :=
  nth (Z.to_nat e) (nth (Z.to_nat s) M []) false.
Definition lookup1 (M : list bool) (e : Z) : bool := nth (Z.to_nat e) M false.

(* results as plain tuples (for printing) *)
Definition sel_out {E} (r : res (sel E)) : res (list E * tbl * list Z) :=
  match r with
  | Ok x => Ok (s_events x, s_tbl x, s_orig x)
  | Err e => Err e
  end.
