(* Numeric level of C05: the (source, event) criteria of the spatial event
   selection methods, composed from the translated formulas of gen/G_select.v.
   Polymorphic in the number system: theorems at RNum (proofs/P_SelectNum.v),
   executed on IEEE doubles through extraction (ocaml/c05) to produce the
   criterion matrices the discrete model M_Select.v is run on.
   Definitions only. *)
From Coq Require Import ZArith List Bool.
From Sky Require Import Num G_select M_Select.
Import ListNotations.

Section Crit.
  Context {T : Type} (N : Num T).

  (* DecBand: mask_dec[k, j] *)
  Definition dec_crit (delta sdec edec : T) : bool :=
    db_mask_dec N edec sdec delta.

  (* RABand: mask_ra[k, j] *)
  Definition rb_half (delta sdec : T) : T :=
    rb_dRA_half N delta (rb_cosfact N (rb_dec_minus N sdec delta) (rb_dec_plus N sdec delta)).
  Definition raband_crit (delta sra sdec era : T) : bool :=
    rb_mask_ra N (rb_ra_dist N era sra) (rb_half delta sdec).

  (* SpatialBox: mask_ra (unbatched and batched copy of the text), mask_dec *)
  Definition sb_half (delta sdec : T) : T :=
    sb_dRA_half N delta (sb_cosfact N (sb_dec_minus N sdec delta) (sb_dec_plus N sdec delta)).
  Definition box_ra_crit (delta sra sdec era : T) : bool :=
    sb_mask_ra N (sb_ra_mod N (sb_ra_diff N era sra)) (sb_half delta sdec).
  Definition box_ra_crit_b (delta sra sdec era : T) : bool :=
    sb_b_mask_ra N (sb_b_ra_mod N (sb_b_ra_diff N era sra)) (sb_half delta sdec).
  Definition box_dec_crit (delta sdec edec : T) : bool :=
    sb_mask_dec N edec sdec delta.

  (* utils/coords.angular_separation (psi_floor = None) *)
  Definition angsep (ra1 dec1 ra2 dec2 : T) : T :=
    let x := as_x N (as_delta_dec N dec1 dec2) dec1 dec2 (as_delta_ra N ra1 ra2) in
    let x := if as_lo_mask N x then as_lo_val N else x in
    let x := if as_hi_mask N x then as_hi_val N else x in
    as_psi N x.

  (* AngErrOfPsi with func(psi) = a * psi + b (the shape the correspondence uses) *)
  Definition angerr_crit (a b floor sra sdec era edec ang_err : T) : bool :=
    let psi := angsep sra sdec era edec in
    ae_mask_psi N ang_err psi floor (nadd N (nmul N a psi) b).

  (* PsiFunc with func(ang_err) = c * ang_err *)
  Definition psifunc_crit (c psi ang_err : T) : bool :=
    pf_mask N psi (nmul N c ang_err).

  (* criterion matrices, sources = (ra, dec), events = (ra, dec, ang_err, psi) *)
  Definition ev4 : Type := T * T * T * T.
  Definition e_ra (e : ev4) : T := fst (fst (fst e)).
  Definition e_dec (e : ev4) : T := snd (fst (fst e)).
  Definition e_err (e : ev4) : T := snd (fst e).
  Definition e_psi (e : ev4) : T := snd e.

  Definition cmat (c : T * T -> ev4 -> bool) (srcs : list (T * T)) (evs : list ev4) : list (list bool) :=
    map (fun s => map (c s) evs) srcs.

  Definition mat_dec delta := cmat (fun s e => dec_crit delta (snd s) (e_dec e)).
  Definition mat_raband delta := cmat (fun s e => raband_crit delta (fst s) (snd s) (e_ra e)).
  Definition mat_box_ra delta := cmat (fun s e => box_ra_crit delta (fst s) (snd s) (e_ra e)).
  Definition mat_box_ra_b delta := cmat (fun s e => box_ra_crit_b delta (fst s) (snd s) (e_ra e)).
  Definition mat_box_dec delta := cmat (fun s e => box_dec_crit delta (snd s) (e_dec e)).
  Definition mat_angerr a b floor :=
    cmat (fun s e => angerr_crit a b floor (fst s) (snd s) (e_ra e) (e_dec e) (e_err e)).
  Definition row_psifunc c (evs : list ev4) : list bool :=
    map (fun e => psifunc_crit c (e_psi e) (e_err e)) evs.

  (* the method objects as the concrete classes build them: sources (ra, dec), events ev4 *)
  Definition decband (delta : T) : meth (T * T) ev4 :=
    MBand KDec (fun s e => dec_crit delta (snd s) (e_dec e)).
  Definition raband (delta : T) : meth (T * T) ev4 :=
    MBand KRA (fun s e => raband_crit delta (fst s) (snd s) (e_ra e)).
  Definition spatialbox (delta : T) : meth (T * T) ev4 :=
    MBox sb_batch_size
         (fun s e => box_ra_crit delta (fst s) (snd s) (e_ra e))
         (fun s e => box_ra_crit_b delta (fst s) (snd s) (e_ra e))
         (fun s e => box_dec_crit delta (snd s) (e_dec e)).
  Definition angerrofpsi (a b fl : T) : meth (T * T) ev4 :=
    MPair (fun s e => angerr_crit a b fl (fst s) (snd s) (e_ra e) (e_dec e) (e_err e)).
End Crit.

(* ---- extension: utils/coords.angular_separation with its optional psi_floor argument
   (`if psi_floor is not None: psi = np.where(psi < psi_floor, psi_floor, psi)`) *)
Section AngsepFloor.
  Context {T : Type} (N : Num T).
  Definition angsep_floor (ra1 dec1 ra2 dec2 : T) (psi_floor : option T) : T :=
    let psi := angsep N ra1 dec1 ra2 dec2 in
    if as_has_floor (match psi_floor with None => None | Some _ => Some 0%Z end)
    then match psi_floor with Some f => as_floor N psi f | None => psi end
    else psi.
  (* the vectorised call: one value per (ra1, dec1, ra2, dec2) row *)
  Definition angsep_floor_list (rows : list (T * T * T * T)) (psi_floor : option T) : list T :=
    map (fun r => angsep_floor (fst (fst (fst r))) (snd (fst (fst r))) (snd (fst r)) (snd r) psi_floor) rows.
End AngsepFloor.
