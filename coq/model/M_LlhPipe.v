(* C01: the chain  PDF values -> PDF ratios -> (product) -> (source weighting)
   -> X_i -> log-likelihood-ratio value,  assembled from the pieces of M_Llh.v
   in the order in which ZeroSigH0SingleDatasetTCLLHRatio.evaluate calls them:
     SigOverBkgPDFRatio.get_ratio      (values array; background broadcast through evt_idxs)
     PDFRatioProduct.get_ratio         (binary, left-nested  ((r1*r2)*r3) )
     SourceWeightedPDFRatio.get_ratio  (optional)
     evaluate / calculate_log_lambda_and_grads.
   Definitions only; polymorphic in the number system. *)
From Coq Require Import ZArith List Bool.
From Sky Require Import Num G_llh M_Llh.
Import ListNotations.

Section Pipe.
  Context {T : Type} (Nm : Num T).

  (* one SigOverBkgPDFRatio: (zero_bkg_ratio_value, signal pd per value,
     background pd per selected event) *)
  Definition factor : Type := (T * list T * list T)%type.

  Definition factor_values (evt_idxs : list nat) (f : factor) : list T :=
    sob_ratios Nm (fst (fst f)) (snd (fst f)) (snd f) evt_idxs.

  (* r1 * r2 of two values arrays *)
  Definition prod_values (r1 r2 : list T) : list T :=
    map (fun p => prod_ratio Nm (fst p) (snd p)) (combine r1 r2).

  Definition factors_values (evt_idxs : list nat) (f0 : factor) (fs : list factor) : list T :=
    fold_left (fun acc f => prod_values acc (factor_values evt_idxs f)) fs
              (factor_values evt_idxs f0).

  Definition stacked_values (a_k : list T) (n_sel : nat) (src_idxs evt_idxs : list nat)
             (Rik : list T) : list T :=
    sw_ratio Nm a_k n_sel (combine (combine src_idxs evt_idxs) Rik).

  (* R_i as handed to evaluate *)
  Definition pipe_ratios (stacked : bool) (a_k : list T) (n_sel : nat)
             (src_idxs evt_idxs : list nat) (f0 : factor) (fs : list factor) : list T :=
    let Rik := factors_values evt_idxs f0 fs in
    if stacked then stacked_values a_k n_sel src_idxs evt_idxs Rik else Rik.

  Definition pipe_value (opa Ntot ns : T) (stacked : bool) (a_k : list T) (n_sel : nat)
             (src_idxs evt_idxs : list nat) (f0 : factor) (fs : list factor) : T :=
    evaluate_value Nm opa Ntot ns (pipe_ratios stacked a_k n_sel src_idxs evt_idxs f0 fs).
End Pipe.
