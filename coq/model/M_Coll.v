(* Model of skyllh/core/py.py: ObjectCollection / NamedObjectCollection
   (`_objects` list + `_obj_name_to_idx` OrderedDict, add, pop, copy, +, +=)
   over an explicit heap, so that "a + b is a fresh collection" and "the
   operands are unchanged" have content: an instance cell refers to a list
   cell and a dict cell; in-place mutators write those cells, `copy`
   allocates, `pop` re-binds the dict attribute to a newly built dict.
   Formulas (index arithmetic) come from the regenerated gen/G_coll.v.
   Also: DatasetCollection (dataset.py), a plain dict keyed by dataset name.
   Definitions only. *)
From Coq Require Import ZArith List Bool.
From Sky Require Import Result PyList G_coll.
Import ListNotations.
Open Scope Z_scope.

(* ------------------------------------------------------------------ *)
(* insertion-ordered dictionaries (dict / OrderedDict) with integer keys *)
Section OrdDict.
  Context {V : Type}.
  Definition od := list (Z * V).

  Fixpoint od_get (d : od) (k : Z) : option V :=
    match d with
    | [] => None
    | (k', v) :: t => if k' =? k then Some v else od_get t k
    end.

  (* d[k] = v : an existing key keeps its position, a new key goes last *)
  Fixpoint od_set (d : od) (k : Z) (v : V) : od :=
    match d with
    | [] => [(k, v)]
    | (k', v') :: t => if k' =? k then (k', v) :: t else (k', v') :: od_set t k v
    end.

  (* d.update(items) / OrderedDict(items): item assignment in sequence *)
  Definition od_update (d : od) (items : list (Z * V)) : od :=
    fold_left (fun acc kv => od_set acc (fst kv) (snd kv)) items d.
  Definition od_of (items : list (Z * V)) : od := od_update [] items.

  Definition od_keys (d : od) : list Z := map fst d.
  Definition od_mem (d : od) (k : Z) : bool :=
    match od_get d k with Some _ => true | None => false end.

  (* del d[k] *)
  Fixpoint od_del (d : od) (k : Z) : od :=
    match d with
    | [] => []
    | (k', v) :: t => if k' =? k then t else (k', v) :: od_del t k
    end.
End OrdDict.
Arguments od : clear implicits.

(* ------------------------------------------------------------------ *)
(* objects: identity, name, class.  Three classes are enough for every
   isinstance / issubclass outcome of the code: the collection's element
   type, a subclass of it, and an unrelated class. *)
Inductive cls := CBase | CDerived | CForeign.

(* issubclass a b *)
Definition issub (a b : cls) : bool :=
  match a, b with
  | CBase, CBase | CDerived, CBase | CDerived, CDerived | CForeign, CForeign => true
  | _, _ => false
  end.

Record obj := mkobj { oid : Z; oname : Z; ocls : cls }.

(* ------------------------------------------------------------------ *)
(* the heap *)
Inductive cell :=
| CInst (ty : cls) (lo : nat) (di : nat)   (* instance: obj_type, ref of _objects, ref of _obj_name_to_idx *)
| CList (l : list obj)
| CDict (d : od Z).
Definition heap := list cell.

Definition get_inst (h : heap) (i : nat) : option (cls * nat * nat) :=
  match nth_error h i with Some (CInst ty lo di) => Some (ty, lo, di) | _ => None end.
Definition get_list (h : heap) (l : nat) : option (list obj) :=
  match nth_error h l with Some (CList x) => Some x | _ => None end.
Definition get_dict (h : heap) (l : nat) : option (od Z) :=
  match nth_error h l with Some (CDict x) => Some x | _ => None end.

Definition put (h : heap) (l : nat) (c : cell) : heap := set_nth h l c.
Definition alloc (h : heap) (c : cell) : heap * nat := (h ++ [c], length h).

(* the three parts of a collection, when the instance is well formed *)
Definition view (h : heap) (i : nat) : option (cls * list obj * od Z) :=
  match get_inst h i with
  | Some (ty, lo, di) =>
      match get_list h lo, get_dict h di with
      | Some l, Some d => Some (ty, l, d)
      | _, _ => None
      end
  | None => None
  end.

(* NamedObjectCollection(obj_type=ty) *)
Definition noc_new (h : heap) (ty : cls) : heap * nat :=
  let (h1, lo) := alloc h (CList []) in
  let (h2, di) := alloc h1 (CDict []) in
  alloc h2 (CInst ty lo di).

(* ------------------------------------------------------------------ *)
(* _create_obj_name_to_idx_dict(start, end=None):
   OrderedDict([(o.name, start+idx) for (idx, o) in enumerate(self._objects[start:end])]) *)
Fixpoint enumerate_from {A} (i : Z) (l : list A) : list (Z * A) :=
  match l with
  | [] => []
  | a :: t => (i, a) :: enumerate_from (i + 1) t
  end.

Definition create_idx (l : list obj) (start : Z) : od Z :=
  let sl := skipn (Z.to_nat (cidx_slice_lo start)) l in      (* start >= 0 always *)
  od_of (map (fun p => (cidx_key (oname (snd p)), cidx_value start (fst p)))
             (enumerate_from 0 sl)).

(* what can stand on the right of add / += / + *)
Inductive operand :=
| OpObj (o : obj)          (* one object (of any class; None/int behave like a foreign object) *)
| OpSeq (s : list obj)     (* a Python list / tuple *)
| OpColl (j : nat).        (* another collection *)

(* ObjectCollection.add: the objects appended, or TypeError *)
Definition oc_add_objs (h : heap) (ty : cls) (x : operand) : res (list obj) :=
  match x with
  | OpSeq s =>
      (* obj = ObjectCollection(obj): its obj_type is the class of the first
         element, every element must be an instance of it; for an empty
         sequence obj_type = type(obj) = list, never a subclass of ty *)
      match s with
      | [] => Err TypeError
      | o0 :: _ =>
          if forallb (fun o => issub (ocls o) (ocls o0)) s
          then if issub (ocls o0) ty then Ok s else Err TypeError
          else Err TypeError
      end
  | OpColl j =>
      match get_inst h j with
      | Some (tyj, loj, _) =>
          match get_list h loj with
          | Some lj => if issub tyj ty then Ok lj else Err TypeError
          | None => Err AttributeError
          end
      | None => Err AttributeError
      end
  | OpObj o => if issub (ocls o) ty then Ok [o] else Err TypeError
  end.

(* NamedObjectCollection.add  (also __iadd__) *)
Definition noc_add (h : heap) (i : nat) (x : operand) : heap * res unit :=
  match get_inst h i with
  | Some (ty, lo, di) =>
      match get_list h lo, get_dict h di with
      | Some l, Some d =>
          let n_objs := add_n_objs (zlen l) in
          match oc_add_objs h ty x with
          | Err e => (h, Err e)
          | Ok news =>
              (* self._objects.extend(...) / append: in place *)
              let l1 := l ++ news in
              let h1 := put h lo (CList l1) in
              (* self._obj_name_to_idx.update(...): in place *)
              (put h1 di (CDict (od_update d (create_idx l1 (add_start n_objs)))), Ok tt)
          end
      | _, _ => (h, Err AttributeError)
      end
  | None => (h, Err AttributeError)
  end.

(* list.pop(index) *)
Definition py_pop {A} (l : list A) (i : Z) : res (A * list A) :=
  let n := zlen l in
  let j := if i <? 0 then i + n else i in
  if (j <? 0) || (n <=? j) then Err IndexError
  else match nth_error l (Z.to_nat j) with
       | Some a => Ok (a, firstn (Z.to_nat j) l ++ skipn (S (Z.to_nat j)) l)
       | None => Err IndexError
       end.

Inductive popkey := PNone | PIdx (i : Z) | PName (n : Z).

(* NamedObjectCollection.pop *)
Definition noc_pop (h : heap) (i : nat) (k : popkey) : heap * res obj :=
  match get_inst h i with
  | Some (ty, lo, di) =>
      match get_list h lo, get_dict h di with
      | Some l, Some d =>
          let index :=
            match k with
            | PName n => match od_get d (index_by_name_idx0 n) with
                         | Some ix => Ok (npop_name_lookup ix)
                         | None => Err KeyError
                         end
            | PIdx ix => Ok ix
            | PNone => Ok (pop_default_index (zlen l))
            end in
          match index with
          | Err e => (h, Err e)
          | Ok ix =>
              match py_pop l ix with
              | Err e => (h, Err e)
              | Ok (o, l') =>
                  let h1 := put h lo (CList l') in
                  (* self._obj_name_to_idx = self._create_obj_name_to_idx_dict():
                     the attribute is re-bound to a NEW dict *)
                  let (h2, dn) := alloc h1 (CDict (create_idx l' cidx_start_default)) in
                  (put h2 i (CInst ty lo dn), Ok o)
              end
          end
      | _, _ => (h, Err AttributeError)
      end
  | None => (h, Err AttributeError)
  end.

(* NamedObjectCollection.copy: copy.copy(self), then _objects and
   _obj_name_to_idx are replaced by shallow copies (the objects are shared) *)
Definition noc_copy (h : heap) (i : nat) : heap * res nat :=
  match get_inst h i with
  | Some (ty, lo, di) =>
      match get_list h lo, get_dict h di with
      | Some l, Some d =>
          let (h1, lo') := alloc h (CList l) in
          let (h2, di') := alloc h1 (CDict d) in
          let (h3, c) := alloc h2 (CInst ty lo' di') in
          (h3, Ok c)
      | _, _ => (h, Err AttributeError)
      end
  | None => (h, Err AttributeError)
  end.

(* __add__: oc = self.copy(); oc.add(other); return oc *)
Definition noc_plus (h : heap) (i : nat) (x : operand) : heap * res nat :=
  match noc_copy h i with
  | (h1, Err e) => (h1, Err e)
  | (h1, Ok c) =>
      match noc_add h1 c x with
      | (h2, Err e) => (h2, Err e)
      | (h2, Ok _) => (h2, Ok c)
      end
  end.

(* NamedObjectCollection(objs=[...], obj_type=ty): ObjectCollection.__init__
   adds the given objects one by one through self.add; a rejected object
   raises out of the constructor, no collection comes into existence (the
   cells allocated so far are garbage) *)
Fixpoint add_each (h : heap) (c : nat) (s : list obj) : heap * res unit :=
  match s with
  | [] => (h, Ok tt)
  | o :: t => match noc_add h c (OpObj o) with
              | (h', Ok _) => add_each h' c t
              | (h', Err e) => (h', Err e)
              end
  end.

Definition noc_new_from (h : heap) (ty : cls) (s : list obj) : heap * res nat :=
  let (h1, c) := noc_new h ty in
  match add_each h1 c s with
  | (h2, Ok _) => (h2, Ok c)
  | (h2, Err e) => (h2, Err e)
  end.

(* ------------------------------------------------------------------ *)
(* accessors *)
Definition noc_len (h : heap) (i : nat) : res Z :=
  match view h i with Some (_, l, _) => Ok (zlen l) | None => Err AttributeError end.

Definition noc_name_list (h : heap) (i : nat) : res (list Z) :=
  match view h i with Some (_, _, d) => Ok (od_keys d) | None => Err AttributeError end.

Definition noc_index_by_name (h : heap) (i : nat) (n : Z) : res Z :=
  match view h i with
  | Some (_, _, d) => match od_get d (index_by_name_idx0 n) with
                      | Some ix => Ok ix | None => Err KeyError end
  | None => Err AttributeError
  end.

Definition noc_contains (h : heap) (i : nat) (n : Z) : res bool :=
  match view h i with Some (_, _, d) => Ok (od_mem d n) | None => Err AttributeError end.

(* c[name] *)
Definition noc_getitem_name (h : heap) (i : nat) (n : Z) : res obj :=
  match view h i with
  | Some (_, l, d) => match od_get d (index_by_name_idx0 n) with
                      | Some ix => py_get l ix | None => Err KeyError end
  | None => Err AttributeError
  end.

(* c[int] *)
Definition noc_getitem_idx (h : heap) (i : nat) (ix : Z) : res obj :=
  match view h i with Some (_, l, _) => py_get l ix | None => Err AttributeError end.

(* ------------------------------------------------------------------ *)
(* histories *)
Inductive op :=
| ONew (ty : cls)
| ONewSeq (ty : cls) (s : list obj)   (* NamedObjectCollection(objs=s, obj_type=ty) *)
| OAdd (i : nat) (x : operand)      (* c.add(x), c += x *)
| OPop (i : nat) (k : popkey)
| OPlus (i : nat) (x : operand).    (* c + x *)

Inductive retval := RNone | RObj (o : obj) | RLoc (c : nat).

Definition step (h : heap) (o : op) : heap * res retval :=
  match o with
  | ONew ty => let (h', c) := noc_new h ty in (h', Ok (RLoc c))
  | ONewSeq ty s => match noc_new_from h ty s with
                    | (h', Ok c) => (h', Ok (RLoc c)) | (h', Err e) => (h', Err e) end
  | OAdd i x => match noc_add h i x with
                | (h', Ok _) => (h', Ok RNone) | (h', Err e) => (h', Err e) end
  | OPop i k => match noc_pop h i k with
                | (h', Ok o) => (h', Ok (RObj o)) | (h', Err e) => (h', Err e) end
  | OPlus i x => match noc_plus h i x with
                 | (h', Ok c) => (h', Ok (RLoc c)) | (h', Err e) => (h', Err e) end
  end.

(* a history continues after an operation that raised *)
Definition run (h : heap) (ops : list op) : heap :=
  fold_left (fun h o => fst (step h o)) ops h.

(* the name index a list of objects should have: pairs (name, position) *)
Definition names (l : list obj) : list Z := map oname l.
Definition enum_names (start : Z) (l : list obj) : list (Z * Z) :=
  map (fun p => (oname (snd p), fst p)) (enumerate_from start l).

(* ------------------------------------------------------------------ *)
(* DatasetCollection (dataset.py): `_datasets`, a dict keyed by dataset name *)
Definition dsc := od obj.

(* add_datasets: one dataset or a sequence; a rejected element raises after
   the earlier elements of the sequence were stored *)
Fixpoint dsc_add (c : dsc) (ds : list obj) : dsc * res unit :=
  match ds with
  | [] => (c, Ok tt)
  | o :: t =>
      if negb (issub (ocls o) CBase) then (c, Err TypeError)
      else if dsc_dup_check (oname o) (od_keys c) then (c, Err KeyError)
      else dsc_add (od_set c (oname o) o) t
  end.

Definition dsc_remove (c : dsc) (n : Z) : dsc * res unit :=
  if od_mem c n then (od_del c n, Ok tt) else (c, Err KeyError).

Definition dsc_get (c : dsc) (n : Z) : res obj :=
  match od_get c n with Some o => Ok o | None => Err KeyError end.

Inductive dop := DAdd (ds : list obj) | DRemove (n : Z).
Definition dstep (c : dsc) (o : dop) : dsc * res unit :=
  match o with DAdd ds => dsc_add c ds | DRemove n => dsc_remove c n end.
Definition drun (c : dsc) (ops : list dop) : dsc :=
  fold_left (fun c o => fst (dstep c o)) ops c.

(* ------------------------------------------------------------------ *)
(* exploration of ALL histories over a small alphabet, for the
   correspondence: three collection variables x y z (as in
   `x, y, z = x + o, x, y`), objects 0..4 named 0..4.  The enumeration
   itself (alphabet, order) is mirrored by harness/c20.py. *)
Record vars := mkvars { vx : nat; vy : nat; vz : nat }.

Inductive xop :=
| XAdd (o : obj)            (* x.add(o) *)
| XPop (k : popkey)         (* x.pop(k) *)
| XIaddY                    (* x += y *)
| XIaddX                    (* x += x *)
| XIaddSeq (s : list obj)   (* x += [..] *)
| XPlusO (o : obj)          (* x, y, z = x + o, x, y *)
| XPlusY                    (* x, y, z = x + y, x, y *)
| XPlusX                    (* x, y, z = x + x, x, y *)
| XPlusSeq (s : list obj)   (* x, y, z = x + [..], x, y *)
| XRot                      (* x, y, z = y, z, x *)
| XNewSeq (s : list obj).   (* x, y, z = NamedObjectCollection(s, obj_type=Base), x, y *)

Definition errcode (e : err) : Z :=
  match e with
  | IndexError => 1 | KeyError => 2 | TypeError => 3 | ValueError => 4
  | AttributeError => 5 | _ => 9
  end.

Definition shift (v : vars) (c : nat) : vars := mkvars c (vx v) (vy v).

(* result code: 0 = returned None/self, 100 + oid = returned that object,
   50 = returned a new collection, -code = raised *)
Definition xstep (h : heap) (v : vars) (o : xop) : heap * vars * Z :=
  let addlike x := match noc_add h (vx v) x with
                   | (h', Ok _) => (h', v, 0) | (h', Err e) => (h', v, - errcode e) end in
  let pluslike x := match noc_plus h (vx v) x with
                    | (h', Ok c) => (h', shift v c, 50) | (h', Err e) => (h', v, - errcode e) end in
  match o with
  | XAdd ob => addlike (OpObj ob)
  | XPop k => match noc_pop h (vx v) k with
              | (h', Ok ob) => (h', v, 100 + oid ob) | (h', Err e) => (h', v, - errcode e) end
  | XIaddY => addlike (OpColl (vy v))
  | XIaddX => addlike (OpColl (vx v))
  | XIaddSeq s => addlike (OpSeq s)
  | XPlusO ob => pluslike (OpObj ob)
  | XPlusY => pluslike (OpColl (vy v))
  | XPlusX => pluslike (OpColl (vx v))
  | XPlusSeq s => pluslike (OpSeq s)
  | XRot => (h, mkvars (vy v) (vz v) (vx v), 0)
  | XNewSeq s => match noc_new_from h CBase s with
                 | (h', Ok c) => (h', shift v c, 50) | (h', Err e) => (h', v, - errcode e) end
  end.

(* canonical observation of one collection: length, object ids in order,
   name_list, and for every name 0..4: get_index_by_name (or -1), the id of
   c[name] (or -1 KeyError, -2 IndexError) *)
Definition res_code {A} (f : A -> Z) (r : res A) : Z :=
  match r with Ok a => f a | Err e => - errcode e end.

Definition obs_coll (h : heap) (i : nat) : list Z :=
  match view h i with
  | Some (_, l, d) =>
      zlen l :: map oid l ++ [-7] ++ od_keys d ++ [-7]
      ++ flat_map (fun n => [res_code (fun z => z) (noc_index_by_name h i n);
                             res_code oid (noc_getitem_name h i n)])
                  [0; 1; 2; 3; 4]
  | None => [-99]
  end.

Definition b2z (b : bool) : Z := if b then 1 else 0.

(* identity / sharing between the three variables *)
Definition obs_share (h : heap) (v : vars) : list Z :=
  let pr a b :=
    match get_inst h a, get_inst h b with
    | Some (_, la, da), Some (_, lb, db) =>
        [b2z (Nat.eqb a b); b2z (Nat.eqb la lb); b2z (Nat.eqb da db)]
    | _, _ => [-99]
    end in
  pr (vx v) (vy v) ++ pr (vx v) (vz v) ++ pr (vy v) (vz v).

Definition obs_all (h : heap) (v : vars) (rc : Z) : list Z :=
  rc :: obs_coll h (vx v) ++ [-8] ++ obs_coll h (vy v) ++ [-8] ++ obs_coll h (vz v)
     ++ [-8] ++ obs_share h v.

(* multiplicative hash modulo 2^31 (odd multiplier as the first factor: Z.mul
   recurses on it; the mask is a land, both cheap under vm_compute) *)
Definition digest_mask : Z := 2147483647.
Definition digest_step (acc z : Z) : Z := Z.land (65599 * acc + z + 1000) digest_mask.
Definition digest (l : list Z) : Z := fold_left digest_step l 17.

Definition ob (k : Z) : obj := mkobj k k CBase.

(* the alphabet after `used` distinct objects were introduced; `wide`
   adds negative / out-of-range indices, unknown names, x += x, sequences *)
Definition zrange (n : Z) : list Z := map Z.of_nat (seq 0 (Z.to_nat n)).

Definition alphabet (wide : bool) (used : Z) : list xop :=
  let m := Z.min (used + 1) 5 in
  map (fun k => XAdd (ob k)) (zrange m)
  ++ [XPop PNone; XPop (PIdx 0); XPop (PIdx 1)]
  ++ (if wide then [XPop (PIdx (-2)); XPop (PIdx 9); XPop (PIdx (-9))] else [])
  ++ map (fun k => XPop (PName k)) (zrange (if wide then m else Z.min used 5))
  ++ [XIaddY]
  ++ (if wide then [XIaddX; XIaddSeq [ob (Z.min used 4); ob (Z.min (used + 1) 4)]; XIaddSeq []] else [])
  ++ map (fun k => XPlusO (ob k)) (if wide then zrange m else if used =? 0 then [0] else [0; Z.min used 4])
  ++ [XPlusY]
  ++ (if wide then [XPlusX; XPlusSeq [ob 0; ob (Z.min used 4)]] else [])
  ++ [XRot].

(* number of distinct objects introduced after the operation *)
Definition used_after (used : Z) (o : xop) : Z :=
  let mx l := fold_left Z.max (map (fun ob => oid ob + 1) l) used in
  Z.min 5 (match o with
           | XAdd ob | XPlusO ob => mx [ob]
           | XIaddSeq s | XPlusSeq s | XNewSeq s => mx s
           | _ => used
           end).

(* digests of all nodes of the history tree below (h, v), depth-first *)
Fixpoint explore (wide : bool) (depth : nat) (h : heap) (v : vars) (used : Z) (rc : Z)
  : list Z :=
  digest (obs_all h v rc) ::
  match depth with
  | O => []
  | S d => flat_map (fun o => let '(h', v', rc') := xstep h v o in
                              explore wide d h' v' (used_after used o) rc')
                    (alphabet wide used)
  end.

Definition init_state : heap * vars :=
  let (h1, a) := noc_new [] CBase in
  let (h2, b) := noc_new h1 CBase in
  let (h3, c) := noc_new h2 CBase in
  (h3, mkvars a b c).

(* run a prefix, then explore: (state digest of the subtree, number of nodes) *)
Definition run_x (ops : list xop) : heap * vars * Z * Z :=
  fold_left (fun st o => let '(h, v, used, _) := st in
                         let '(h', v', rc) := xstep h v o in (h', v', used_after used o, rc))
            ops (fst init_state, snd init_state, 0, 0).

Definition explore_from (wide : bool) (depth : nat) (ops : list xop) : Z * Z :=
  let '(h, v, used, rc) := run_x ops in
  let ds := explore wide depth h v used rc in
  (digest ds, zlen ds).

(* full observations along one explicit history *)
Definition trace_x (ops : list xop) : list (list Z) :=
  let '(h0, v0) := init_state in
  snd (fold_left (fun st o => let '(h, v, acc) := st in
                              let '(h', v', rc) := xstep h v o in
                              (h', v', acc ++ [obs_all h' v' rc]))
                 ops (h0, v0, [obs_all h0 v0 0])).

(* ------------------------------------------------------------------ *)
(* Extension: ModelCollection.cast(obj) (model.py).  None -> empty collection;
   a Model -> collection holding it; a ModelCollection -> THAT collection (the
   same object, no copy); a sequence of Models -> new collection of them;
   anything else -> TypeError.  "Model" is the class CBase here. *)
Inductive castarg := CNone | CObj (o : obj) | CColl (j : nat) | CSeq (s : list obj) | COther.

Definition mc_cast (h : heap) (a : castarg) : heap * res nat :=
  match a with
  | CNone => noc_new_from h CBase []
  | CObj o =>
      if cast_is_model (issub (ocls o) CBase) then noc_new_from h CBase [o]
      else (h, Err TypeError)       (* not a collection, not a sequence *)
  | CColl j =>
      if cast_is_collection (match get_inst h j with Some _ => true | None => false end)
      then (h, Ok j) else (h, Err TypeError)
  | CSeq s =>
      if cast_is_seq_of_models (forallb (fun o => issub (ocls o) CBase) s)
      then noc_new_from h CBase s else (h, Err TypeError)
  | COther => (h, Err TypeError)
  end.

Definition cast_objs (a : castarg) : list obj :=
  match a with CObj o => [o] | CSeq s => s | _ => [] end.

(* correspondence: run a history on x, y, z, then cast; 1 = the very collection x
   came back, 2 = a new one; then the observation of the result and of x *)
Inductive xcast := KNone | KObj (o : obj) | KX | KSeq (s : list obj) | KOther.

Definition cast_trace (ops : list xop) (k : xcast) : list Z :=
  let '(h, v, _, _) := run_x ops in
  let a := match k with
           | KNone => CNone | KObj o => CObj o | KX => CColl (vx v) | KSeq s => CSeq s | KOther => COther
           end in
  match mc_cast h a with
  | (h', Ok c) => (if Nat.eqb c (vx v) then 1 else 2) :: obs_coll h' c ++ [-8] ++ obs_coll h' (vx v)
  | (_, Err e) => [- errcode e]
  end.
