(* C02 — the bookkeeping that attaches a derivative to a global fit parameter.

   Producer  skyllh/core/parameters.py  ParameterModelMapper.map_param,
             create_src_params_recarray  (the <name>:gpidx fields, the values)
   Consumers ParameterModelMapper.is_global_fitparam_a_local_param,
             SplinedI3EnergySigSetOverBkgPDFRatio.get_gradient and
             SignalMultiDimGridPDFSet.get_pd (interpolation-parameter matching),
             TrialDataManager.get_values_mask_for_source_mask,
             SingleParamFluxPointLikeSourceI3DetSigYield.__call__ (gradient keys),
             SrcDetSigYieldWeightsService.calculate, DatasetSignalWeightFactorsService
             .calculate (a_jk_grads / f_j_grads keys), SourceWeightedPDFRatio.get_gradient,
             the column arithmetic of ZeroSigH0SingleDatasetTCLLHRatio.evaluate and
             MultiDatasetTCLLHRatio.evaluate.
   Every comparison / offset is a kernel of the regenerated gen/G_layout.v.
   Local parameter names and global parameter names are integers; parameter values
   are of an arbitrary type V (Z for execution, R for the chain rule).
   All models of the mapper are source models (the non-source case is C04's).
   Definitions only. *)
From Coq Require Import ZArith List Bool.
From Sky Require Import Result PyList G_layout.
Import ListNotations.
Open Scope Z_scope.

Section Layout.
  Context {V : Type}.

  (* one successful or failing map_param(param, models, model_param_names) call:
     the Parameter (name, isfixed, value) and the result of
     np.where(mask, model_param_names, None): per model Some local-name | None *)
  Record gdecl := mkG { g_name : Z; g_fixed : bool; g_val : V; g_names : list (option Z) }.

  (* the mapper: number of models and the accepted declarations, in order
     (column c of _model_param_names = g_names of the c-th declaration) *)
  Record mapper := mkM { m_nmodels : nat; m_decls : list gdecl }.

  Definition is_some {A} (o : option A) : bool := match o with Some _ => true | None => false end.
  Fixpoint somes {A} (l : list (option A)) : list A :=
    match l with [] => [] | Some a :: r => a :: somes r | None :: r => somes r end.

  (* _model_param_names[midx] *)
  Definition mrow (decls : list gdecl) (midx : nat) : list (option Z) :=
    map (fun d => match nth_error (g_names d) midx with Some o => o | None => None end) decls.

  Definition zmem (x : Z) (l : list Z) : bool := existsb (Z.eqb x) l.

  (* "Check that the model parameter name is not already defined for any of the
     given to-be-mapped models." *)
  Fixpoint dup_check (decls : list gdecl) (names : list (option Z)) (midx : nat) : bool :=
    match names with
    | [] => false
    | None :: r => dup_check decls r (S midx)
    | Some nm :: r => zmem nm (somes (mrow decls midx)) || dup_check decls r (S midx)
    end.

  (* map_param; ParameterSet.add_param raises KeyError for a known global name *)
  Definition map_param (m : mapper) (d : gdecl) : res mapper :=
    if negb (Nat.eqb (length (g_names d)) (m_nmodels m)) then Err ValueError
    else if negb (existsb is_some (g_names d)) then Err ValueError
    else if dup_check (m_decls m) (g_names d) 0 then Err KeyError
    else if zmem (g_name d) (map g_name (m_decls m)) then Err KeyError
    else Ok (mkM (m_nmodels m) (m_decls m ++ [d])).

  Fixpoint build_from (m : mapper) (ds : list gdecl) : res mapper :=
    match ds with
    | [] => Ok m
    | d :: r => do m' <- map_param m d; build_from m' r
    end.
  Definition build (nmodels : nat) (ds : list gdecl) : res mapper := build_from (mkM nmodels []) ds.

  (* ---- the global parameter set *)
  Definition fl_mask (decls : list gdecl) : list bool := map (fun d => negb (g_fixed d)) decls.
  Definition fx_mask (decls : list gdecl) : list bool := map g_fixed decls.
  Definition n_floating (decls : list gdecl) : Z := zlen (filter (fun d => negb (g_fixed d)) decls).
  Definition fixed_values (decls : list gdecl) : list V := map g_val (filter g_fixed decls).
  Definition floating_names (decls : list gdecl) : list Z :=
    map g_name (filter (fun d => negb (g_fixed d)) decls).

  (* get_gflp_idx(name) *)
  Fixpoint index_of (x : Z) (l : list Z) (i : Z) : option Z :=
    match l with [] => None | y :: r => if x =? y then Some i else index_of x r (i + 1) end.
  Definition get_gflp_idx (decls : list gdecl) (name : Z) : res Z :=
    match index_of name (floating_names decls) 0 with Some i => Ok i | None => Err KeyError end.

  (* ---- numpy idioms *)
  (* a[mask] for a boolean mask of the same length *)
  Fixpoint select {A} (l : list A) (m : list bool) : list A :=
    match l, m with
    | a :: l', true :: m' => a :: select l' m'
    | _ :: l', false :: m' => select l' m'
    | _, _ => []
    end.
  Fixpoint andm (a b : list bool) : list bool :=
    match a, b with x :: a', y :: b' => (x && y) :: andm a' b' | _, _ => [] end.
  Definition b2z (b : bool) : Z := if b then 1 else 0.
  Fixpoint arange_from (i : Z) (n : nat) : list Z :=
    match n with O => [] | S k => i :: arange_from (i + 1) k end.

  (* one cell of the record array: (value | NaN, <name>:gpidx) *)
  Definition cell := (option V * Z)%type.
  Definition cell0 : cell := (None, 0).

  (* the loop `for (name, value, gpidx) in zip(...)`: recarray[name][i] = value ... ;
     a later assignment to the same field wins *)
  Fixpoint last_assigned (asg : list (Z * (V * Z))) (name : Z) (acc : cell) : cell :=
    match asg with
    | [] => acc
    | (n, (v, g)) :: r => last_assigned r name (if n =? name then (Some v, g) else acc)
    end.

  (* the assignments of one source row, exactly in the shape of the code:
     three concatenations built separately, then zipped *)
  Definition row_assignments (decls : list gdecl) (vec : list V) (smidx : nat) : list (Z * (V * Z)) :=
    let row := mrow decls smidx in
    let gp := map is_some row in                      (* src_gp_mask *)
    let fl := fl_mask decls in
    let fx := fx_mask decls in
    let names := somes (select row (andm fl gp)) ++ somes (select row (andm fx gp)) in
    let values := select vec (select gp fl) ++ select (fixed_values decls) (select gp fx) in
    let gflp_idxs := map lk_gflp_idx (cumsum (map b2z fl)) in
    let gpidxs := arange_from 0 (length decls) in
    let idxs := map lk_gpidx_fl (select gflp_idxs (andm fl gp))
                ++ map lk_gpidx_fx (select gpidxs (andm fx gp)) in
    combine names (combine values idxs).

  (* np.unique of the local names of all (source) models *)
  Definition all_names (m : mapper) : list Z :=
    flat_map (fun d => somes (g_names d)) (m_decls m).
  Definition has_field (m : mapper) (name : Z) : bool := zmem name (all_names m).

  (* create_src_params_recarray(gflp_values): the record array as a lookup
     source index -> local name -> cell (fields that do not exist are asked for
     with has_field) *)
  Record recarray := mkRec { r_map : mapper; r_asg : list (list (Z * (V * Z))) }.

  Definition create_src_params_recarray (m : mapper) (vec : list V) : res recarray :=
    if lk_len_bad (n_floating (m_decls m)) (zlen vec) then Err ValueError
    else Ok (mkRec m (map (row_assignments (m_decls m) vec) (seq 0 (m_nmodels m)))).

  Definition rcell (r : recarray) (s : nat) (name : Z) : cell :=
    match nth_error (r_asg r) s with
    | Some asg => last_assigned asg name cell0
    | None => cell0
    end.
  (* recarray[f'{name}:gpidx'] and recarray[name] as arrays over the sources *)
  Definition col_gpidx (r : recarray) (name : Z) : list Z :=
    map (fun s => snd (rcell r s name)) (seq 0 (length (r_asg r))).
  Definition col_value (r : recarray) (name : Z) : list (option V) :=
    map (fun s => fst (rcell r s name)) (seq 0 (length (r_asg r))).

  (* ---- consumers *)
  (* ParameterModelMapper.is_global_fitparam_a_local_param *)
  Definition is_gfp_local (r : recarray) (fid : Z) (names : list Z) : bool :=
    existsb (fun nm => has_field (r_map r) nm && existsb (lk_is_local fid) (col_gpidx r nm)) names.

  Definition count_true (m : list bool) : Z := zlen (filter id m).

  (* the matching loop of SplinedI3EnergySigSetOverBkgPDFRatio.get_gradient:
     per interpolation parameter (index pidx, name) either the whole gradient
     array is returned, or a source mask is applied on top of what is there *)
  Inductive matched :=
  | MAll (pidx : nat)                         (* return grads[pidx] *)
  | MParts (parts : list (nat * list bool)).  (* grad[values_mask(src_mask)] = grads[pidx][...] in order *)

  Fixpoint i3_match_loop (r : recarray) (fid : Z) (pnames : list Z) (pidx : nat)
           (acc : list (nat * list bool)) : matched :=
    match pnames with
    | [] => MParts (rev acc)
    | nm :: rest =>
        if negb (has_field (r_map r) nm) then i3_match_loop r fid rest (S pidx) acc
        else
          let src_mask := map (fun g => lk_i3_match g fid) (col_gpidx r nm) in
          let n := count_true src_mask in
          if lk_i3_none n then i3_match_loop r fid rest (S pidx) acc
          else if lk_i3_all n (zlen (r_asg r)) then MAll pidx
          else i3_match_loop r fid rest (S pidx) ((pidx, src_mask) :: acc)
    end.
  Definition i3_match r fid pnames := i3_match_loop r fid pnames 0 [].

  (* SignalMultiDimGridPDFSet.get_pd: the same loop with `break`; the key
     fitparam_id is only stored when some parameter contributed *)
  Fixpoint sig_match_loop (r : recarray) (fid : Z) (pnames : list Z) (pidx : nat)
           (acc : list (nat * list bool)) : matched :=
    match pnames with
    | [] => MParts (rev acc)
    | nm :: rest =>
        if negb (has_field (r_map r) nm) then sig_match_loop r fid rest (S pidx) acc
        else
          let src_mask := map (fun g => lk_sig_match g fid) (col_gpidx r nm) in
          let n := count_true src_mask in
          if lk_sig_none n then sig_match_loop r fid rest (S pidx) acc
          else if lk_sig_all n (zlen (r_asg r)) then MAll pidx
          else sig_match_loop r fid rest (S pidx) ((pidx, src_mask) :: acc)
    end.
  Definition sig_contributes (mt : matched) : bool :=
    match mt with MAll _ => true | MParts [] => false | MParts _ => true end.
  (* keys of the grads dict returned by get_pd *)
  Definition sig_keys (r : recarray) (pnames : list Z) : list Z :=
    filter (fun fid => sig_contributes (sig_match_loop r fid pnames 0 []))
           (arange_from 0 (Z.to_nat (n_floating (m_decls (r_map r))))).

  (* TrialDataManager.get_values_mask_for_source_mask; val_src = src_evt_idxs[0] *)
  Definition values_mask (src_mask : list bool) (val_src : list Z) : list bool :=
    let src_idxs := select (arange_from 0 (length src_mask)) src_mask in
    fold_left (fun vm k => map (fun p => lk_vmask (fst p) (snd p) k) (combine vm val_src))
              src_idxs (map (fun _ => false) val_src).

  (* SingleParamFluxPointLikeSourceI3DetSigYield.__call__ on the slice [lo, lo+n)
     of the sources: np.unique (sorted, distinct), > 0, - 1; per key the source mask *)
  Fixpoint insert_uniq (x : Z) (l : list Z) : list Z :=
    match l with
    | [] => [x]
    | y :: r => if x <? y then x :: l else if x =? y then l else y :: insert_uniq x r
    end.
  Definition np_unique (l : list Z) : list Z := fold_right insert_uniq [] l.

  Definition slice {A} (l : list A) (lo n : nat) : list A := firstn n (skipn lo l).

  Definition dsy_keys (gp : list Z) : list Z :=
    map lk_dsy_key (filter lk_dsy_pos (np_unique gp)).
  Definition dsy_mask (gp : list Z) (key : Z) : list bool := map (fun g => lk_dsy_mask g key) gp.

  (* SrcDetSigYieldWeightsService.calculate: groups = (number of sources, local
     name the yield depends on | None) in shg order; result: per key the mask
     over ALL sources of the entries that are written (a_jk_grads[key][ds, slice]) *)
  Fixpoint a_grad_keys_from (r : recarray) (groups : list (nat * option Z)) (sidx : Z)
    : res (list (Z * (nat * list bool))) :=      (* (key, (slice start, mask in the slice)) *)
    match groups with
    | [] => Ok []
    | (n, None) :: rest => a_grad_keys_from r rest (lk_slice_next sidx (Z.of_nat n))
    | (n, Some nm) :: rest =>
        if negb (has_field (r_map r) nm) then Err ValueError    (* no field of that name *)
        else
          let gp := slice (col_gpidx r nm) (Z.to_nat sidx) (Z.to_nat (lk_slice_hi sidx (Z.of_nat n) - sidx)) in
          do tl <- a_grad_keys_from r rest (lk_slice_next sidx (Z.of_nat n));
          Ok (map (fun k => (k, (Z.to_nat sidx, dsy_mask gp k))) (dsy_keys gp) ++ tl)
    end.
  Definition a_grad_keys (r : recarray) (groups : list (nat * option Z)) :=
    a_grad_keys_from r groups 0.

  (* the dictionary keys in insertion order, without repetition *)
  Fixpoint dedup (l : list Z) : list Z :=
    match l with [] => [] | x :: r => x :: filter (fun y => negb (y =? x)) (dedup r) end.
  Definition dict_keys (kms : list (Z * (nat * list bool))) : list Z := dedup (map fst kms).

  (* MultiDatasetTCLLHRatio.evaluate: f_grads[:, pidx] = f_grads_dict[pidx] on an
     array with n_fitparams columns (numpy: negative indices wrap) *)
  Definition f_grads_cols (n_fitparams : Z) (keys : list Z) : res (list Z) :=
    mapM (fun k => if (k <? - n_fitparams) || (n_fitparams <=? k) then Err IndexError
                   else Ok (if k <? 0 then k + n_fitparams else k)) keys.

  (* SourceWeightedPDFRatio.get_gradient: does the a_k gradient exist for fid *)
  Definition sw_has_key (keys : list Z) (fid : Z) : bool := negb (lk_sw_nokey fid keys).

  (* ZeroSigH0SingleDatasetTCLLHRatio.evaluate / calculate_log_lambda_and_grads:
     the fit parameter ids in the order of the dXi_dp columns, the number of
     columns, the length of the returned gradient vector *)
  Definition p_fids (n_fitparams ns_pidx : Z) : list Z :=
    filter (fun i => negb (i =? ns_pidx)) (arange_from 0 (Z.to_nat n_fitparams)).
  Definition grads_len (n_fitparams : Z) : Z := lk_ngrads (lk_ncols n_fitparams).

  (* everything the harness observes for one layout, as plain data:
     the record array, the consumers' decisions for every fit parameter id *)
  Definition observe (m : mapper) (vec : list V) (groups : list (nat * option Z))
             (pnames : list (list Z)) (val_src : list Z) :=
    do r <- create_src_params_recarray m vec;
    let nfl := n_floating (m_decls m) in
    let fids := arange_from 0 (Z.to_nat nfl) in
    let names := np_unique (all_names m) in
    do kms <- a_grad_keys r groups;
    do cols <- f_grads_cols nfl (dict_keys kms);
    Ok (names,
        map (fun nm => (col_value r nm, col_gpidx r nm)) names,
        map (fun fid => map (fun pn => (is_gfp_local r fid pn,
                                        match i3_match r fid pn with
                                        | MAll p => (true, [(p, [])])
                                        | MParts ps => (false, map (fun q => (fst q, values_mask (snd q) val_src)) ps)
                                        end)) pnames) fids,
        map (fun pn => map (fun fid =>
               match sig_match_loop r fid pn 0 [] with
               | MAll p => (true, (true, [(p, [])]))
               | MParts ps => (sig_contributes (MParts ps), (false, map (fun q => (fst q, values_mask (snd q) val_src)) ps))
               end) fids) pnames,
        kms, cols, get_gflp_idx (m_decls m) 0, grads_len nfl).
End Layout.
