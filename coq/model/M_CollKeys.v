(* Model of
     skyllh/core/py.py        make_dict_hash          (after fix 4cb0b3a)
     skyllh/core/pdf.py       PDFSet.add_pdf / get_pdf / __contains__ / make_key
     skyllh/core/datafields.py DataFieldStages.and_check / or_check,
                               DataFields.get_joint_names
   Dictionaries are insertion-ordered association lists (`od` of M_Coll).
   `hash(frozenset(d.items()))` is a function of the SET of items: it is
   modelled as an abstract function H applied to the canonical (sorted)
   listing of the items.  Definitions only. *)
From Coq Require Import ZArith List Bool.
From Sky Require Import Result PyList G_coll M_Coll.
Import ListNotations.
Open Scope Z_scope.

(* ------------------------------------------------------------------ *)
(* canonical listing of a set of (name, value) items: insertion sort by the
   lexicographic order *)
Definition item := (Z * Z)%type.

Definition item_leb (a b : item) : bool :=
  (fst a <? fst b) || ((fst a =? fst b) && (snd a <=? snd b)).

Fixpoint insert_item (a : item) (l : list item) : list item :=
  match l with
  | [] => [a]
  | b :: t => if item_leb a b then a :: b :: t else b :: insert_item a t
  end.

Fixpoint canon_items (l : list item) : list item :=
  match l with
  | [] => []
  | a :: t => insert_item a (canon_items t)
  end.

(* the argument of make_dict_hash: None, a dict, or something else *)
Inductive dictarg := DNone | DDict (d : od Z) | DOther.

Section Hash.
  (* hash(frozenset(.)) as a function of the set of items *)
  Variable H : list item -> Z.

  Definition make_dict_hash (a : dictarg) : res Z :=
    match a with
    | DNone => Ok (mdh (H (canon_items [])))
    | DDict d => Ok (mdh (H (canon_items d)))
    | DOther => Err TypeError
    end.

  (* ---------------------------------------------------------------- *)
  (* PDFSet: `_gridparams_hash_pdf_dict`, a dict keyed by the hash *)
  Record pdfobj := mkpdf { pid : Z; pis_pdf : bool; paxes : Z }.
  Definition pdfset := od pdfobj.

  (* gridparams argument: an int key, a dict, or something else *)
  Inductive gparg := GInt (k : Z) | GDict (d : od Z) | GOther.

  (* add_pdf(pdf, gridparams) *)
  Definition pdfset_add (s : pdfset) (p : pdfobj) (g : gparg) : pdfset * res unit :=
    if negb (pis_pdf p) then (s, Err TypeError)
    else match g with
         | GDict d =>
             match make_dict_hash (DDict d) with
             | Err e => (s, Err e)
             | Ok hv =>
                 let key := pdfset_add_key hv in
                 if od_mem s key then (s, Err KeyError)
                 else
                   (* axes of the new PDF against the first stored PDF *)
                   let axes_ok := match s with
                                  | [] => true
                                  | (_, p0) :: _ => paxes p =? paxes p0
                                  end in
                   if axes_ok then (od_set s key p, Ok tt) else (s, Err ValueError)
             end
         | _ => (s, Err TypeError)
         end.

  (* get_pdf(gridparams) *)
  Definition pdfset_get (s : pdfset) (g : gparg) : res pdfobj :=
    let key := match g with
               | GInt k => Ok (pdfset_get_key_int k)
               | GDict d => match make_dict_hash (DDict d) with
                            | Ok hv => Ok (pdfset_get_key_dict hv) | Err e => Err e end
               | GOther => Err TypeError
               end in
    match key with
    | Err e => Err e
    | Ok k => match od_get s (pdfset_get_value_idx0 k) with
              | Some p => Ok p
              | None => Err KeyError
              end
    end.

  (* key in pdfset *)
  Definition pdfset_contains (s : pdfset) (g : gparg) : res bool :=
    match g with
    | GInt k => Ok (od_mem s k)
    | GDict d => match make_dict_hash (DDict d) with
                 | Ok hv => Ok (od_mem s hv) | Err e => Err e end
    | GOther => Err TypeError
    end.

  Inductive pop := PAdd (p : pdfobj) (g : gparg).
  Definition pdfset_run (s : pdfset) (ops : list pop) : pdfset :=
    fold_left (fun s o => match o with PAdd p g => fst (pdfset_add s p g) end) ops s.
End Hash.

(* an injective H for executing the model on small test dictionaries
   (keys 0..99, values -5000..4999): positional encoding *)
Definition H_test (l : list item) : Z :=
  fold_left (fun acc kv => acc * 1000000 + (fst kv * 10000 + (snd kv + 5000)) + 1) l 7.

(* ------------------------------------------------------------------ *)
(* DataFieldStages *)
Inductive stagesarg := SInt (m : Z) | SSeq (ms : list Z).
Definition is_int (a : stagesarg) : bool :=
  match a with SInt _ => true | SSeq _ => false end.

Fixpoint and_loop (stage : Z) (ms : list Z) : bool :=
  match ms with
  | [] => and_ret_end
  | m :: t => if and_loop_fail stage m then and_ret_loop else and_loop stage t
  end.

Fixpoint or_loop (stage : Z) (ms : list Z) : bool :=
  match ms with
  | [] => or_ret_end
  | m :: t => if or_loop_hit stage m then or_ret_loop else or_loop stage t
  end.

(* iterating over an int raises TypeError *)
Definition and_check (stage : Z) (a : stagesarg) : res bool :=
  if and_is_int (is_int a)
  then match a with SInt m => Ok (and_int stage m) | SSeq _ => Err TypeError end
  else match a with SSeq ms => Ok (and_loop stage ms) | SInt _ => Err TypeError end.

Definition or_check (stage : Z) (a : stagesarg) : res bool :=
  if or_is_int (is_int a)
  then match a with SInt m => Ok (or_int stage m) | SSeq _ => Err TypeError end
  else match a with SSeq ms => Ok (or_loop stage ms) | SInt _ => Err TypeError end.

(* DataFields.get_joint_names(datafields, stages): names of the fields whose
   stage passes or_check, in dictionary order *)
Fixpoint joint_names (fields : od Z) (a : stagesarg) : res (list Z) :=
  match fields with
  | [] => Ok []
  | (name, stage) :: t =>
      match or_check stage a with
      | Err e => Err e
      | Ok b => match joint_names t a with
                | Err e => Err e
                | Ok r => Ok (if b then name :: r else r)
                end
      end
  end.

(* bits 0..n-1 of the 16 x 16 table *)
Definition zrange0 (n : nat) : list Z := map Z.of_nat (seq 0 n).
Definition and_bits (s m : Z) (nbits : nat) : bool :=
  forallb (fun b => implb (Z.testbit m b) (Z.testbit s b)) (zrange0 nbits).
Definition or_bits (s m : Z) (nbits : nat) : bool :=
  existsb (fun b => Z.testbit m b && Z.testbit s b) (zrange0 nbits).
Definition table_ok (nvals nbits : nat) : bool :=
  forallb (fun s => forallb (fun m =>
      Bool.eqb (and_int s m) (and_bits s m nbits) && Bool.eqb (or_int s m) (or_bits s m nbits))
    (zrange0 nvals)) (zrange0 nvals).

(* ------------------------------------------------------------------ *)
(* runners for the correspondence (harness/c20.py) *)
Inductive pdfop :=
| QAdd (p : pdfobj) (g : gparg)
| QGet (g : gparg)
| QGetK (d : od Z)          (* get_pdf(make_key(d)) *)
| QHas (g : gparg)
| QHasK (d : od Z).

Definition key_of (d : od Z) : Z :=
  match make_dict_hash H_test (DDict d) with Ok k => k | Err _ => -1 end.

(* result codes: add 0 | -err; get pid | -err; contains 0/1 | -err;
   finally -7 and the ids of the stored PDFs in dictionary order *)
Definition pdfset_trace (ops : list pdfop) : list Z :=
  let '(s, out) :=
    fold_left (fun st o =>
      let '(s, out) := st in
      match o with
      | QAdd p g => let (s', r) := pdfset_add H_test s p g in
                    (s', out ++ [res_code (fun _ => 0) r])
      | QGet g => (s, out ++ [res_code pid (pdfset_get H_test s g)])
      | QGetK d => (s, out ++ [res_code pid (pdfset_get H_test s (GInt (key_of d)))])
      | QHas g => (s, out ++ [res_code b2z (pdfset_contains H_test s g)])
      | QHasK d => (s, out ++ [res_code b2z (pdfset_contains H_test s (GInt (key_of d)))])
      end) ops ([], []) in
  out ++ [-7] ++ map (fun kv => pid (snd kv)) s.

(* all sequences over `vals` of length <= n, shortest first *)
Fixpoint seqs_exact (vals : list Z) (n : nat) : list (list Z) :=
  match n with
  | O => [[]]
  | S k => flat_map (fun v => map (cons v) (seqs_exact vals k)) vals
  end.
Fixpoint seqs_upto (vals : list Z) (n : nat) : list (list Z) :=
  match n with
  | O => [[]]
  | S k => seqs_upto vals k ++ seqs_exact vals (S k)
  end.

Definition resb (r : res bool) : Z := res_code b2z r.

(* the 16 x 16 table of (and_check, or_check) on ints *)
Definition int_table (nvals : nat) : list (list (Z * Z)) :=
  map (fun s => map (fun m => (resb (and_check s (SInt m)), resb (or_check s (SInt m))))
                    (zrange0 nvals)) (zrange0 nvals).

(* per stage: results for every mask sequence of length <= len *)
Definition seq_table (nvals : nat) (len : nat) : list (list (Z * Z)) :=
  map (fun s => map (fun ms => (resb (and_check s (SSeq ms)), resb (or_check s (SSeq ms))))
                    (seqs_upto (zrange0 nvals) len)) (zrange0 nvals).

(* DatasetCollection histories (model in M_Coll.v): result codes, then the
   keys in insertion order, then the ids of the stored datasets *)
Inductive dsop := DsAdd (ds : list obj) | DsRemove (n : Z) | DsGet (n : Z).

Definition ds_trace (ops : list dsop) : list Z :=
  let '(c, out) :=
    fold_left (fun st o =>
      let '(c, out) := st in
      match o with
      | DsAdd ds => let (c', r) := dsc_add c ds in (c', out ++ [res_code (fun _ => 0) r])
      | DsRemove n => let (c', r) := dsc_remove c n in (c', out ++ [res_code (fun _ => 0) r])
      | DsGet n => (c, out ++ [res_code oid (dsc_get c n)])
      end) ops ([], []) in
  out ++ [-7] ++ od_keys c ++ [-7] ++ map (fun kv => oid (snd kv)) c.

(* the four stage constants of DataFieldStages (regenerated from the class body) *)
Definition dfs_constants : list Z := [dfs_dataprep_exp; dfs_dataprep_mc; dfs_analysis_exp; dfs_analysis_mc].

(* each constant is one bit, different constants have no bit in common *)
Definition single_bit (c : Z) : bool := (0 <? c) && (Z.land c (c - 1) =? 0).
Definition constants_ok (cs : list Z) : bool :=
  forallb single_bit cs
  && forallb (fun a => forallb (fun b => (a =? b) || (Z.land a b =? 0)) cs) cs
  && (Z.of_nat (length (nodup Z.eq_dec cs)) =? Z.of_nat (length cs)).
