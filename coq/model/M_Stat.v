(* Model of skyllh/core/test_statistic.py (both __call__ methods),
   Analysis.calculate_test_statistic (forwarding), and of the p-value helpers
   calculate_pval_from_trials, calculate_pval_from_trials_mixed and polynomial_fit
   (skyllh/core/utils/analysis.py).

   Real-valued formulas are polymorphic in Num (theorems at RNum, execution on
   IEEE doubles through extraction); the counting part of the p-values is over
   Z (every finite set of float64 embeds exactly after dyadic scaling, the
   comparisons are exact).  All formulas / comparisons / indices come from the
   regenerated gen/G_stat.v; this file supplies control flow, lookups, keyword
   binding and the error paths.  Definitions only. *)
From Coq Require Import ZArith List Bool.
From Sky Require Import Result PyList Num G_stat.
Import ListNotations.
Open Scope Z_scope.

(* ------------------------------------------------------------------ pmm *)
(* parameter names are modelled by integers; `floating` is the list of the
   names of the global floating parameters in definition order.
   pmm.get_gflp_idx(name) = ParameterSet._floating_param_name_to_idx[name] *)
Fixpoint find_idx (nm : Z) (names : list Z) (i : Z) : res Z :=
  match names with
  | [] => Err KeyError
  | x :: r => if x =? nm then Ok i else find_idx nm r (i + 1)
  end.
Definition get_gflp_idx (floating : list Z) (nm : Z) : res Z := find_idx nm floating 0.

(* pmm.create_src_params_recarray(gflp_values=...): only its input check is
   modelled (the record array itself is not used by the test statistic; its
   content is property C02) *)
Definition create_src_params_recarray {A} (floating : list Z) (gflp_values : list A) : res unit :=
  if zlen gflp_values =? zlen floating then Ok tt else Err ValueError.

(* ------------------------------------------------------------------ keyword calls *)
Inductive kw : Type :=
| K_ns | K_ns_pidx | K_src_params_recarray | K_tl | K_fitparam_values | K_other (n : Z).

Definition kw_eqb (a b : kw) : bool :=
  match a, b with
  | K_ns, K_ns | K_ns_pidx, K_ns_pidx | K_src_params_recarray, K_src_params_recarray
  | K_tl, K_tl | K_fitparam_values, K_fitparam_values => true
  | K_other n, K_other m => n =? m
  | _, _ => false
  end.

(* a Python signature after `self`: named parameters (name, has a default) and
   whether **kwargs is accepted *)
Record signature : Type := { sg_params : list (kw * bool); sg_varkw : bool }.

(* binding a keyword-only call: every keyword must name a parameter (or be
   swallowed by **kwargs), every parameter without default must be given *)
Definition bind_ok (sg : signature) (given : list kw) : bool :=
  forallb (fun k => sg_varkw sg || existsb (fun p => kw_eqb (fst p) k) (sg_params sg)) given
  && forallb (fun p => snd p || existsb (kw_eqb (fst p)) given) (sg_params sg).

Definition call_kw {A} (sg : signature) (given : list kw) (body : res A) : res A :=
  if bind_ok sg given then body else Err TypeError.

(* the four definitions of calculate_ns_grad2 in skyllh/core/llhratio.py; the
   harness compares these constants with inspect.signature of the real methods *)
Definition sig_TCLLHRatio : signature :=
  {| sg_params := [(K_ns, false); (K_ns_pidx, false); (K_src_params_recarray, false); (K_tl, true)];
     sg_varkw := true |}.
Definition sig_ZeroSigH0SingleDatasetTCLLHRatio : signature :=
  {| sg_params := [(K_ns, false); (K_ns_pidx, true); (K_src_params_recarray, true); (K_tl, true)];
     sg_varkw := false |}.
Definition sig_MultiDatasetTCLLHRatio : signature :=
  {| sg_params := [(K_ns, false); (K_ns_pidx, false); (K_src_params_recarray, false); (K_tl, true)];
     sg_varkw := false |}.
Definition sig_NsProfileMultiDatasetTCLLHRatio : signature :=
  {| sg_params := [(K_ns, false); (K_ns_pidx, false); (K_src_params_recarray, false); (K_tl, true)];
     sg_varkw := false |}.
Definition real_sigs : list signature :=
  [sig_TCLLHRatio; sig_ZeroSigH0SingleDatasetTCLLHRatio; sig_MultiDatasetTCLLHRatio;
   sig_NsProfileMultiDatasetTCLLHRatio].

(* keywords of the call in LLHRatioZeroNsTaylorWilksTestStatistic.__call__
   (each pinned by a `call:...@kw=` kernel) *)
Definition taylor_call_kws : list kw := [K_ns; K_ns_pidx; K_src_params_recarray; K_tl].
(* the call as it was before fix b047c50 *)
Definition taylor_call_kws_b047c50_before : list kw :=
  [K_fitparam_values; K_ns_pidx; K_src_params_recarray; K_tl].

Section Real.
  Context {T : Type} (N : Num T).

  (* np.sign: -1, +1, and the argument itself for +-0 and NaN *)
  Definition nsign (x : T) : T :=
    if nltb N x (nzero N) then nopp N (none N)
    else if nltb N (nzero N) x then none N
    else x.

  (* the log-likelihood-ratio object as seen by the test statistic: the
     signature of its calculate_ns_grad2 and the function behind it (ns,
     ns_pidx -> second derivative, or an exception of the callee) *)
  Record callee : Type := { c_sig : signature; c_body : T -> Z -> res T }.

  (* ---------------------------------------------------------------- WilksTestStatistic.__call__ *)
  Definition wilks (floating : list Z) (ns_name : Z) (log_lambda : T) (fpv : list T) : res T :=
    do ns_pidx <- get_gflp_idx floating ns_name;
    do ns <- py_get fpv (ts_wilks_ns_idx0 ns_pidx);
    let sgn_ns := ts_wilks_sgn N ns (nsign ns) in
    Ok (ts_wilks N sgn_ns log_lambda).

  (* ---------------------------------------------------------------- LLHRatioZeroNsTaylorWilksTestStatistic.__call__ *)
  Definition taylor_with (kws : list kw) (floating : list Z) (ns_name : Z) (log_lambda : T)
             (fpv : list T) (llh : callee) (grads : list T) : res T :=
    do ns_pidx <- get_gflp_idx floating ns_name;
    do ns <- py_get fpv (ts_taylor_ns_idx0 ns_pidx);
    if ts_taylor_is0 N ns then
      do nsgrad <- py_get grads (ts_taylor_nsgrad_idx0 ns_pidx);
      do _ <- create_src_params_recarray floating fpv;
      do nsgrad2 <- call_kw (c_sig llh) kws
                      (c_body llh (ts_taylor_call_ns N ns) (ts_taylor_call_ns_pidx ns_pidx));
      Ok (ts_taylor_apex N nsgrad nsgrad2)
    else Ok (ts_taylor_wilks N log_lambda (nsign ns)).

  Definition taylor := taylor_with taylor_call_kws.

  (* ---------------------------------------------------------------- Analysis.calculate_test_statistic *)
  Inductive ts_variant : Type := VWilks | VTaylor.
  (* **kwargs of the caller: llhratio / grads given or not *)
  Definition analysis_calculate_ts (v : ts_variant) (floating : list Z) (ns_name : Z)
             (log_lambda : T) (fpv : list T) (kw_llhratio : option callee) (kw_grads : option (list T))
    : res T :=
    match v with
    | VWilks => wilks floating ns_name log_lambda fpv       (* extra keywords end in **kwargs *)
    | VTaylor =>
        match kw_llhratio, kw_grads with
        | Some llh, Some g => taylor floating ns_name log_lambda fpv llh g
        | _, _ => Err TypeError                              (* missing required argument *)
        end
    end.

  (* LLHRatioAnalysis.unblind / do_trial_with_given_pseudo_data (the public
     path): calculate_test_statistic(log_lambda=..., fitparam_values=...) and
     nothing else *)
  Definition analysis_public_ts (v : ts_variant) (floating : list Z) (ns_name : Z)
             (log_lambda : T) (fpv : list T) : res T :=
    analysis_calculate_ts v floating ns_name log_lambda fpv None None.
End Real.
Arguments callee T : clear implicits.

(* ------------------------------------------------------------------ counting p-values *)
Inductive comp_op : Type := Greater | GreaterEqual | OtherOp.

Definition count_if (f : Z -> Z -> bool) (ts : list Z) (thr : Z) : Z :=
  zlen (filter (fun x => f x thr) ts).

(* int / int in Python: ZeroDivisionError for an empty sample *)
Definition py_truediv_ints (k n : Z) : res (Z * Z) :=
  if n =? 0 then Err ZeroDivision else Ok (k, n).

(* (number of trials passing the comparison, number of trials) *)
Definition pval_counts (op : comp_op) (ts : list Z) (thr : Z) : res (Z * Z) :=
  match op with
  | Greater => py_truediv_ints (count_if pval_gt_mask ts thr) (zlen ts)
  | GreaterEqual => py_truediv_ints (count_if pval_ge_mask ts thr) (zlen ts)
  | OtherOp => Err ValueError
  end.

Definition trials_default_op : comp_op := Greater.
Definition mixed_default_op : comp_op := GreaterEqual.

(* calculate_pval_from_trials_mixed: which computation is dispatched to, with
   which arguments (the gamma fit itself is iminuit/scipy: an oracle) *)
Inductive dispatch : Type :=
| ByTrials (k n : Z)
| ByGammaFit (thr eta n_max : Z).

Definition pval_mixed (op : comp_op) (ts : list Z) (thr switch_at_ts : Z) (eta : option Z) (n_max : Z)
  : res dispatch :=
  let eta' := match eta with None => mixed_eta_default switch_at_ts | Some e => e end in
  if mixed_below thr switch_at_ts then
    do kn <- pval_counts op ts (mixed_trials_arg_thr thr); Ok (ByTrials (fst kn) (snd kn))
  else Ok (ByGammaFit (mixed_gamma_arg_thr thr) (mixed_gamma_arg_eta eta') (mixed_gamma_arg_nmax n_max)).

Section Real2.
  Context {T : Type} (N : Num T).

  (* (p, p_sigma) *)
  Definition pval_trials (op : comp_op) (ts : list Z) (thr : Z) : res (T * T) :=
    do kn <- pval_counts op ts thr;
    let p := match op with
             | Greater => pval_gt N (fst kn) (snd kn)
             | _ => pval_ge N (fst kn) (snd kn)
             end in
    Ok (p, pval_sigma N p (snd kn)).

  (* ---------------------------------------------------------------- polynomial_fit *)
  (* np.polyfit(ns, p, deg, w=p_weight, cov=True)[0] is an oracle: for a degree
     it returns the coefficient list (highest power first) or raises *)
  Definition polynomial_fit (polyfit : Z -> res (list T)) (deg : Z) (p_thr : T) : res T :=
    do params <- polyfit deg;
    do st <- (if deg =? 2 then
                do a0 <- py_get params poly_fallback_idx;
                if poly_fallback N deg a0 then
                  do params1 <- polyfit poly_fallback_deg; Ok (poly_fallback_deg, params1)
                else Ok (deg, params)
              else Ok (deg, params));
    let deg' := fst st in
    let params' := snd st in
    if poly_is1 deg' then
      do a <- py_get params' poly1_a_idx;
      do b <- py_get params' poly1_b_idx;
      Ok (poly_inv1 N p_thr b a)
    else if poly_is2 deg' then
      do a <- py_get params' poly2_a_idx;
      do b <- py_get params' poly2_b_idx;
      do c <- py_get params' poly2_c_idx;
      Ok (poly_inv2 N a b c p_thr)
    else Err ValueError.

End Real2.

(* ------------------------------------------------------------------ calculate_pval_from_gammafit_to_trials *)
(* statement order of the code: threshold check, truncation to n_max, THEN the
   tail selection; (N_prime, Ntot, tail handed to the fit) *)
Definition gammafit_counts (ts : list Z) (thr eta n_max : Z) : res (Z * Z * list Z) :=
  if gf_below_eta thr eta then Err ValueError
  else
    let ts' := if gf_trunc_test n_max (zlen ts) then py_slice ts 0 (gf_trunc_upper n_max) else ts in
    let tail := filter (fun x => gf_tail_mask x eta) ts' in
    do kn <- py_truediv_ints (zlen tail) (zlen ts');
    Ok (fst kn, snd kn, tail).

Section Real3.
  Context {T : Type} (N : Num T).
  (* the fitted survival function: scipy.optimize.minimize of the truncated gamma
     likelihood on (eta, tail) followed by scipy.stats.gamma.sf — an oracle *)
  Context (sf : Z -> list Z -> Z -> T).

  Definition pval_gammafit (ts : list Z) (thr eta n_max : Z) : res (T * T) :=
    do c <- gammafit_counts ts thr eta n_max;
    let '(k, n, tail) := c in
    let alpha := gf_alpha N k n in
    let norm := gf_norm N alpha (sf eta tail (gf_sf0_arg eta)) in
    Ok (gf_p N norm (sf eta tail (gf_sf1_arg thr)), gf_psigma N).

  (* calculate_pval_from_trials_mixed with both branches evaluated *)
  Definition pval_mixed_full (op : comp_op) (ts : list Z) (thr switch_at_ts : Z) (eta : option Z) (n_max : Z)
    : res (T * T) :=
    do d <- pval_mixed op ts thr switch_at_ts eta n_max;
    match d with
    | ByTrials _ _ => pval_trials N op ts thr
    | ByGammaFit t e m => pval_gammafit ts t e m
    end.
End Real3.

(* ------------------------------------------------------------------ the real calculate_ns_grad2 bodies (llhratio.py) *)
Section Callees.
  Context {T : Type} (N : Num T).

  (* ZeroSigH0SingleDatasetTCLLHRatio.calculate_ns_grad2: cache = the per-event
     ns-gradients left by evaluate() (None before / after a new trial) *)
  Definition zerosig_body (cache : option (list T)) (n_selected n_pure : Z) (ns : T) (_ : Z) : res T :=
    match cache with
    | None => if zs_cache_none None then Err RuntimeError else Err AssertionError
    | Some g =>
        if zs_cache_none (Some 0%Z) then Err RuntimeError
        else
          let Nprime := ofZ N (zs_Nprime n_selected) in
          let Ntot := zs_N N Nprime (ofZ N n_pure) in
          Ok (zs_nsgrad2 N Ntot Nprime ns (nsum N (map (zs_nsgrad2_term N) g)))
    end.
  Definition zerosig_callee (cache : option (list T)) (n_selected n_pure : Z) : callee T :=
    {| c_sig := sig_ZeroSigH0SingleDatasetTCLLHRatio; c_body := zerosig_body cache n_selected n_pure |}.

  (* MultiDatasetTCLLHRatio.calculate_ns_grad2: nsf = ns * f; loop over the
     per-dataset functions with ns = nsf[j]; sum(nsgrad2j * f**2).  A weight
     array shorter than the list: IndexError at nsf[j]; longer: the final
     product cannot be broadcast (ValueError) *)
  Fixpoint multi_terms (ns : T) (i : Z) (fs : list T) (subs : list (callee T)) : res (list T) :=
    match subs, fs with
    | [], [] => Ok []
    | [], _ :: _ => Err ValueError
    | _ :: _, [] => Err IndexError
    | c :: cr, f :: fr =>
        do b <- call_kw (c_sig c) taylor_call_kws (c_body c (md_nsf N ns f) (md_call_pidx i));
        do r <- multi_terms ns i fr cr;
        Ok (md_term N b f :: r)
    end.
  Definition multi_body (fs : list T) (subs : list (callee T)) (ns : T) (i : Z) : res T :=
    do ts <- multi_terms ns i fs subs; Ok (nsum N ts).
  Definition multi_callee (fs : list T) (subs : list (callee T)) : callee T :=
    {| c_sig := sig_MultiDatasetTCLLHRatio; c_body := multi_body fs subs |}.

  (* NsProfileMultiDatasetTCLLHRatio.calculate_ns_grad2 *)
  Definition nsprofile_body (inner : callee T) (ns : T) (i : Z) : res T :=
    if np_guard i then Err ValueError
    else call_kw (c_sig inner) taylor_call_kws (c_body inner ns (np_call_pidx i)).
  Definition nsprofile_callee (inner : callee T) : callee T :=
    {| c_sig := sig_NsProfileMultiDatasetTCLLHRatio; c_body := nsprofile_body inner |}.

  (* truncated_gamma_logpdf: the objective handed to scipy.optimize.minimize;
     cdf_eta = gamma.cdf(eta, a, scale), sumlogpdf = sum(gamma.logpdf(tail, a, scale)) *)
  Definition tg_objective (cdf_eta sumlogpdf : T) (n_above : Z) : T :=
    tg_ret N (tg_logl_add N (tg_logl N n_above (tg_c0b N (tg_c0a N cdf_eta))) sumlogpdf).
End Callees.
