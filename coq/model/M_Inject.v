(* Model of signal injection:
     skyllh/core/signal_generator.py   MultiDatasetSignalGenerator.generate_signal_events
                                       (rounding of mean*w_j and the random correction),
                                       MCMultiDatasetSignalGenerator (_construct_signal_candidates,
                                       _get_invalid_events_mask, the redraw loop,
                                       generate_signal_events),
     skyllh/i3/signal_generation.py    source_sin_dec_shift_linear, _get_src_dec_bands,
                                       calc_source_signal_mc_event_flux.
   Numbers are integers: weights are numerators over a common denominator,
   sin(dec) values / energies / field values are dyadic-scaled floats (exact
   comparisons, + - * read as real-number operations).  The integer formulas
   of the discrete control flow are the regenerated kernels of gen/G_inject.v;
   the real-valued kernels (rounding, band shift, weights) are tied to the
   integer formulas used here by the K_ lemmas of proofs/P_Inject.v.
   The random number generator is an oracle: an abstract state machine
   [choice g p k] returning k indices drawn with probabilities proportional
   to p.  Definitions only. *)
From Coq Require Import ZArith List Bool.
From Sky Require Import Result PyList G_inject.
Import ListNotations.
Open Scope Z_scope.

(* ------------------------------------------------------------------ helpers *)
(* np.round(p/q, 0) for q > 0: round half to even *)
Definition rhe (p q : Z) : Z :=
  let f := p / q in
  let r2 := 2 * (p mod q) in
  if r2 <? q then f else if q <? r2 then f + 1 else if Z.even f then f else f + 1.

Fixpoint enum_from {A} (i : Z) (l : list A) : list (Z * A) :=
  match l with [] => [] | a :: r => (i, a) :: enum_from (i + 1) r end.
Definition enum {A} (l : list A) : list (Z * A) := enum_from 0 l.

(* np.unique of an integer array: sorted, without duplicates *)
Fixpoint ins_uniq (x : Z) (l : list Z) : list Z :=
  match l with
  | [] => [x]
  | y :: r => if x <? y then x :: l else if x =? y then l else y :: ins_uniq x r
  end.
Definition zuniq (l : list Z) : list Z := fold_right ins_uniq [] l.

Definition all_zero (l : list Z) : bool := forallb (fun x => x =? 0) l.

(* a[i] += d on an integer array, i an index drawn by the oracle *)
Definition bump (l : list Z) (i : nat) (d : Z -> Z) : res (list Z) :=
  match nth_error l i with
  | Some v => Ok (set_nth l i (d v))
  | None => Err IndexError
  end.

Fixpoint map2 {A B C} (f : A -> B -> C) (l : list A) (m : list B) : list C :=
  match l, m with
  | a :: l', b :: m' => f a b :: map2 f l' m'
  | _, _ => []
  end.

(* ---------------------------------------------------------- candidate data *)
Record mcev := { e_sd : Z;      (* sin_true_dec *)
                 e_en : Z;      (* true_energy *)
                 e_mw : Z }.    (* mcweight *)

Record shgT := { h_src : list (Z * option Z);   (* per source: sin(dec), weight (None = not given) *)
                 h_hw : Z;                      (* src_sin_dec_half_bandwidth *)
                 h_er : option (Z * Z);         (* energy_range *)
                 h_flux : Z -> Z }.             (* fluxmodel(E) (numerator), an oracle *)

Record dsT := { d_mc : list mcev;
                d_lt : Z;                         (* integrated live-time *)
                d_rng : list (nat * (Z * Z)) }.   (* validity ranges: field position -> (min, max) *)

Record cand := { c_ds : Z; c_ev : Z; c_shg : Z; c_src : Z;
                 c_wn : Z;      (* weight numerator  mcweight * flux * srcweight * livetime *)
                 c_wd : Z }.    (* weight denominator: the band solid angle / 4 pi = half bandwidth *)

Definition zmin_l (a : Z) (l : list Z) : Z := fold_left Z.min l a.
Definition zmax_l (a : Z) (l : list Z) : Z := fold_left Z.max l a.

(* shg.get_source_weights(): None when any source has no weight *)
Definition src_weights (h : shgT) : option (list Z) :=
  if forallb (fun s => match snd s with Some _ => true | None => false end) (h_src h)
  then Some (map (fun s => match snd s with Some w => w | None => 0 end) (h_src h))
  else None.

(* sin(dec_src) + S(sin(dec_src)) -/+ w, all multiplied by (U - L) > 0:
   S(x) = m*x + b, m = -2w/(U-L), b = w(L+U)/(U-L) *)
Definition band_lo_D (x w L U : Z) : Z := x * (U - L) + (-2 * w * x + w * (L + U)) - w * (U - L).
Definition band_hi_D (x w L U : Z) : Z := x * (U - L) + (-2 * w * x + w * (L + U)) + w * (U - L).
Definition in_band (x w L U sd : Z) : bool :=
  (band_lo_D x w L U <=? sd * (U - L)) && (sd * (U - L) <=? band_hi_D x w L U).

Definition in_energy (er : option (Z * Z)) (en : Z) : bool :=
  match er with
  | None => true
  | Some (lo, hi) => (lo <=? en) && (en <=? hi)
  end.

(* calc_source_signal_mc_event_flux + the weight line of
   _construct_signal_candidates for one (group, dataset) pair; candidates are
   ordered source-major, event-minor (np.tile / np.repeat; the source batches
   are concatenated in order) *)
Definition cands_for (hi : Z) (h : shgT) (di : Z) (d : dsT) : res (list cand) :=
  match d_mc d with
  | [] => Err ValueError                    (* np.min of an empty array *)
  | e0 :: _ =>
    let sds := map e_sd (d_mc d) in
    let L := zmin_l (e_sd e0) sds in
    let U := zmax_l (e_sd e0) sds in
    if (U =? L) || (h_hw h =? 0) then Err ZeroDivision   (* inf / NaN in the float code *)
    else
      let sw := src_weights h in
      Ok (flat_map (fun ks : Z * (Z * option Z) =>
            let k := fst ks in
            let x := fst (snd ks) in
            let wk := match sw with
                      | Some _ => match snd (snd ks) with Some w => w | None => 0 end
                      | None => 1
                      end in
            flat_map (fun ie : Z * mcev =>
              let e := snd ie in
              if in_band x (h_hw h) L U (e_sd e) && in_energy (h_er h) (e_en e)
              then [ {| c_ds := di; c_ev := fst ie; c_shg := hi; c_src := k;
                        c_wn := e_mw e * h_flux h (e_en e) * wk * d_lt d;
                        c_wd := h_hw h |} ]
              else [])
              (enum (d_mc d)))
          (enum (h_src h)))
  end.

(* itertools.product(enumerate(shg_list), enumerate(data_list)) *)
Fixpoint concatM {A} (l : list (res (list A))) : res (list A) :=
  match l with
  | [] => Ok []
  | r :: t => do a <- r; do b <- concatM t; Ok (a ++ b)
  end.

Definition construct (shgs : list shgT) (dss : list dsT) : res (list cand) :=
  do tbl <- concatM (flat_map (fun ih : Z * shgT =>
                       map (fun id : Z * dsT => cands_for (fst ih) (snd ih) (fst id) (snd id)) (enum dss))
                     (enum shgs));
  match tbl with
  | [] => Err IndexError                    (* RandomChoice: cdf[-1] of an empty array *)
  | _ => Ok tbl
  end.

(* ------------------------------------------------------------ validity mask *)
(* _get_invalid_events_mask for one event (a vector of field values) *)
Fixpoint invalid1 (rngs : list (nat * (Z * Z))) (mask : bool) (ev : list Z) : res bool :=
  match rngs with
  | [] => Ok mask
  | (f, (lo, hi)) :: r =>
    match nth_error ev f with
    | None => Err KeyError
    | Some v => invalid1 r (inv_mask mask v lo hi) ev
    end
  end.
Definition invalid_mask (rngs : list (nat * (Z * Z))) (evs : list (list Z)) : res (list bool) :=
  mapM (invalid1 rngs false) evs.

(* a[mask] = b: positional fill; numpy raises ValueError when the number of
   True entries differs from len(b) *)
Fixpoint fill_mask {A} (l : list A) (m : list bool) (b : list A) : res (list A) :=
  match l, m with
  | a :: l', true :: m' =>
    match b with
    | x :: b' => do r <- fill_mask l' m' b'; Ok (x :: r)
    | [] => Err ValueError
    end
  | a :: l', false :: m' => do r <- fill_mask l' m' b; Ok (a :: r)
  | [], [] => match b with [] => Ok [] | _ => Err ValueError end
  | _, _ => Err IndexError
  end.

Definition count_true (m : list bool) : Z := zlen (filter (fun b => b) m).

(* ------------------------------------------------------------------ oracle *)
Section Oracle.
  Variable rng : Type.
  (* rss.random.choice(arange(len p), size=k, p=p/sum p) and RandomChoice.__call__:
     k indices and the next generator state *)
  Variable choice : rng -> list Z -> nat -> list nat * rng.
  (* signal_event_post_sampling_processing (relocation to the source; astropy)
     followed by the projection on the observed field vector:
     ds_idx, shg_idx, shg_src_idx, ev_idx |-> field values *)
  Variable post : Z -> Z -> Z -> Z -> list Z.

  (* ------------------------------- MultiDatasetSignalGenerator: the counts *)
  Definition counts0 (mean D : Z) (ws : list Z) : list Z :=
    map (fun a => rhe (mean * a) D) ws.

  (* n_events_arr[ds_idxs] += counts with (ds_idxs, counts) = np.unique(draws,
     return_counts=True): one increment per draw *)
  Fixpoint add_draws (cnt : list Z) (draws : list nat) : res (list Z) :=
    match draws with
    | [] => Ok cnt
    | d :: r => do c <- bump cnt d (cnt_add_inc 1); add_draws c r
    end.

  Fixpoint sub_loop (k : nat) (g : rng) (ws cnt : list Z) : res (list Z * rng) :=
    match k with
    | O => Ok (cnt, g)
    | S k' =>
      let p := map2 cnt_sub_p cnt ws in
      if all_zero p then Err ValueError      (* p / np.sum(p) is NaN: choice raises *)
      else
        match choice g p 1 with
        | ([d], g') => do c <- bump cnt d cnt_sub_dec; sub_loop k' g' ws c
        | (_, _) => Err RuntimeError         (* outside the oracle's contract *)
        end
    end.

  Definition ds_counts (g : rng) (mean D : Z) (ws : list Z) : res (list Z * rng) :=
    let c0 := counts0 mean D ws in
    let s := zsum c0 in
    if cnt_need_add s mean then
      let dg := choice g ws (Z.to_nat (cnt_add_size mean s)) in
      do c <- add_draws c0 (fst dg); Ok (c, snd dg)
    else if cnt_need_sub s mean then
      sub_loop (Z.to_nat (cnt_sub_steps s mean)) g ws c0
    else Ok (c0, g).

  (* the code before the fix (7c8d32b): one choice call for both directions *)
  Fixpoint sub_draws (cnt : list Z) (draws : list nat) : res (list Z) :=
    match draws with
    | [] => Ok cnt
    | d :: r => do c <- bump cnt d (fun v => v - 1); sub_draws c r
    end.
  Definition ds_counts_prefix (g : rng) (mean D : Z) (ws : list Z) : res (list Z * rng) :=
    let c0 := counts0 mean D ws in
    let s := zsum c0 in
    if negb (s =? mean) then
      let dg := choice g ws (Z.to_nat (Z.abs (mean - s))) in
      do c <- (if s <? mean then add_draws c0 (fst dg) else sub_draws c0 (fst dg)); Ok (c, snd dg)
    else Ok (c0, g).

  (* ------------------------------ MCMultiDatasetSignalGenerator: the events *)
  Definition lookup (tbl : list cand) (idxs : list nat) : res (list cand) :=
    mapM (fun i => match nth_error tbl i with Some c => Ok c | None => Err IndexError end) idxs.

  Definition post_c (c : cand) : list Z := post (c_ds c) (c_shg c) (c_src c) (c_ev c).

  Definition keep_c (ds shg : Z) (c : cand) : bool := redraw_keep ds shg (c_ds c) (c_shg c).

  (* _draw_valid_sig_events_for_dataset_and_shg; the while loop carries fuel *)
  Fixpoint redraw (fuel : nat) (g : rng) (tbl : list cand) (rngs : list (nat * (Z * Z)))
           (n_signal ds shg : Z) (acc : list (list Z)) : res (list (list Z) * rng) :=
    if redraw_while (zlen acc) n_signal then
      match fuel with
      | O => Err OutOfFuel
      | S f =>
        let dg := choice g (map c_wn tbl) (Z.to_nat (redraw_size n_signal (zlen acc))) in
        do meta <- lookup tbl (fst dg);
        let events := map post_c (filter (keep_c ds shg) meta) in
        do inv <- invalid_mask rngs events;
        redraw f (snd dg) tbl rngs n_signal ds shg (acc ++ mask_select events (map negb inv))
      end
    else Ok (acc, g).

  (* one (dataset, group) block of generate_signal_events *)
  Definition gen_group (fuel : nat) (g : rng) (tbl : list cand) (rngs : list (nat * (Z * Z)))
             (ds shg : Z) (meta : list cand) : res (list (list Z) * rng) :=
    let sel := filter (fun c => gen_ds_shg_mask (gen_ds_mask ds (c_ds c)) (gen_shg_mask shg (c_shg c))) meta in
    let events := map post_c sel in
    do inv <- invalid_mask rngs events;
    let n_redraw := count_true inv in
    if gen_need_redraw n_redraw then
      do rg <- redraw fuel g tbl rngs n_redraw ds shg [];
      do ev <- fill_mask events inv (fst rg);
      Ok (ev, snd rg)
    else Ok (events, g).

  Fixpoint gen_shgs (fuel : nat) (g : rng) (tbl : list cand) (rngs : list (nat * (Z * Z)))
           (ds : Z) (meta : list cand) (shgs : list Z) : res (list (list Z) * rng) :=
    match shgs with
    | [] => Ok ([], g)
    | shg :: r =>
      do eg <- gen_group fuel g tbl rngs ds shg meta;
      do rest <- gen_shgs fuel (snd eg) tbl rngs ds meta r;
      Ok (fst eg ++ fst rest, snd rest)
    end.

  Fixpoint gen_dss (fuel : nat) (g : rng) (tbl : list cand) (dss : list dsT)
           (meta : list cand) (dsis : list Z) : res (list (Z * list (list Z)) * rng) :=
    match dsis with
    | [] => Ok ([], g)
    | ds :: r =>
      do d <- py_get dss ds;
      let shgs := zuniq (map c_shg (filter (fun c => gen_ds_mask ds (c_ds c)) meta)) in
      do eg <- gen_shgs fuel g tbl (d_rng d) ds meta shgs;
      do rest <- gen_dss fuel (snd eg) tbl dss meta r;
      Ok ((ds, fst eg) :: fst rest, snd rest)
    end.

  (* MCMultiDatasetSignalGenerator.generate_signal_events(poisson=False) *)
  Definition generate (fuel : nat) (g : rng) (tbl : list cand) (dss : list dsT) (n_signal : Z)
    : res (Z * list (Z * list (list Z)) * rng) :=
    let dg := choice g (map c_wn tbl) (Z.to_nat n_signal) in
    do meta <- lookup tbl (fst dg);
    do r <- gen_dss fuel (snd dg) tbl dss meta (zuniq (map c_ds meta));
    Ok (n_signal, fst r, snd r).
End Oracle.

(* the oracle used to *run* the model: the generator state is the list of the
   index batches still to be handed out *)
Definition stream_choice (g : list (list nat)) (p : list Z) (k : nat) : list nat * list (list nat) :=
  match g with
  | [] => ([], [])
  | b :: r => (b, r)
  end.

Fixpoint assoc4 (tab : list ((Z * Z * Z * Z) * list Z)) (a b c d : Z) : list Z :=
  match tab with
  | [] => []
  | ((a', b', c', d'), v) :: r =>
    if (a =? a') && (b =? b') && (c =? c') && (d =? d') then v else assoc4 r a b c d
  end.

Fixpoint assocz (tab : list (Z * Z)) (k : Z) : Z :=
  match tab with
  | [] => 0
  | (k', v) :: r => if k =? k' then v else assocz r k
  end.
