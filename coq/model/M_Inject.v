(* Model of signal injection:
     skyllh/core/signal_generator.py   MultiDatasetSignalGenerator.generate_signal_events
                                       (rounding of mean*w_j and the random correction),
                                       MCMultiDatasetSignalGenerator (_construct_signal_candidates,
                                       _get_invalid_events_mask, the redraw loop,
                                       generate_signal_events),
     skyllh/i3/signal_generation.py    source_sin_dec_shift_linear, _get_src_dec_bands,
                                       calc_source_signal_mc_event_flux.
   Numbers are integers: weights are numerators over a common denominator,
   sin(dec) values / energies / field values are dyadic-scaled floats (exact
   comparisons, + - * read as real-number operations).  The integer formulas
   of the discrete control flow are the regenerated kernels of gen/G_inject.v;
   the real-valued kernels (rounding, band shift, weights) are tied to the
   integer formulas used here by the K_ lemmas of proofs/P_Inject.v.
   The random number generator is an oracle: an abstract state machine
   [choice g p k] returning k indices drawn with probabilities proportional
   to p.  Definitions only. *)
From Coq Require Import ZArith List Bool.
From Sky Require Import Result PyList G_inject.
Import ListNotations.
Open Scope Z_scope.

(* ------------------------------------------------------------------ helpers *)
(* np.round(p/q, 0) for q > 0: round half to even *)
Definition rhe (p q : Z) : Z :=
  let f := p / q in
  let r2 := 2 * (p mod q) in
  if r2 <? q then f else if q <? r2 then f + 1 else if Z.even f then f else f + 1.

Fixpoint enum_from {A} (i : Z) (l : list A) : list (Z * A) :=
  match l with [] => [] | a :: r => (i, a) :: enum_from (i + 1) r end.
Definition enum {A} (l : list A) : list (Z * A) := enum_from 0 l.

(* np.unique of an integer array: sorted, without duplicates *)
Fixpoint ins_uniq (x : Z) (l : list Z) : list Z :=
  match l with
  | [] => [x]
  | y :: r => if x <? y then x :: l else if x =? y then l else y :: ins_uniq x r
  end.
Definition zuniq (l : list Z) : list Z := fold_right ins_uniq [] l.

Definition all_zero (l : list Z) : bool := forallb (fun x => x =? 0) l.

(* a[i] += d on an integer array, i an index drawn by the oracle *)
Definition bump (l : list Z) (i : nat) (d : Z -> Z) : res (list Z) :=
  match nth_error l i with
  | Some v => Ok (set_nth l i (d v))
  | None => Err IndexError
  end.

Fixpoint map2 {A B C} (f : A -> B -> C) (l : list A) (m : list B) : list C :=
  match l, m with
  | a :: l', b :: m' => f a b :: map2 f l' m'
  | _, _ => []
  end.

(* ---------------------------------------------------------- candidate data *)
Record mcev := { e_sd : Z;      (* sin_true_dec *)
                 e_en : Z;      (* true_energy *)
                 e_mw : Z }.    (* mcweight *)

Record shgT := { h_src : list (Z * option Z);   (* per source: sin(dec), weight (None = not given) *)
                 h_hw : Z;                      (* src_sin_dec_half_bandwidth *)
                 h_er : option (Z * Z);         (* energy_range *)
                 h_flux : Z -> Z }.             (* fluxmodel(E) (numerator), an oracle *)

Record dsT := { d_mc : list mcev;
                d_lt : Z;                         (* integrated live-time *)
                d_rng : list (nat * (Z * Z)) }.   (* validity ranges: field position -> (min, max) *)

Record cand := { c_ds : Z; c_ev : Z; c_shg : Z; c_src : Z;
                 c_wn : Z;      (* weight numerator  mcweight * flux * srcweight * livetime *)
                 c_wd : Z }.    (* weight denominator: the band solid angle / 4 pi = half bandwidth *)

Definition zmin_l (a : Z) (l : list Z) : Z := fold_left Z.min l a.
Definition zmax_l (a : Z) (l : list Z) : Z := fold_left Z.max l a.

(* shg.get_source_weights(): None when any source has no weight *)
Definition src_weights (h : shgT) : option (list Z) :=
  if forallb (fun s => match snd s with Some _ => true | None => false end) (h_src h)
  then Some (map (fun s => match snd s with Some w => w | None => 0 end) (h_src h))
  else None.

(* sin(dec_src) + S(sin(dec_src)) -/+ w, all multiplied by (U - L) > 0:
   S(x) = m*x + b, m = -2w/(U-L), b = w(L+U)/(U-L) *)
Definition band_lo_D (x w L U : Z) : Z := x * (U - L) + (-2 * w * x + w * (L + U)) - w * (U - L).
Definition band_hi_D (x w L U : Z) : Z := x * (U - L) + (-2 * w * x + w * (L + U)) + w * (U - L).
Definition in_band (x w L U sd : Z) : bool :=
  (band_lo_D x w L U <=? sd * (U - L)) && (sd * (U - L) <=? band_hi_D x w L U).

Definition in_energy (er : option (Z * Z)) (en : Z) : bool :=
  match er with
  | None => true
  | Some (lo, hi) => (lo <=? en) && (en <=? hi)
  end.

(* the candidates one source contributes (one row of the (N_sources, N_events)
   mask of calc_source_signal_mc_event_flux + the weight line of
   _construct_signal_candidates): events in index order *)
Definition src_cands (hi : Z) (h : shgT) (di : Z) (d : dsT) (L U : Z) (ks : Z * (Z * option Z)) : list cand :=
  let k := fst ks in
  let x := fst (snd ks) in
  let wk := match src_weights h with
            | Some _ => match snd (snd ks) with Some w => w | None => 0 end
            | None => 1
            end in
  flat_map (fun ie : Z * mcev =>
    let e := snd ie in
    if in_band x (h_hw h) L U (e_sd e) && in_energy (h_er h) (e_en e)
    then [ {| c_ds := di; c_ev := fst ie; c_shg := hi; c_src := k;
              c_wn := e_mw e * h_flux h (e_en e) * wk * d_lt d;
              c_wd := h_hw h |} ]
    else [])
    (enum (d_mc d)).

(* the loop over the source batches: batch bi holds the sources
   [bi*bs, min((bi+1)*bs, n)), source index = bi*bs + position in the batch *)
Fixpoint batched_from {A B} (F : Z * A -> list B) (fuel : nat) (bi bs : Z) (l : list A) (n : Z) : list B :=
  match fuel with
  | O => []
  | S f =>
    let src_start := batch_start bi bs in
    let src_end := Z.min (batch_end_a bi bs) (batch_end_b n) in
    let b := batch_bs src_end src_start in
    let batch := firstn (Z.to_nat b) (skipn (Z.to_nat src_start) l) in
    flat_map (fun jx : Z * A => F (batch_src_idx bi bs (fst jx), snd jx)) (enum batch)
    ++ batched_from F f (bi + 1) bs l n
  end.
Definition batched {A B} (F : Z * A -> list B) (bs : Z) (l : list A) : list B :=
  batched_from F (Z.to_nat (batch_n (zlen l) bs)) 0 bs l (zlen l).

(* calc_source_signal_mc_event_flux for one (group, dataset) pair; the
   candidates are ordered source-major, event-minor (np.tile / np.repeat) *)
Definition cands_with (srcloop : (Z * (Z * option Z) -> list cand) -> list (Z * option Z) -> list cand)
           (hi : Z) (h : shgT) (di : Z) (d : dsT) : res (list cand) :=
  match d_mc d with
  | [] => Err ValueError                    (* np.min of an empty array *)
  | e0 :: _ =>
    let sds := map e_sd (d_mc d) in
    let L := zmin_l (e_sd e0) sds in
    let U := zmax_l (e_sd e0) sds in
    if (U =? L) || (h_hw h =? 0) then Err ZeroDivision   (* inf / NaN in the float code *)
    else Ok (srcloop (src_cands hi h di d L U) (h_src h))
  end.

(* all sources at once (= any batch size, theorem batched_eq) *)
Definition cands_for : Z -> shgT -> Z -> dsT -> res (list cand) :=
  cands_with (fun F l => flat_map F (enum l)).
(* as the code does it, with src_batch_size = bs (0: n_sources / 0 raises) *)
Definition cands_for_b (bs : Z) (hi : Z) (h : shgT) (di : Z) (d : dsT) : res (list cand) :=
  if bs =? 0 then Err ZeroDivision else cands_with (fun F l => batched F bs l) hi h di d.

(* the probabilities of the RandomChoice sampler built from a table, up to a
   common positive factor: weight_i = c_wn_i / c_wd_i, brought to the common
   denominator W = lcm of the c_wd (so p_i / sum p = weight_i / sum weight exactly) *)
Definition zlcm_l (l : list Z) : Z := fold_right Z.lcm 1 l.
Definition samp_w (tbl : list cand) : list Z :=
  let W := zlcm_l (map c_wd tbl) in
  map (fun c => c_wn c * (W / c_wd c)) tbl.

(* itertools.product(enumerate(shg_list), enumerate(data_list)) *)
Fixpoint concatM {A} (l : list (res (list A))) : res (list A) :=
  match l with
  | [] => Ok []
  | r :: t => do a <- r; do b <- concatM t; Ok (a ++ b)
  end.

Definition construct (shgs : list shgT) (dss : list dsT) : res (list cand) :=
  do tbl <- concatM (flat_map (fun ih : Z * shgT =>
                       map (fun id : Z * dsT => cands_for (fst ih) (snd ih) (fst id) (snd id)) (enum dss))
                     (enum shgs));
  match tbl with
  | [] => Err IndexError                    (* RandomChoice: cdf[-1] of an empty array *)
  | _ => Ok tbl
  end.

(* ------------------------------------------------------------ validity mask *)
(* _get_invalid_events_mask for one event (a vector of field values) *)
Fixpoint invalid1 (rngs : list (nat * (Z * Z))) (mask : bool) (ev : list Z) : res bool :=
  match rngs with
  | [] => Ok mask
  | (f, (lo, hi)) :: r =>
    match nth_error ev f with
    | None => Err KeyError
    | Some v => invalid1 r (inv_mask mask v lo hi) ev
    end
  end.
Definition invalid_mask (rngs : list (nat * (Z * Z))) (evs : list (list Z)) : res (list bool) :=
  mapM (invalid1 rngs false) evs.

(* a[mask] = b: positional fill; numpy raises ValueError when the number of
   True entries differs from len(b) *)
Fixpoint fill_mask {A} (l : list A) (m : list bool) (b : list A) : res (list A) :=
  match l, m with
  | a :: l', true :: m' =>
    match b with
    | x :: b' => do r <- fill_mask l' m' b'; Ok (x :: r)
    | [] => Err ValueError
    end
  | a :: l', false :: m' => do r <- fill_mask l' m' b; Ok (a :: r)
  | [], [] => match b with [] => Ok [] | _ => Err ValueError end
  | _, _ => Err IndexError
  end.

Definition count_true (m : list bool) : Z := zlen (filter (fun b => b) m).

(* ------------------------------------------------------------------ oracle *)
Section Oracle.
  Variable rng : Type.
  (* rss.random.choice(arange(len p), size=k, p=p/sum p) and RandomChoice.__call__:
     k indices and the next generator state *)
  Variable choice : rng -> list Z -> nat -> list nat * rng.
  (* signal_event_post_sampling_processing (relocation to the source; astropy)
     followed by the projection on the observed field vector:
     ds_idx, shg_idx, shg_src_idx, ev_idx |-> field values *)
  Variable post : Z -> Z -> Z -> Z -> list Z.

  (* ------------------------------- MultiDatasetSignalGenerator: the counts *)
  Definition counts0 (mean D : Z) (ws : list Z) : list Z :=
    map (fun a => rhe (mean * a) D) ws.

  (* n_events_arr[ds_idxs] += counts with (ds_idxs, counts) = np.unique(draws,
     return_counts=True): one increment per draw *)
  Fixpoint add_draws (cnt : list Z) (draws : list nat) : res (list Z) :=
    match draws with
    | [] => Ok cnt
    | d :: r => do c <- bump cnt d (cnt_add_inc 1); add_draws c r
    end.

  Fixpoint sub_loop (k : nat) (g : rng) (ws cnt : list Z) : res (list Z * rng) :=
    match k with
    | O => Ok (cnt, g)
    | S k' =>
      let p := map2 cnt_sub_p cnt ws in
      if all_zero p then Err ValueError      (* p / np.sum(p) is NaN: choice raises *)
      else
        match choice g p 1 with
        | ([d], g') => do c <- bump cnt d cnt_sub_dec; sub_loop k' g' ws c
        | (_, _) => Err RuntimeError         (* outside the oracle's contract *)
        end
    end.

  Definition ds_counts (g : rng) (mean D : Z) (ws : list Z) : res (list Z * rng) :=
    let c0 := counts0 mean D ws in
    let s := zsum c0 in
    if cnt_need_add s mean then
      let dg := choice g ws (Z.to_nat (cnt_add_size mean s)) in
      do c <- add_draws c0 (fst dg); Ok (c, snd dg)
    else if cnt_need_sub s mean then
      sub_loop (Z.to_nat (cnt_sub_steps s mean)) g ws c0
    else Ok (c0, g).

  (* the code before the fix (7c8d32b): one choice call for both directions *)
  Fixpoint sub_draws (cnt : list Z) (draws : list nat) : res (list Z) :=
    match draws with
    | [] => Ok cnt
    | d :: r => do c <- bump cnt d (fun v => v - 1); sub_draws c r
    end.
  Definition ds_counts_prefix (g : rng) (mean D : Z) (ws : list Z) : res (list Z * rng) :=
    let c0 := counts0 mean D ws in
    let s := zsum c0 in
    if negb (s =? mean) then
      let dg := choice g ws (Z.to_nat (Z.abs (mean - s))) in
      do c <- (if s <? mean then add_draws c0 (fst dg) else sub_draws c0 (fst dg)); Ok (c, snd dg)
    else Ok (c0, g).

  (* ------------------------------ MCMultiDatasetSignalGenerator: the events *)
  Definition lookup (tbl : list cand) (idxs : list nat) : res (list cand) :=
    mapM (fun i => match nth_error tbl i with Some c => Ok c | None => Err IndexError end) idxs.

  Definition post_c (c : cand) : list Z := post (c_ds c) (c_shg c) (c_src c) (c_ev c).

  Definition keep_c (ds shg : Z) (c : cand) : bool := redraw_keep ds shg (c_ds c) (c_shg c).

  (* _draw_valid_sig_events_for_dataset_and_shg; the while loop carries fuel *)
  Fixpoint redraw (fuel : nat) (g : rng) (p : list Z) (tbl : list cand) (rngs : list (nat * (Z * Z)))
           (n_signal ds shg : Z) (acc : list (list Z)) : res (list (list Z) * rng) :=
    if redraw_while (zlen acc) n_signal then
      match fuel with
      | O => Err OutOfFuel
      | S f =>
        let dg := choice g p (Z.to_nat (redraw_size n_signal (zlen acc))) in
        do meta <- lookup tbl (fst dg);
        let events := map post_c (filter (keep_c ds shg) meta) in
        do inv <- invalid_mask rngs events;
        redraw f (snd dg) p tbl rngs n_signal ds shg (acc ++ mask_select events (map negb inv))
      end
    else Ok (acc, g).

  (* one (dataset, group) block of generate_signal_events *)
  Definition gen_group (fuel : nat) (g : rng) (p : list Z) (tbl : list cand) (rngs : list (nat * (Z * Z)))
             (ds shg : Z) (meta : list cand) : res (list (list Z) * rng) :=
    let sel := filter (fun c => gen_ds_shg_mask (gen_ds_mask ds (c_ds c)) (gen_shg_mask shg (c_shg c))) meta in
    let events := map post_c sel in
    do inv <- invalid_mask rngs events;
    let n_redraw := count_true inv in
    if gen_need_redraw n_redraw then
      do rg <- redraw fuel g p tbl rngs n_redraw ds shg [];
      do ev <- fill_mask events inv (fst rg);
      Ok (ev, snd rg)
    else Ok (events, g).

  Fixpoint gen_shgs (fuel : nat) (g : rng) (p : list Z) (tbl : list cand) (rngs : list (nat * (Z * Z)))
           (ds : Z) (meta : list cand) (shgs : list Z) : res (list (list Z) * rng) :=
    match shgs with
    | [] => Ok ([], g)
    | shg :: r =>
      do eg <- gen_group fuel g p tbl rngs ds shg meta;
      do rest <- gen_shgs fuel (snd eg) p tbl rngs ds meta r;
      Ok (fst eg ++ fst rest, snd rest)
    end.

  Fixpoint gen_dss (fuel : nat) (g : rng) (p : list Z) (tbl : list cand) (dss : list dsT)
           (meta : list cand) (dsis : list Z) : res (list (Z * list (list Z)) * rng) :=
    match dsis with
    | [] => Ok ([], g)
    | ds :: r =>
      do d <- py_get dss ds;
      let shgs := zuniq (map c_shg (filter (fun c => gen_ds_mask ds (c_ds c)) meta)) in
      do eg <- gen_shgs fuel g p tbl (d_rng d) ds meta shgs;
      do rest <- gen_dss fuel (snd eg) p tbl dss meta r;
      Ok ((ds, fst eg) :: fst rest, snd rest)
    end.

  (* MCMultiDatasetSignalGenerator.generate_signal_events(poisson=False); p are
     the probabilities the RandomChoice sampler was built from (see mcgen below) *)
  Definition generate_p (fuel : nat) (g : rng) (p : list Z) (tbl : list cand) (dss : list dsT) (n_signal : Z)
    : res (Z * list (Z * list (list Z)) * rng) :=
    let dg := choice g p (Z.to_nat n_signal) in
    do meta <- lookup tbl (fst dg);
    do r <- gen_dss fuel (snd dg) p tbl dss meta (zuniq (map c_ds meta));
    Ok (n_signal, fst r, snd r).
  (* a sampler built from the current table *)
  Definition generate (fuel : nat) (g : rng) (tbl : list cand) (dss : list dsT) (n_signal : Z) :=
    generate_p fuel g (samp_w tbl) tbl dss n_signal.
End Oracle.

(* ------------------------------------------- poisson switch of the MC generator *)
Section McPoisson.
  Variable rng : Type.
  Variable choice : rng -> list Z -> nat -> list nat * rng.
  Variable post : Z -> Z -> Z -> Z -> list Z.
  (* rss.random.poisson(mean): an oracle *)
  Variable pois : rng -> Z -> Z * rng.

  Definition generate_any (poisson : bool) (fuel : nat) (g : rng) (p : list Z) (tbl : list cand)
             (dss : list dsT) (mean : Z) :=
    if mc_poisson_guard poisson
    then let mg := pois g mean in generate_p rng choice post fuel (snd mg) p tbl dss (fst mg)
    else generate_p rng choice post fuel g p tbl dss mean.

  (* ---------------------------- the generator object: table + sampler, and its ops *)
  Record mcgen := { g_shgs : list shgT; g_dss : list dsT; g_tbl : list cand;
                    g_p : list Z }.     (* the probabilities held by the RandomChoice instance *)

  (* __init__ / _construct_signal_candidates: table, then a new sampler from it *)
  Definition mc_init (shgs : list shgT) (dss : list dsT) : res mcgen :=
    do tbl <- construct shgs dss;
    Ok {| g_shgs := shgs; g_dss := dss; g_tbl := tbl; g_p := samp_w tbl |}.

  Inductive mcop :=
  | OpChange (shgs : list shgT)                   (* change_shg_mgr *)
  | OpGenerate (poisson : bool) (mean : Z).       (* generate_signal_events *)

  (* a raising change_shg_mgr leaves the object half rebuilt: the history ends *)
  Definition mc_step (fuel : nat) (st : mcgen) (g : rng) (op : mcop)
    : res (mcgen * rng * option (Z * list (Z * list (list Z)))) :=
    match op with
    | OpChange shgs => do st' <- mc_init shgs (g_dss st); Ok (st', g, None)
    | OpGenerate poisson mean =>
      do r <- generate_any poisson fuel g (g_p st) (g_tbl st) (g_dss st) mean;
      Ok (st, snd r, Some (fst r))
    end.

  Fixpoint mc_run (fuel : nat) (st : mcgen) (g : rng) (ops : list mcop)
    : res (mcgen * rng * list (Z * list (Z * list (list Z)))) :=
    match ops with
    | [] => Ok (st, g, [])
    | op :: r =>
      do x <- mc_step fuel st g op;
      do y <- mc_run fuel (fst (fst x)) (snd (fst x)) r;
      Ok (fst (fst y), snd (fst y),
          match snd x with Some o => o :: snd y | None => snd y end)
    end.
End McPoisson.

(* ----------------------------- signal_event_post_sampling_processing: the loop *)
Section PostProc.
  Variables (S E : Type).
  Variable rot : S -> E -> E.       (* rotate_signal_events_on_sphere + field update, per event *)

  (* shg_sig_events[shg_src_mask] = rotated(shg_sig_events[shg_src_mask]) *)
  Definition pp_apply (k : Z) (s : S) (meta : list Z) (evs : list E) : list E :=
    map2 (fun m e => if post_src_mask k m then rot s e else e) meta evs.

  Fixpoint pp_loop (srcs : list S) (ks : list Z) (meta : list Z) (evs : list E) : res (list E) :=
    match ks with
    | [] => Ok evs
    | k :: r =>
      do s <- py_get srcs (post_source_idx0 k);     (* shg.source_list[shg_src_idx] *)
      pp_loop srcs r meta (pp_apply k s meta evs)
    end.

  Definition post_process (srcs : list S) (meta : list Z) (evs : list E) : res (list E) :=
    if negb (Nat.eqb (length meta) (length evs)) then Err IndexError   (* boolean mask of another length *)
    else pp_loop srcs (zuniq meta) meta evs.
End PostProc.

(* --------------------- MultiDatasetSignalGenerator.generate_signal_events, whole *)
Section Multi.
  Variable rng : Type.
  Variable choice : rng -> list Z -> nat -> list nat * rng.
  Variable pois : rng -> Z -> Z * rng.
  Variable E : Type.
  (* the j-th per-dataset generator called with poisson=False: (n, dict, state) *)
  Variable subgen : nat -> rng -> Z -> res (Z * list (Z * list E) * rng).

  Definition dict := list (Z * list E).

  (* if k not in d: d[k] = v  else: d[k].append(v) *)
  Definition dict_add (d : dict) (k : Z) (v : list E) : dict :=
    if md_new_key k (map fst d) then d ++ [(k, v)]
    else map (fun kv => if fst kv =? k then (fst kv, snd kv ++ v) else kv) d.

  Definition dict_merge (d dj : dict) : dict :=
    fold_left (fun acc kv => dict_add acc (fst kv) (snd kv)) dj d.

  Fixpoint md_loop (j : nat) (cnts : list Z) (g : rng) (n : Z) (d : dict) : res (Z * dict * rng) :=
    match cnts with
    | [] => Ok (n, d, g)
    | c :: r =>
      do x <- subgen j g c;
      md_loop (S j) r (snd x) (md_n_acc n (fst (fst x))) (dict_merge d (snd (fst x)))
    end.

  Definition md_generate (poisson : bool) (g : rng) (mean D : Z) (ws : list Z) : res (Z * dict * rng) :=
    let mg := if md_poisson_guard poisson then pois g mean else (mean, g) in
    do cg <- ds_counts rng choice (snd mg) (fst mg) D ws;
    md_loop 0 (fst cg) (snd cg) 0 [].
End Multi.

(* ------------------------------------ Analysis.generate_signal_events (the site a user calls) *)
Section Ana.
  Variable rng : Type.
  Variable E : Type.

  (* for (ds_idx, sig_events) in ds_sig_events_dict.items(): n_events_list[ds_idx] += len(sig_events);
     events_list[ds_idx] = sig_events  or  events_list[ds_idx].append(sig_events) *)
  Fixpoint an_inject (d : list (Z * list E)) (ns : list Z) (evs : list (option (list E)))
    : res (list Z * list (option (list E))) :=
    match d with
    | [] => Ok (ns, evs)
    | (k, v) :: r =>
      do n <- py_get ns k;
      do ns' <- py_set ns k (an_inc n (zlen v));
      do e <- py_get evs k;
      do evs' <- py_set evs k
           (Some (if an_slot_empty (match e with None => None | Some _ => Some 0 end) then v
                  else match e with Some old => old ++ v | None => v end));
      an_inject r ns' evs'
    end.

  (* gen = self._sig_generator.generate_signal_events(rss, mean=mean_n_sig, **sig_kwargs) *)
  Definition an_generate (gen : rng -> Z -> res (Z * list (Z * list E) * rng)) (n_datasets : Z)
             (g : rng) (mean : Z) (ns : list Z) (evs : list (option (list E)))
    : res (Z * list Z * list (option (list E)) * rng) :=
    if negb (zlen ns =? n_datasets) || negb (zlen evs =? n_datasets) then Err ValueError
    else if an_mean_zero mean then Ok (0, ns, evs, g)
    else
      do r <- gen g mean;
      do x <- an_inject (snd (fst r)) ns evs;
      Ok (fst (fst r), fst x, snd x, snd r).
End Ana.

(* MultiDatasetSignalGenerator.change_shg_mgr: every per-dataset generator
   (None entries are skipped) gets the new manager, i.e. is rebuilt *)
Definition md_change (sts : list (option mcgen)) (shgs : list shgT) : res (list (option mcgen)) :=
  mapM (fun o => match o with
                 | None => Ok None
                 | Some st => do s <- mc_init shgs (g_dss st); Ok (Some s)
                 end) sts.

(* an oracle that MEETS the choice contract: the state is a counter; the i-th
   drawn index is the (g+i)-th index of non-zero probability, cyclically *)
Definition pos_idx (p : list Z) : list nat := filter (fun i => 0 <? nth i p 0) (seq 0 (length p)).
Definition cyc_choice (g : nat) (p : list Z) (k : nat) : list nat * nat :=
  (map (fun i => nth (Nat.modulo (g + i) (length (pos_idx p))) (pos_idx p) O) (seq 0 k), (g + k)%nat).

(* the oracle used to *run* the model: the generator state is the list of the
   index batches still to be handed out *)
Definition stream_choice (g : list (list nat)) (p : list Z) (k : nat) : list nat * list (list nat) :=
  match g with
  | [] => ([], [])
  | b :: r => (b, r)
  end.

Fixpoint assoc4 (tab : list ((Z * Z * Z * Z) * list Z)) (a b c d : Z) : list Z :=
  match tab with
  | [] => []
  | ((a', b', c', d'), v) :: r =>
    if (a =? a') && (b =? b') && (c =? c') && (d =? d') then v else assoc4 r a b c d
  end.

Fixpoint assocz (tab : list (Z * Z)) (k : Z) : Z :=
  match tab with
  | [] => 0
  | (k', v) :: r => if k =? k' then v else assocz r k
  end.
