(* C02 extension — TrialDataManager.get_values_mask_for_source_mask with its failure path:
   `np.arange(self.n_sources)[src_mask]` raises IndexError when the boolean mask does not have
   n_sources entries; otherwise the values mask of M_Layout.values_mask (kernel lk_vmask).
   Definitions only. *)
From Coq Require Import ZArith List Bool.
From Sky Require Import Result PyList G_layout M_Layout.
Import ListNotations.
Open Scope Z_scope.

Definition values_mask_res (n_sources : nat) (src_mask : list bool) (val_src : list Z) : res (list bool) :=
  if Nat.eqb (length src_mask) n_sources then Ok (values_mask src_mask val_src) else Err IndexError.
