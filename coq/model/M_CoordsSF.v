(* IEEE-754 binary64 arithmetic (+ - * / sqrt, comparisons) from Coq's executable
   specification Coq.Floats.SpecFloat (plain Gallina, round to nearest even, no
   primitive, no axiom) as an instance of Num, for closed float witnesses of the
   algebraic part of rotate_spherical_vector (cross product, normalisation,
   Rodrigues matrix, matrix-vector product).  Trigonometric fields are NaN and
   are not used by those parts.  Definitions only. *)
From Coq Require Import ZArith List Bool SpecFloat.
From Sky Require Import Num M_Coords.
Open Scope Z_scope.

Definition c19_sf := spec_float.
Definition c19_add := SFadd 53 1024.
Definition c19_sub := SFsub 53 1024.
Definition c19_mul := SFmul 53 1024.
Definition c19_div := SFdiv 53 1024.
Definition c19_sqrt := SFsqrt 53 1024.
(* the double nearest to m * 2^e *)
Definition c19_of (m e : Z) : c19_sf := binary_normalize 53 1024 m e false.
Definition c19_nan1 (_ : c19_sf) : c19_sf := S754_nan.
Definition c19_nan2 (_ _ : c19_sf) : c19_sf := S754_nan.
Definition c19_isnan (x : c19_sf) : bool := match x with S754_nan => true | _ => false end.

Definition C19SF : Num c19_sf := {|
  nzero := S754_zero false; none := c19_of 1 0;
  nadd := c19_add; nsub := c19_sub; nmul := c19_mul; ndiv := c19_div; nopp := SFopp;
  nltb := SFltb; nleb := SFleb; neqb := SFeqb;
  nsqrt := c19_sqrt; nexp := c19_nan1; nln := c19_nan1; nlog1p := c19_nan1; nlog10 := c19_nan1;
  nsin := c19_nan1; ncos := c19_nan1; ntan := c19_nan1;
  nasin := c19_nan1; nacos := c19_nan1; natan := c19_nan1;
  nabs := SFabs; nfloor := c19_nan1; nceil := c19_nan1; nrint := c19_nan1; ntrunc := c19_nan1;
  nerf := c19_nan1;
  natan2 := c19_nan2; npow := c19_nan2; nfmod := c19_nan2;
  nmin := c19_nan2; nmax := c19_nan2;
  npi := S754_nan;
  nisnan := c19_isnan
|}.

(* The antipodal finding on doubles.  v1 = fl(dirv(1.0, 0.5)) and
   v2 = fl(dirv(fl(1.0 + pi), -0.5)) as numpy computes them (the harness checks
   these literals against numpy on every run); cos_alpha = -1 after clipping,
   sin_alpha = fl(sin(fl(arccos(-1)))) = 1.2246e-16. *)
Definition wit_v1 : vec (T := c19_sf) :=
  (c19_of 4270852533788227 (-53), c19_of 3325729363491873 (-52), c19_of 539785169252447 (-50)).
Definition wit_v2 : vec (T := c19_sf) :=
  (c19_of (-4270852533788227) (-53), c19_of (-6651458726983745) (-53), c19_of (-539785169252447) (-50)).
Definition wit_c : c19_sf := c19_of (-1) 0.
Definition wit_s : c19_sf := c19_of 4967757600021511 (-105).
Definition wit_axis : vec (T := c19_sf) := rot_axis C19SF wit_v1 wit_v2.
(* the true direction rotated "onto the source" *)
Definition wit_image : vec (T := c19_sf) := matvec C19SF (rot_matrix_of C19SF wit_c wit_s wit_axis) wit_v1.
