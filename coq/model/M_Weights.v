(* C03 — model of the weights services and of the composition they feed:
   skyllh/core/services.py   SrcDetSigYieldWeightsService.calculate  (a_jk = W_k * Y_jk, written
                             per source-hypothesis-group slice into an np.empty table)
                             DatasetSignalWeightFactorsService.calculate (f_j; formulas of M_Llh)
   skyllh/core/pdfratio.py   SourceWeightedPDFRatio.get_ratio (row a_jk[dataset_idx], per-source
                             masks, numpy `+=` through an index array, IndexError of a bad index)
   skyllh/core/llhratio.py   MultiDatasetTCLLHRatio.evaluate (value part: sum over the datasets of
                             the single-dataset value at ns * f[j])
   Polymorphic in the number system.  Formulas are the regenerated kernels of gen/G_weights.v
   (index plumbing, this property) and gen/G_llh.v (arithmetic, shared with C01/C02).
   Definitions only. *)
From Coq Require Import ZArith List Bool.
From Sky Require Import Result PyList Num G_llh G_weights M_Llh.
Import ListNotations.
Open Scope Z_scope.

Section Weights.
  Context {T : Type} (Nm : Num T).

  (* ------------------------------------------------------------------ *)
  (* the slices  slice(sidx, sidx + shg_n_src)  of the sidx loop          *)
  Fixpoint slices_from (sidx : Z) (sizes : list Z) : list (Z * Z) :=
    match sizes with
    | [] => []
    | n :: r => (k_slice_lo sidx, k_slice_hi sidx n) :: slices_from (k_sidx_next sidx n) r
    end.
  Definition slices (sizes : list Z) : list (Z * Z) := slices_from k_sidx_init sizes.

  (* `src_weights * Yg` : numpy broadcasting of two 1-D arrays *)
  Definition bmul (W Y : list T) : res (list T) :=
    if Nat.eqb (length W) (length Y)
    then Ok (map (fun p => k_a_jk Nm (fst p) (snd p)) (combine W Y))
    else match Y, W with
         | [y], _ => Ok (map (fun w => k_a_jk Nm w y) W)
         | _, [w] => Ok (map (fun y => k_a_jk Nm w y) Y)
         | _, _ => Err ValueError
         end.

  (* `row[lo:hi] = v` on a 1-D array: the slice is clamped as Python does, the
     value must have the slice's length or length 1 (broadcast) *)
  Definition set_slice (row : list (option T)) (lo hi : Z) (v : list T) : res (list (option T)) :=
    let n := zlen row in
    let a := py_norm_idx n lo in
    let b := py_norm_idx n hi in
    let len := Z.to_nat (b - a) in
    let put (w : list T) :=
        firstn (Z.to_nat a) row ++ map Some w ++ skipn (Z.to_nat a + len) row in
    if Nat.eqb (length v) len then Ok (put v)
    else match v with
         | [x] => Ok (put (repeat x len))
         | _ => Err ValueError
         end.

  (* for ds_idx in range(n_datasets): the table has one row per dataset;
     Ycol = [Y[0][g]; Y[1][g]; ...] are the yields returned for this group *)
  Fixpoint calc_ds (lo hi : Z) (W : list T) (Ycol : list (list T))
           (tbl : list (list (option T))) : res (list (list (option T))) :=
    match tbl with
    | [] => Ok []
    | row :: tbl' =>
        match Ycol with
        | [] => Err IndexError
        | Yg :: Ycol' =>
            do v <- bmul W Yg;
            do row' <- set_slice row lo hi v;
            do t <- calc_ds lo hi W Ycol' tbl';
            Ok (row' :: t)
        end
    end.

  (* for (shg, src_weights) in zip(shg_list, src_weight_array_list) *)
  Fixpoint calc_groups (sidx : Z) (groups : list (list T * list (list T)))
           (tbl : list (list (option T))) : res (list (list (option T))) :=
    match groups with
    | [] => Ok tbl
    | (W, Ycol) :: r =>
        let n := zlen W in
        do tbl' <- calc_ds (k_slice_lo sidx) (k_slice_hi sidx n) W Ycol tbl;
        calc_groups (k_sidx_next sidx n) r tbl'
    end.

  (* shg_mgr.n_sources: the manager's source map has one row per source of every group *)
  Definition n_sources (groups : list (list T * list (list T))) : Z :=
    zsum (map (fun g => zlen (fst g)) groups).

  (* an entry of the np.empty table that no slice wrote would be an
     uninitialised read: flagged with its own error kind (proved unreachable) *)
  Definition read_entry (o : option T) : res T :=
    match o with Some x => Ok x | None => Err AssertionError end.

  Definition a_jk_calc (n_datasets : nat) (groups : list (list T * list (list T)))
    : res (list (list T)) :=
    let tbl0 := repeat (repeat None (Z.to_nat (n_sources groups))) n_datasets in
    do tbl <- calc_groups k_sidx_init groups tbl0;
    mapM (mapM read_entry) tbl.

  (* ------------------------------------------------------------------ *)
  (* SourceWeightedPDFRatio.get_ratio with the index plumbing of this file *)
  Definition src_of_val (v : nat * nat * T) : nat := fst (fst v).
  Definition evt_of_val (v : nat * nat * T) : nat := snd (fst v).

  Definition mine (k : nat) (vals : list (nat * nat * T)) : list (nat * nat * T) :=
    filter (fun v => k_src_mask (Z.of_nat (src_of_val v)) (Z.of_nat k)) vals.

  Definition stack_step (a_k : list T) (vals : list (nat * nat * T))
             (R_i : list T) (k : nat) : list T :=
    let ak := nth k a_k (nzero Nm) in
    fancy_add (fun old r => k_sw_term Nm old r ak) R_i
              (map (fun v => (evt_of_val v, snd v)) (mine k vals)).

  (* R_i[evt_idxs[src_mask]] raises IndexError for an event index >= n_selected_events;
     only the pairs of the sources k < n_sources are ever touched *)
  Definition idx_ok (n_src n_sel : nat) (vals : list (nat * nat * T)) : bool :=
    forallb (fun v => negb (Nat.ltb (src_of_val v) n_src) || Nat.ltb (evt_of_val v) n_sel) vals.

  Definition stacked_ratio (a_k : list T) (n_sel : nat) (vals : list (nat * nat * T))
    : res (list T) :=
    if idx_ok (length a_k) n_sel vals then
      let A := nsum Nm a_k in
      let R0 := repeat (nzero Nm) n_sel in
      let R1 := fold_left (stack_step a_k vals) (seq 0 (length a_k)) R0 in
      Ok (map (fun r => k_sw_norm Nm r A) R1)
    else Err IndexError.

  (* ------------------------------------------------------------------ *)
  (* MultiDatasetTCLLHRatio.evaluate, value part                          *)
  (* one dataset: its SourceWeightedPDFRatio's dataset_idx, N = tdm.n_events,
     n_selected_events, and the (source, event, R_ik) values of the inner ratio *)
  Definition dset : Type := (Z * T * nat * list (nat * nat * T))%type.
  Definition d_idx (d : dset) : Z := fst (fst (fst d)).
  Definition d_N (d : dset) : T := snd (fst (fst d)).
  Definition d_nsel (d : dset) : nat := snd (fst d).
  Definition d_vals (d : dset) : list (nat * nat * T) := snd d.

  (* llhratio_j.evaluate at ns_j: R_i from the stacked ratio of row a_jk[dataset_idx] *)
  Definition single_value (opa : T) (a : list (list T)) (nsj : T) (d : dset) : res T :=
    do a_k <- py_get a (k_ak_row_idx0 (d_idx d));
    do R <- stacked_ratio a_k (d_nsel d) (d_vals d);
    Ok (evaluate_value Nm opa (d_N d) nsj R).

  (* for (j, llhratio) in enumerate(llhratio_list): ns_j = nsf[j] = ns * f[j] *)
  Fixpoint multi_loop (opa ns : T) (a : list (list T)) (f : list T) (j : Z)
           (ds : list dset) (acc : T) : res T :=
    match ds with
    | [] => Ok acc
    | d :: r =>
        do fj <- py_get f (k_nsf_pick_idx0 j);
        do v <- single_value opa a (k_nsf Nm ns fj) d;
        multi_loop opa ns a f (j + 1) r (k_ll_acc Nm acc v)
    end.

  (* the constructor rejects a list of llh ratios whose length differs from the
     number of datasets of the weight-factor service *)
  Definition multi_eval (opa ns : T) (n_datasets : nat)
             (groups : list (list T * list (list T))) (ds : list dset) : res T :=
    if negb (Nat.eqb (length ds) n_datasets) then Err ValueError else
    do a <- a_jk_calc n_datasets groups;
    multi_loop opa ns a (f_j Nm a) 0 ds (k_ll_init Nm).

  (* the services alone: (a_jk, f_j) *)
  Definition weights_eval (n_datasets : nat) (groups : list (list T * list (list T)))
    : res (list (list T) * list T) :=
    do a <- a_jk_calc n_datasets groups; Ok (a, f_j Nm a).
End Weights.
