(* C03 — model of the weights services and of the composition they feed:
   skyllh/core/services.py   SrcDetSigYieldWeightsService.calculate  (a_jk = W_k * Y_jk, written
                             per source-hypothesis-group slice into an np.empty table)
                             DatasetSignalWeightFactorsService.calculate (f_j; formulas of M_Llh)
   skyllh/core/pdfratio.py   SourceWeightedPDFRatio.get_ratio (row a_jk[dataset_idx], per-source
                             masks, numpy `+=` through an index array, IndexError of a bad index)
   skyllh/core/llhratio.py   MultiDatasetTCLLHRatio.evaluate (value part: sum over the datasets of
                             the single-dataset value at ns * f[j])
   Polymorphic in the number system.  Every formula is a regenerated kernel of gen/G_weights.v.
   Self-contained: the pieces this property shares with C01 (value of the single-dataset
   log-likelihood ratio, numpy's `+=` through an index array, f_j) are defined here a second
   time over this property's own kernels (named w_...), in the same shape as in M_Llh.v, so that the
   build of C03 does not depend on files that other checks regenerate.
   Definitions only. *)
From Coq Require Import ZArith List Bool.
From Sky Require Import Result PyList Num G_weights.
Import ListNotations.
Open Scope Z_scope.

Section Weights.
  Context {T : Type} (Nm : Num T).


  (* ------------------------------------------------------------------ *)
  (* value of ZeroSigH0SingleDatasetTCLLHRatio.evaluate (same shape as M_Llh.v) *)
  Definition ev_alpha_i (ns x : T) : T := w_alpha_i Nm ns x.
  Definition ev_stable (opa ns x : T) : bool :=
    w_m_stable Nm (ev_alpha_i ns x) (w_alpha Nm opa).
  Definition ev_tilde (opa ns x : T) : T :=
    w_tildealpha Nm (ev_alpha_i ns x) (w_alpha Nm opa) opa.
  Definition ev_loglam (opa ns x : T) : T :=
    if ev_stable opa ns x
    then w_loglam_stable Nm (ev_alpha_i ns x)
    else w_loglam_unstable Nm (w_alpha Nm opa) (ev_tilde opa ns x).
  Definition nlen {A} (l : list A) : T := ofZ Nm (Z.of_nat (length l)).
  (* log_lambda = np.sum(log_lambda_i) + (N - N')*log1p(-ns/N) *)
  Definition log_lambda (opa Ntot ns : T) (X : list T) : T :=
    w_log_lambda Nm Ntot (nlen X) ns (nsum Nm (map (ev_loglam opa ns) X)).
  (* Xi = (Ri - 1)/N *)
  Definition Xs (Ntot : T) (R : list T) : list T := map (fun r => w_Xi Nm r Ntot) R.
  Definition evaluate_value (opa Ntot ns : T) (R : list T) : T :=
    log_lambda opa Ntot ns (Xs Ntot R).

  (* ------------------------------------------------------------------ *)
  (* SourceWeightedPDFRatio.get_ratio: numpy `R_i[idx] += v` reads the OLD array
     and, for a repeated index inside one statement, the last write wins *)
  Fixpoint last_for (e : nat) (pairs : list (nat * T)) : option T :=
    match pairs with
    | [] => None
    | (i, v) :: r =>
        match last_for e r with
        | Some w => Some w
        | None => if Nat.eqb i e then Some v else None
        end
    end.

  (* one `+=` statement: pairs = (event index, increment) in array order; the
     combining kernel `upd old incr` is the translated `old + incr` *)
  Definition fancy_add (upd : T -> T -> T) (old : list T) (pairs : list (nat * T)) : list T :=
    map (fun ie => match last_for (fst ie) pairs with
                   | Some v => upd (snd ie) v
                   | None => snd ie
                   end)
        (combine (seq 0 (length old)) old).

  (* values : list of (source index, event index, R_ik) in values-array order *)
  Definition sw_source_step (a_k : list T) (vals : list (nat * nat * T))
             (R_i : list T) (k : nat) : list T :=
    let ak := nth k a_k (nzero Nm) in
    let mine := filter (fun v => Nat.eqb (fst (fst v)) k) vals in
    fancy_add (fun old r => w_sw_term Nm old r ak)
      R_i
      (map (fun v => (snd (fst v), snd v)) mine).

  (* the ratio without the index check (mask written with Nat.eqb); stacked_ratio
     below is the faithful one and is proved equal to it when the check passes *)
  Definition sw_ratio (a_k : list T) (n_sel : nat) (vals : list (nat * nat * T)) : list T :=
    let A := nsum Nm a_k in
    let R0 := repeat (nzero Nm) n_sel in
    let R1 := fold_left (sw_source_step a_k vals) (seq 0 (length a_k)) R0 in
    map (fun r => w_sw_norm Nm r A) R1.

  (* ------------------------------------------------------------------ *)
  (* DatasetSignalWeightFactorsService.calculate: f_j = sum_k a_jk / sum_jk a_jk *)
  Definition a_row (W : list T) (Yrow : list T) : list T :=
    map (fun p => w_a_jk Nm (fst p) (snd p)) (combine W Yrow).
  Definition a_table (W : list T) (Y : list (list T)) : list (list T) := map (a_row W) Y.
  Definition a_j (a : list (list T)) : list T := map (nsum Nm) a.
  (* np.sum over the whole 2D array *)
  Definition a_tot (a : list (list T)) : T := nsum Nm (concat a).
  Definition f_j (a : list (list T)) : list T :=
    map (fun aj => w_f_j Nm aj (a_tot a)) (a_j a).

  (* the additive form: f = dataset weights, ds = per-dataset (N_j, R_j) *)
  Definition multi_value (opa ns : T) (f : list T) (ds : list (T * list T)) : T :=
    nsum Nm (map (fun p => evaluate_value opa (fst (snd p)) (w_nsf Nm ns (fst p)) (snd (snd p)))
                 (combine f ds)).

  (* ------------------------------------------------------------------ *)
  (* the slices  slice(sidx, sidx + shg_n_src)  of the sidx loop          *)
  Fixpoint slices_from (sidx : Z) (sizes : list Z) : list (Z * Z) :=
    match sizes with
    | [] => []
    | n :: r => (k_slice_lo sidx, k_slice_hi sidx n) :: slices_from (k_sidx_next sidx n) r
    end.
  Definition slices (sizes : list Z) : list (Z * Z) := slices_from k_sidx_init sizes.

  (* `src_weights * Yg` : numpy broadcasting of two 1-D arrays *)
  Definition bmul (W Y : list T) : res (list T) :=
    if Nat.eqb (length W) (length Y)
    then Ok (map (fun p => w_a_jk Nm (fst p) (snd p)) (combine W Y))
    else match Y, W with
         | [y], _ => Ok (map (fun w => w_a_jk Nm w y) W)
         | _, [w] => Ok (map (fun y => w_a_jk Nm w y) Y)
         | _, _ => Err ValueError
         end.

  (* `row[lo:hi] = v` on a 1-D array: the slice is clamped as Python does, the
     value must have the slice's length or length 1 (broadcast) *)
  Definition set_slice (row : list (option T)) (lo hi : Z) (v : list T) : res (list (option T)) :=
    let n := zlen row in
    let a := py_norm_idx n lo in
    let b := py_norm_idx n hi in
    let len := Z.to_nat (b - a) in
    let put (w : list T) :=
        firstn (Z.to_nat a) row ++ map Some w ++ skipn (Z.to_nat a + len) row in
    if Nat.eqb (length v) len then Ok (put v)
    else match v with
         | [x] => Ok (put (repeat x len))
         | _ => Err ValueError
         end.

  (* for ds_idx in range(n_datasets): the table has one row per dataset;
     Ycol = [Y[0][g]; Y[1][g]; ...] are the yields returned for this group *)
  Fixpoint calc_ds (lo hi : Z) (W : list T) (Ycol : list (list T))
           (tbl : list (list (option T))) {struct tbl} : res (list (list (option T))) :=
    match tbl with
    | [] => Ok []
    | row :: tbl' =>
        match Ycol with
        | [] => Err IndexError
        | Yg :: Ycol' =>
            do v <- bmul W Yg;
            do row' <- set_slice row lo hi v;
            do t <- calc_ds lo hi W Ycol' tbl';
            Ok (row' :: t)
        end
    end.

  (* for (shg, src_weights) in zip(shg_list, src_weight_array_list) *)
  Fixpoint calc_groups (sidx : Z) (groups : list (list T * list (list T)))
           (tbl : list (list (option T))) : res (list (list (option T))) :=
    match groups with
    | [] => Ok tbl
    | (W, Ycol) :: r =>
        let n := zlen W in
        do tbl' <- calc_ds (k_slice_lo sidx) (k_slice_hi sidx n) W Ycol tbl;
        calc_groups (k_sidx_next sidx n) r tbl'
    end.

  (* shg_mgr.n_sources: the manager's source map has one row per source of every group *)
  Definition n_sources (groups : list (list T * list (list T))) : Z :=
    zsum (map (fun g => zlen (fst g)) groups).

  (* an entry of the np.empty table that no slice wrote would be an
     uninitialised read: flagged with its own error kind (proved unreachable) *)
  Definition read_entry (o : option T) : res T :=
    match o with Some x => Ok x | None => Err AssertionError end.

  Definition a_jk_calc (n_datasets : nat) (groups : list (list T * list (list T)))
    : res (list (list T)) :=
    let tbl0 := repeat (repeat None (Z.to_nat (n_sources groups))) n_datasets in
    do tbl <- calc_groups k_sidx_init groups tbl0;
    mapM (mapM read_entry) tbl.

  (* a long-lived service: the constructor captures the source weights (one array per
     hypothesis group); change_shg_mgr re-creates them from the manager's current sources
     (kernels k_init_weights, k_chg_weights pin the two statements); calculate multiplies
     the captured arrays with the yields returned for the current sources *)
  Definition svc_change (captured current : list (list T)) : list (list T) := current.
  Definition svc_weights (W0 : list (list T)) (changes : list (list (list T))) : list (list T) :=
    fold_left svc_change changes W0.
  Definition a_jk_after (n_datasets : nat) (W0 : list (list T)) (changes : list (list (list T)))
             (Ycols : list (list (list T))) : res (list (list T)) :=
    a_jk_calc n_datasets (combine (svc_weights W0 changes) Ycols).

  (* ------------------------------------------------------------------ *)
  (* SourceWeightedPDFRatio.get_ratio with the index plumbing of this file *)
  Definition src_of_val (v : nat * nat * T) : nat := fst (fst v).
  Definition evt_of_val (v : nat * nat * T) : nat := snd (fst v).

  Definition mine (k : nat) (vals : list (nat * nat * T)) : list (nat * nat * T) :=
    filter (fun v => k_src_mask (Z.of_nat (src_of_val v)) (Z.of_nat k)) vals.

  Definition stack_step (a_k : list T) (vals : list (nat * nat * T))
             (R_i : list T) (k : nat) : list T :=
    let ak := nth k a_k (nzero Nm) in
    fancy_add (fun old r => w_sw_term Nm old r ak) R_i
              (map (fun v => (evt_of_val v, snd v)) (mine k vals)).

  (* R_i[evt_idxs[src_mask]] raises IndexError for an event index >= n_selected_events;
     only the pairs of the sources k < n_sources are ever touched *)
  Definition idx_ok (n_src n_sel : nat) (vals : list (nat * nat * T)) : bool :=
    forallb (fun v => negb (Nat.ltb (src_of_val v) n_src) || Nat.ltb (evt_of_val v) n_sel) vals.

  Definition stacked_ratio (a_k : list T) (n_sel : nat) (vals : list (nat * nat * T))
    : res (list T) :=
    if idx_ok (length a_k) n_sel vals then
      let A := nsum Nm a_k in
      let R0 := repeat (nzero Nm) n_sel in
      let R1 := fold_left (stack_step a_k vals) (seq 0 (length a_k)) R0 in
      Ok (map (fun r => w_sw_norm Nm r A) R1)
    else Err IndexError.

  (* ------------------------------------------------------------------ *)
  (* MultiDatasetTCLLHRatio.evaluate, value part                          *)
  (* one dataset: its SourceWeightedPDFRatio's dataset_idx, N = tdm.n_events,
     n_selected_events, and the (source, event, R_ik) values of the inner ratio *)
  Definition dset : Type := (Z * T * nat * list (nat * nat * T))%type.
  Definition d_idx (d : dset) : Z := fst (fst (fst d)).
  Definition d_N (d : dset) : T := snd (fst (fst d)).
  Definition d_nsel (d : dset) : nat := snd (fst d).
  Definition d_vals (d : dset) : list (nat * nat * T) := snd d.

  (* llhratio_j.evaluate at ns_j: R_i from the stacked ratio of row a_jk[dataset_idx] *)
  Definition single_value (opa : T) (a : list (list T)) (nsj : T) (d : dset) : res T :=
    do a_k <- py_get a (k_ak_row_idx0 (d_idx d));
    do R <- stacked_ratio a_k (d_nsel d) (d_vals d);
    Ok (evaluate_value opa (d_N d) nsj R).

  (* for (j, llhratio) in enumerate(llhratio_list): ns_j = nsf[j] = ns * f[j] *)
  Fixpoint multi_loop (opa ns : T) (a : list (list T)) (f : list T) (j : Z)
           (ds : list dset) (acc : T) : res T :=
    match ds with
    | [] => Ok acc
    | d :: r =>
        do fj <- py_get f (k_nsf_pick_idx0 j);
        do v <- single_value opa a (w_nsf Nm ns fj) d;
        multi_loop opa ns a f (j + 1) r (k_ll_acc Nm acc v)
    end.

  (* the constructor rejects a list of llh ratios whose length differs from the
     number of datasets of the weight-factor service *)
  Definition multi_eval (opa ns : T) (n_datasets : nat)
             (groups : list (list T * list (list T))) (ds : list dset) : res T :=
    if negb (Nat.eqb (length ds) n_datasets) then Err ValueError else
    do a <- a_jk_calc n_datasets groups;
    multi_loop opa ns a (f_j a) 0 ds (k_ll_init Nm).

  (* the services alone: (a_jk, f_j) *)
  Definition weights_eval (n_datasets : nat) (groups : list (list T * list (list T)))
    : res (list (list T) * list T) :=
    do a <- a_jk_calc n_datasets groups; Ok (a, f_j a).

  (* ------------------------------------------------------------------ *)
  (* the service as an object with state: source record arrays and source weights.
     A configuration cfg = (W, to_rec): the current source weights per group and
       to_rec j g g' = arr[j][g].sources_to_recarray(shg_list[g'].source_list)
     for the CURRENT sources.  yield_call j g rec = arr[j, g](src_recarray = rec). *)
  Section Service.
    Context {Rec : Type}.

    (* create_src_recarray_list_list: for ds_idx: for shg_idx:
         arr[ds_idx][shg_idx].sources_to_recarray(shg_list[shg_idx].source_list) *)
    Definition create_recarrays (to_rec : Z -> Z -> Z -> Rec) (n_datasets n_shgs : nat)
      : list (list Rec) :=
      map (fun j => map (fun g => to_rec (k_rec_arr_ds_idx0 (Z.of_nat j))
                                         (k_rec_arr_shg_idx0 (Z.of_nat g))
                                         (k_rec_shg_idx0 (Z.of_nat g)))
                        (seq 0 n_shgs))
          (seq 0 n_datasets).

    Definition svc_cfg : Type := (list (list T) * (Z -> Z -> Z -> Rec))%type.

    (* what the object stores: _src_weight_array_list, _src_recarray_list_list, _a_jk *)
    Record svc_state : Type := {
      st_W : list (list T);
      st_recs : list (list Rec);
      st_ajk : option (list (list T))
    }.

    (* __init__: the two arrays are created from the manager's current sources, _a_jk = None *)
    Definition svc_init (J G : nat) (cfg : svc_cfg) : svc_state :=
      {| st_W := fst cfg; st_recs := create_recarrays (snd cfg) J G; st_ajk := None |}.

    (* change_shg_mgr, statement by statement on the OLD state:
         self._src_recarray_list_list = create_src_recarray_list_list(...)     (k_chg_recarrays)
         self._src_weight_array_list = create_src_weight_array_list(...)       (k_chg_weights)
       nothing else is touched: _a_jk keeps the table of the last calculate *)
    Definition set_recs (st : svc_state) (r : list (list Rec)) : svc_state :=
      {| st_W := st_W st; st_recs := r; st_ajk := st_ajk st |}.
    Definition set_W (st : svc_state) (w : list (list T)) : svc_state :=
      {| st_W := w; st_recs := st_recs st; st_ajk := st_ajk st |}.
    Definition svc_change_to (J G : nat) (old : svc_state) (cfg : svc_cfg) : svc_state :=
      set_W (set_recs old (create_recarrays (snd cfg) J G)) (fst cfg).
    Definition svc_after (J G : nat) (cfg0 : svc_cfg) (changes : list svc_cfg) : svc_state :=
      fold_left (svc_change_to J G) changes (svc_init J G cfg0).

    (* get_weights returns whatever the last calculate stored *)
    Definition svc_get_weights (st : svc_state) : option (list (list T)) := st_ajk st.

    (* calculate, group shg_idx (slice sl of the sources): for ds_idx:
         src_recarray = stored[ds_idx][shg_idx];
         Yg = arr[ds_idx, shg_idx](src_recarray, src_params_recarray[shg_src_slice]) *)
    Definition ycol_of (yield_call : Z -> Z -> Rec -> Z * Z -> list T) (recs : list (list Rec))
               (n_datasets : nat) (g : nat) (sl : Z * Z) : res (list (list T)) :=
      mapM (fun j => do row <- py_get recs (k_calc_rec_ds_idx0 (Z.of_nat j));
                     do rec <- py_get row (k_calc_rec_shg_idx0 (Z.of_nat g));
                     Ok (yield_call (Z.of_nat j) (Z.of_nat g) rec sl))
           (seq 0 n_datasets).

    (* the slice of the source parameters group g is evaluated with *)
    Definition param_slices (W : list (list T)) : list (Z * Z) := slices (map zlen W).

    (* the (W_g, [Y_g for every dataset]) groups a freshly built service would see for cfg:
       cell (j, g) = arr[j, g] applied to the record array arr[j][g] builds from group g's sources
       and to group g's slice of the source parameters *)
    Definition svc_groups (J : nat) (cfg : svc_cfg) (yield_call : Z -> Z -> Rec -> Z * Z -> list T)
      : list (list T * list (list T)) :=
      combine (fst cfg)
              (map (fun gs => map (fun j => yield_call (Z.of_nat j) (Z.of_nat (fst gs))
                                               (snd cfg (Z.of_nat j) (Z.of_nat (fst gs)) (Z.of_nat (fst gs)))
                                               (snd gs))
                                  (seq 0 J))
                   (combine (seq 0 (length (fst cfg))) (param_slices (fst cfg)))).

    Definition svc_calculate (J : nat) (st : svc_state)
               (yield_call : Z -> Z -> Rec -> Z * Z -> list T) : res (list (list T)) :=
      do Y <- mapM (fun gs => ycol_of yield_call (st_recs st) J (fst gs) (snd gs))
                   (combine (seq 0 (length (st_W st))) (param_slices (st_W st)));
      a_jk_calc J (combine (st_W st) Y).

    (* calculate as a state transformer: the table is stored *)
    Definition svc_calculate_st (J : nat) (st : svc_state)
               (yield_call : Z -> Z -> Rec -> Z * Z -> list T) : res svc_state :=
      do a <- svc_calculate J st yield_call;
      Ok {| st_W := st_W st; st_recs := st_recs st; st_ajk := Some a |}.

    Definition weights_eval_svc (J : nat) (cfg0 : svc_cfg) (changes : list svc_cfg)
               (yield_call : Z -> Z -> Rec -> Z * Z -> list T) : res (list (list T) * list T) :=
      do a <- svc_calculate J (svc_after J (length (fst (last changes cfg0))) cfg0 changes) yield_call;
      Ok (a, f_j a).

    (* MultiDatasetTCLLHRatio.evaluate on the long-lived objects: both services are
       recalculated on every call, unconditionally (kernels k_eval_ifs, k_eval_ncalc_a, k_eval_ncalc_f) *)
    Definition multi_eval_svc (opa ns : T) (J : nat) (st : svc_state)
               (yield_call : Z -> Z -> Rec -> Z * Z -> list T) (ds : list dset) : res T :=
      if negb (Nat.eqb (length ds) J) then Err ValueError else
      do a <- svc_calculate J st yield_call;
      multi_loop opa ns a (f_j a) 0 ds (k_ll_init Nm).
  End Service.
End Weights.
