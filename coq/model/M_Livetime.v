(* Model of skyllh/core/livetime.py (Livetime) and dataset.get_data_subset.
   Times are integers: every finite set of float64 values embeds exactly into
   Z after scaling by a power of two, comparisons are exact, and +/- are read
   as real-number operations (rounding of `lower + y` is a named gap).
   Formulas come from the regenerated gen/G_livetime.v; this file supplies the
   control flow, array plumbing and error paths.  Definitions only. *)
From Coq Require Import ZArith List Bool.
From Sky Require Import Result PyList G_livetime.
Import ListNotations.
Open Scope Z_scope.

Definition intervals := list (Z * Z).

(* assert_mjd_intervals_integrity: np.all(np.diff(arr.flat) >= 0) *)
Fixpoint nondecreasing (l : list Z) : bool :=
  match l with
  | a :: ((b :: _) as r) => (a <=? b) && nondecreasing r
  | _ => true
  end.
Definition integrity (ivs : intervals) : bool := nondecreasing (flat2 ivs).

(* _get_onoff_interval_indices *)
Definition onoff_idx (ivs : intervals) (t : Z) : Z := digitize t (flat2 ivs).

(* is_on *)
Definition is_on (ivs : intervals) (t : Z) : bool := is_on_flag (onoff_idx ivs t).

(* livetime property: np.sum(np.diff(arr)) along the last axis *)
Definition widths (ivs : intervals) : list Z := map (fun iv => snd iv - fst iv) ivs.
Definition livetime (ivs : intervals) : Z := zsum (widths ivs).

(* get_uptime_intervals_between *)
Definition between (ivs : intervals) (t_start t_end : Z) : res intervals :=
  let onoff := flat2 ivs in
  let si := onoff_idx ivs t_start in
  let ei := onoff_idx ivs t_end in
  if btw_none (btw_N_pre si ei) then Ok []
  else
    do st <- (if btw_start_off si
              then do v <- py_get onoff (btw_start_edge_idx0 si); Ok (btw_start_edge si v, si)
              else Ok (t_start, btw_start_dec si));
    let '(t_start', si') := st in
    do en <- (if btw_end_off ei
              then do v <- py_get onoff (btw_end_edge_idx0 ei); Ok (btw_end_edge ei v, ei)
              else Ok (t_end, btw_end_inc ei));
    let '(t_end', ei') := en in
    let n := btw_N si' ei' in
    (* np.empty((n*2,)): a negative size raises ValueError; flat[0] = ... on an
       empty array raises IndexError; flat[1:-1] = mid needs equal lengths *)
    if n <? 0 then Err ValueError else
    if n =? 0 then Err IndexError else
    let mid := if btw_many n
               then py_slice onoff (btw_mid_lo si') (btw_mid_hi ei') else [] in
    if btw_many n && negb (zlen mid =? 2 * n - 2) then Err ValueError else
    Ok (unflat2 (t_start' :: mid ++ [t_end'])).

(* get_livetime_upto, per element *)
Definition cum_ontime_bins (ivs : intervals) : list Z := 0 :: cumsum (widths ivs).

Definition upto (ivs : intervals) (mjd : Z) : res Z :=
  let onoff := flat2 ivs in
  let oi := onoff_idx ivs mjd in
  let odd := upto_odd oi in
  let idxs := upto_idxs_inc (upto_idxs odd oi) in
  let cum := cum_ontime_bins ivs in
  (* np.where evaluates both branches: all three lookups happen *)
  do a <- py_get cum (upto_livetimes_idx0 odd mjd idxs oi);
  do b <- py_get onoff (upto_livetimes_idx1 odd mjd idxs oi);
  do c <- py_get cum (upto_livetimes_idx2 odd mjd idxs oi);
  Ok (upto_livetimes odd mjd idxs oi a b c).

(* draw_ontimes for one already scaled uniform w = x*L, on a given interval
   array (the full one, or the result of `between`) *)
Definition draw_on (arr : intervals) (w : Z) : res Z :=
  let cum := 0 :: cumsum (evens (diff (flat2 arr))) in
  let idxs := digitize w cum in
  do c <- py_get cum (draw_y_idx0 w idxs);
  let y := draw_y w idxs c in
  do lo <- py_get (map fst arr) (draw_ontime_idx0 y idxs);
  let o := draw_ontime y idxs lo in
  (* kept strictly below the upper edge of its interval (np.minimum with np.nextafter, fix de40f4d) *)
  do up <- py_get (map snd arr) (draw_clip_idx0 o idxs);
  do lo' <- py_get (map fst arr) (draw_clip_idx1 o idxs);
  Ok (draw_clip o idxs up lo').

Definition draw_total (arr : intervals) : Z :=
  last (0 :: cumsum (evens (diff (flat2 arr)))) 0.

Definition draw (ivs : intervals) (window : option (Z * Z)) (w : Z) : res Z :=
  match window with
  | None => draw_on ivs w
  | Some (t_min, t_max) => do arr <- between ivs t_min t_max; draw_on arr w
  end.

(* draw_ontimes with optional bounds, as the code treats them: a bound is "not
   given" only when it is None (a bound of 0 IS given); a missing bound is
   replaced by time_start / time_stop = first lower / last upper edge. *)
Definition time_start (ivs : intervals) : res Z :=
  match ivs with [] => Err IndexError | (l, _) :: _ => Ok l end.
Definition time_stop (ivs : intervals) : res Z :=
  match ivs with [] => Err IndexError | _ => Ok (last (map snd ivs) 0) end.

Definition draw_opt (ivs : intervals) (t_min t_max : option Z) (w : Z) : res Z :=
  if draw_has_window t_min t_max then
    do a <- (if draw_tmin_missing t_min then time_start ivs
             else match t_min with Some a => Ok a | None => Err TypeError end);
    do b <- (if draw_tmax_missing t_max then time_stop ivs
             else match t_max with Some b => Ok b | None => Err TypeError end);
    do arr <- between ivs a b; draw_on arr w
  else draw_on ivs w.

(* get_data_subset: kept event times and the live time of the subset *)
Definition subset_events (times : list Z) (t_start t_stop : Z) : list Z :=
  filter (fun t => subset_keep t_start t_stop t t) times.

Definition subset (ivs : intervals) (times : list Z) (t_start t_stop : Z)
  : res (list Z * intervals * Z) :=
  do arr <- between ivs t_start t_stop;
  if integrity arr then Ok (subset_events times t_start t_stop, arr, livetime arr)
  else Err ValueError.

(* ---- good-run list -> Livetime (publicdata_ps/utils.clip_grl_start_times, I3Livetime.from_grl_data,
   Livetime.get_integrated_livetime).  A good-run list is the list of its (start, stop) rows. *)

(* clip_grl_start_times: start[1:] = where(start[1:] - stop[:-1] < 0, stop[:-1], start[1:]); the stop column is
   not written, so element i is compared with the ORIGINAL stop of element i-1 *)
Fixpoint clip_from (prev_stop : Z) (runs : intervals) : intervals :=
  match runs with
  | [] => []
  | (s, e) :: r => (grl_clip_new (grl_clip_m s prev_stop) prev_stop s, e) :: clip_from e r
  end.
Definition clip_grl (runs : intervals) : intervals :=
  match runs with [] => [] | (s, e) :: r => (s, e) :: clip_from e r end.

(* Livetime.__init__ / the interval-array setter: the integrity check, then the array is stored as given *)
Definition mk_livetime (ivs : intervals) : res intervals :=
  if integrity ivs then Ok ivs else Err ValueError.
(* I3Livetime.from_grl_data: hstack of the start and the stop column, handed to the constructor *)
Definition from_grl (runs : intervals) : res intervals := mk_livetime runs.
(* the chain of time_dependent_ps.create_analysis: clip, then build the live time *)
Definition grl_livetime (runs : intervals) : res intervals := from_grl (clip_grl runs).

(* Livetime.get_integrated_livetime: a number is returned as it is, a Livetime gives its .livetime *)
Definition integrated_livetime (x : Z + intervals) : Z :=
  match x with inl v => v | inr ivs => livetime ivs end.
