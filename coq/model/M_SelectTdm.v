(* TrialDataManager as a state machine over trials (C05): the manager object is
   re-used; initialize_trial first overwrites `events`, resets `_src_evt_idxs`
   and `_n_sources`, then selects, sorts and re-assigns as modelled in
   M_Select.tdm_init.  The state carried from trial to trial is explicit here so
   that "the result of a trial does not depend on earlier trials" is a theorem
   (proofs/P_SelectTdm.v) and not built into the model: the reset and the
   `is None` tests are the translated statements of gen/G_select.v.
   Definitions only. *)
From Coq Require Import ZArith List Bool.
From Sky Require Import Result PyList G_select M_Select.
Import ListNotations.
Open Scope Z_scope.

(* an executable argsort for integer keys (insertion sort on (key, position)); used as the
   np.argsort of the index field in the correspondence of the manager histories *)
Fixpoint zins (x : Z * Z) (l : list (Z * Z)) : list (Z * Z) :=
  match l with
  | [] => [x]
  | y :: r => if fst x <=? fst y then x :: l else y :: zins x r
  end.
Definition zargsort (l : list Z) : list Z :=
  map snd (fold_right zins [] (combine l (map Z.of_nat (seq 0 (length l))))).

Section Tdm.
  Variables S E : Type.
  Variable argsort : list E -> list Z.

  Record tstate : Type := {
    td_events : list E;          (* self._events *)
    td_tbl : option tbl;         (* self._src_evt_idxs *)
    td_nsrc : nat;               (* self._n_sources *)
    td_index : bool              (* self._index_field_name is not None *)
  }.

  (* TrialDataManager(index_field_name=...) *)
  Definition tdm_new (index_field : bool) : tstate :=
    {| td_events := []; td_tbl := None; td_nsrc := 0%nat; td_index := index_field |}.

  Definition oflag {A} (o : option A) : option Z :=
    match o with None => None | Some _ => Some 0 end.
  Definition bflag (b : bool) : option Z := if b then Some 0 else None.

  (* initialize_trial(shg_mgr, pmm, events, evt_sel_method=m) on the manager in state st *)
  Definition tdm_trial (st : tstate) (m : option (meth S E)) (srcs : list S) (evs : list E)
    : res tstate :=
    (* self.events = events ; self._src_evt_idxs = None ; self._n_sources = shg_mgr.n_sources *)
    let t0 : option tbl := match tdm_reset with None => None | Some _ => td_tbl st end in
    let ns := length srcs in
    do s1 <- (if tdm_has_method (oflag m) then
                match m with
                | Some m' =>
                    do r <- run_nr m' srcs evs None;
                    Ok (fst r, Some (map (fun q => (tdm_store (fst q), tdm_store (snd q))) (snd r)))
                | None => Err TypeError
                end
              else Ok (evs, t0));
    let '(ev1, t1) := s1 in
    do s2 <- (if tdm_has_index (bflag (td_index st)) then
                let p := argsort ev1 in
                do ev2 <- mapM (take_wrap ev1) p;
                if tdm_has_tbl (oflag t1) then
                  match t1 with
                  | Some t =>
                      do inv <- scatter (length p) (repeat None (length p)) 0 p;
                      do t' <- mapM (fun q =>
                                 do v <- take_wrap inv (snd q);
                                 match v with
                                 | Some j => Ok (tdm_src_keep (fst q), tdm_new_evt j)
                                 | None => Err RuntimeError
                                 end) t;
                      Ok (ev2, Some t')
                  | None => Err TypeError
                  end
                else Ok (ev2, t1)
              else Ok (ev1, t1));
    let '(ev2, t2) := s2 in
    let t3 := if tdm_no_tbl (oflag t2)
              then full_tbl ns (length ev2)
              else match t2 with Some t => t | None => [] end in
    Ok {| td_events := ev2; td_tbl := Some t3; td_nsrc := ns; td_index := td_index st |}.

  (* operations on a manager: the index_field_name setter and a trial *)
  Inductive top : Type :=
  | TSetIndex (b : bool)
  | TTrial (m : option (meth S E)) (srcs : list S) (evs : list E).

  Definition tdm_op (st : tstate) (o : top) : res tstate :=
    match o with
    | TSetIndex b =>
        Ok {| td_events := td_events st; td_tbl := td_tbl st; td_nsrc := td_nsrc st; td_index := b |}
    | TTrial m srcs evs => tdm_trial st m srcs evs
    end.

  Fixpoint tdm_run (st : tstate) (ops : list top) : res tstate :=
    match ops with
    | [] => Ok st
    | o :: r => do st' <- tdm_op st o; tdm_run st' r
    end.

  (* the index-field setting in force after a sequence of operations *)
  Fixpoint last_index (b : bool) (ops : list top) : bool :=
    match ops with
    | [] => b
    | TSetIndex b' :: r => last_index b' r
    | TTrial _ _ _ :: r => last_index b r
    end.
End Tdm.

Arguments td_events {E} _.
Arguments td_tbl {E} _.
Arguments td_nsrc {E} _.
Arguments td_index {E} _.
Arguments tdm_new {E} _.
Arguments tdm_trial {S E} _ _ _ _ _.
Arguments TSetIndex {S E} _.
Arguments TTrial {S E} _ _ _.
Arguments tdm_op {S E} _ _ _.
Arguments tdm_run {S E} _ _ _.
Arguments last_index {S E} _ _.

(* a state as a plain tuple (for printing) *)
Definition tstate_out {E} (r : res (tstate E)) : res (list E * option tbl * Z * bool) :=
  match r with
  | Ok st => Ok (td_events st, td_tbl st, Z.of_nat (td_nsrc st), td_index st)
  | Err e => Err e
  end.
