(* C01: a number system with the IEEE special values (finite real | +inf | -inf
   | NaN) for the operations the VALUE of the log-likelihood ratio uses, so that
   the region where the code returns -inf / NaN can be stated about the SAME
   Num-polymorphic definitions (M_Llh.v, gen/G_llh.v).  No rounding: finite
   results are exact reals.  Deviation from IEEE, stated: there are no signed
   zeros, so a finite number divided by zero is NaN here (IEEE: +-inf or NaN);
   the theorems exclude division by zero (N > 0, threshold > 0).  Fields not
   used by the value are dummies.  Definitions only. *)
From Coq Require Import Reals ZArith List.
From Sky Require Import Num NumR.
Open Scope R_scope.

Inductive xr : Type := XF (r : R) | XPInf | XNInf | XNaN.

Definition xopp (a : xr) : xr :=
  match a with XF r => XF (- r) | XPInf => XNInf | XNInf => XPInf | XNaN => XNaN end.

Definition xadd (a b : xr) : xr :=
  match a, b with
  | XNaN, _ => XNaN
  | _, XNaN => XNaN
  | XF x, XF y => XF (x + y)
  | XPInf, XNInf => XNaN
  | XNInf, XPInf => XNaN
  | XPInf, _ => XPInf
  | _, XPInf => XPInf
  | XNInf, _ => XNInf
  | _, XNInf => XNInf
  end.

Definition xsub (a b : xr) : xr := xadd a (xopp b).

(* finite x times an infinity of sign `pos` *)
Definition xscale_inf (x : R) (pos : bool) : xr :=
  if Rlt_dec 0 x then (if pos then XPInf else XNInf)
  else if Rlt_dec x 0 then (if pos then XNInf else XPInf)
  else XNaN.                                    (* 0 * inf *)

Definition xmul (a b : xr) : xr :=
  match a, b with
  | XNaN, _ => XNaN
  | _, XNaN => XNaN
  | XF x, XF y => XF (x * y)
  | XF x, XPInf => xscale_inf x true
  | XPInf, XF x => xscale_inf x true
  | XF x, XNInf => xscale_inf x false
  | XNInf, XF x => xscale_inf x false
  | XPInf, XPInf => XPInf
  | XNInf, XNInf => XPInf
  | XPInf, XNInf => XNInf
  | XNInf, XPInf => XNInf
  end.

Definition xdiv (a b : xr) : xr :=
  match a, b with
  | XNaN, _ => XNaN
  | _, XNaN => XNaN
  | XF x, XF y => if Req_EM_T y 0 then XNaN else XF (x / y)
  | XF _, _ => XF 0
  | XPInf, XF y => if Req_EM_T y 0 then XNaN else xscale_inf y true
  | XNInf, XF y => if Req_EM_T y 0 then XNaN else xscale_inf y false
  | _, _ => XNaN                                 (* inf / inf *)
  end.

Definition xltb (a b : xr) : bool :=
  match a, b with
  | XNaN, _ => false
  | _, XNaN => false
  | XF x, XF y => Rltb x y
  | XNInf, XNInf => false
  | XNInf, _ => true
  | _, XPInf => match a with XPInf => false | _ => true end
  | _, _ => false
  end.

Definition xleb (a b : xr) : bool :=
  match a, b with
  | XNaN, _ => false
  | _, XNaN => false
  | XF x, XF y => Rleb x y
  | XNInf, _ => true
  | _, XPInf => true
  | _, _ => false
  end.

Definition xeqb (a b : xr) : bool :=
  match a, b with
  | XF x, XF y => Reqb x y
  | XPInf, XPInf => true
  | XNInf, XNInf => true
  | _, _ => false
  end.

Definition xlog1p (a : xr) : xr :=
  match a with
  | XF x => if Rlt_dec (-1) x then XF (ln (1 + x))
            else if Req_EM_T x (-1) then XNInf else XNaN
  | XPInf => XPInf
  | _ => XNaN
  end.

Definition xln (a : xr) : xr :=
  match a with
  | XF x => if Rlt_dec 0 x then XF (ln x) else if Req_EM_T x 0 then XNInf else XNaN
  | XPInf => XPInf
  | _ => XNaN
  end.

Definition xd1 (_ : xr) : xr := XNaN.
Definition xd2 (_ _ : xr) : xr := XNaN.

Definition XNum : Num xr := {|
  nzero := XF 0; none := XF 1;
  nadd := xadd; nsub := xsub; nmul := xmul; ndiv := xdiv; nopp := xopp;
  nltb := xltb; nleb := xleb; neqb := xeqb;
  nsqrt := xd1; nexp := xd1; nln := xln; nlog1p := xlog1p; nlog10 := xd1;
  nsin := xd1; ncos := xd1; ntan := xd1; nasin := xd1; nacos := xd1; natan := xd1;
  nabs := xd1; nfloor := xd1; nceil := xd1; nrint := xd1; ntrunc := xd1;
  nerf := xd1;
  natan2 := xd2; npow := xd2; nfmod := xd2; nmin := xd2; nmax := xd2;
  npi := XF PI;
  nisnan := fun a => match a with XNaN => true | _ => false end
|}.
