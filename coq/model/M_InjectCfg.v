(* C18 extension: validation of the validity-range configuration of
   MCMultiDatasetSignalGenerator (the setter valid_event_field_ranges_dict_list
   and the corresponding part of __init__).  What matters about an entry
   {key: value} is whether the key is a str, whether the value is a tuple and
   the value's length.  Definitions only. *)
From Coq Require Import ZArith List Bool.
From Sky Require Import Result PyList G_inject.
Import ListNotations.
Open Scope Z_scope.

Record rentry := { r_key_str : bool; r_val_tuple : bool; r_len : Z }.
Definition rdict := list rentry.           (* one dict, in iteration (insertion) order *)

(* the three checks of the inner loop, in the order of the code *)
Definition check_entry (e : rentry) : res unit :=
  if vr_key_bad (r_key_str e) then Err TypeError
  else if vr_val_bad (r_val_tuple e) then Err TypeError
  else if vr_len_bad (r_len e) then Err ValueError
  else Ok tt.

Fixpoint check_all (l : list rentry) : res unit :=
  match l with
  | [] => Ok tt
  | e :: r => do _ <- check_entry e; check_all r
  end.

(* the setter: (stored value afterwards, outcome); the assignment is the last
   statement, so a rejected value leaves the stored one untouched *)
Definition set_ranges (is_list : bool) (old new : list rdict) : list rdict * res unit :=
  if vr_not_list is_list then (old, Err TypeError)
  else match check_all (concat new) with
       | Ok _ => (new, Ok tt)
       | Err e => (old, Err e)
       end.

(* __init__: None -> one empty dict per dataset; otherwise list check, length
   check, then the setter (there is no stored value yet: a failure raises) *)
Definition init_ranges (arg : option (bool * list rdict)) (n_datasets : Z) : res (list rdict) :=
  if vr_init_none (match arg with None => None | Some _ => Some 0 end)
  then Ok (repeat [] (Z.to_nat n_datasets))
  else match arg with
       | None => Ok (repeat [] (Z.to_nat n_datasets))
       | Some (is_list, l) =>
         if vr_init_not_list is_list then Err TypeError
         else if vr_init_len_bad (zlen l) n_datasets then Err ValueError
         else match snd (set_ranges is_list [] l) with
              | Ok _ => Ok l
              | Err e => Err e
              end
       end.

(* a well-formed entry *)
Definition rentry_ok (e : rentry) : Prop := r_key_str e = true /\ r_val_tuple e = true /\ r_len e = 2.
