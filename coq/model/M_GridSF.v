(* The IEEE-754 binary64 instance of Num, built from Coq's executable
   specification of floating-point arithmetic (Coq.Floats.SpecFloat: plain
   Gallina, round-to-nearest-even, no primitive and no axiom).  It is the number
   system in which the float statements of C15 (bit-identity of rounded values
   and grid members) are decided inside Coq by vm_compute.
   Only the operations the grid model uses are implemented: + - * / opp abs
   comparisons sqrt rint trunc floor ceil and `x mod 1`; every other field is
   NaN.  Definitions only. *)
From Coq Require Import ZArith List Bool SpecFloat.
From Sky Require Import Result PyList Num G_grid M_Grid.
Import ListNotations.
Open Scope Z_scope.

Definition sf := spec_float.
Definition b64_prec : Z := 53.
Definition b64_emax : Z := 1024.

Definition sf_add := SFadd b64_prec b64_emax.
Definition sf_sub := SFsub b64_prec b64_emax.
Definition sf_mul := SFmul b64_prec b64_emax.
Definition sf_div := SFdiv b64_prec b64_emax.
Definition sf_sqrt := SFsqrt b64_prec b64_emax.
Definition sf_zero : sf := S754_zero false.
Definition sf_one : sf := SFone b64_prec b64_emax.
(* the double nearest to m * 2^e *)
Definition sf_of (m e : Z) : sf := binary_normalize b64_prec b64_emax m e false.
Definition sf_two52 : sf := sf_of 1 52.

(* rint (round half to even) by the 2^52 trick, exact for every double under
   round-to-nearest-even; the sign of a zero result follows the argument *)
Definition sf_rint (x : sf) : sf :=
  match x with
  | S754_finite _ _ _ =>
    if SFltb (SFabs x) sf_two52 then
      if SFltb x sf_zero then
        let r := sf_add (sf_sub x sf_two52) sf_two52 in
        if SFeqb r sf_zero then S754_zero true else r
      else sf_sub (sf_add x sf_two52) sf_two52
    else x
  | _ => x
  end.
Definition sf_floor (x : sf) : sf :=
  let r := sf_rint x in if SFltb x r then sf_sub r sf_one else r.
Definition sf_ceil (x : sf) : sf :=
  let r := sf_rint x in if SFltb r x then sf_add r sf_one else r.
Definition sf_trunc (x : sf) : sf :=
  if SFltb x sf_zero then sf_ceil x else sf_floor x.
(* np.mod(x, y) for y = 1 only (the one use in the grid model): fmod keeps the
   sign of x and is exact; a non-zero remainder of the wrong sign gets + y, a
   zero remainder is +0 *)
Definition sf_fmod (x y : sf) : sf :=
  if SFeqb y sf_one then
    match x with
    | S754_finite _ _ _ =>
      let r := sf_sub x (sf_trunc x) in
      if SFeqb r sf_zero then sf_zero
      else if SFltb r sf_zero then sf_add r y else r
    | S754_zero _ => sf_zero
    | _ => S754_nan
    end
  else S754_nan.
Definition sf_isnan (x : sf) : bool := match x with S754_nan => true | _ => false end.
Definition sf_min (a b : sf) : sf := if SFltb a b then a else if SFltb b a then b else if sf_isnan a then a else b.
Definition sf_max (a b : sf) : sf := if SFltb b a then a else if SFltb a b then b else if sf_isnan a then a else b.
Definition sf_na1 (_ : sf) : sf := S754_nan.
Definition sf_na2 (_ _ : sf) : sf := S754_nan.

Definition SFNum : Num sf := {|
  nzero := sf_zero; none := sf_one;
  nadd := sf_add; nsub := sf_sub; nmul := sf_mul; ndiv := sf_div; nopp := SFopp;
  nltb := SFltb; nleb := SFleb; neqb := SFeqb;
  nsqrt := sf_sqrt; nexp := sf_na1; nln := sf_na1; nlog1p := sf_na1; nlog10 := sf_na1;
  nsin := sf_na1; ncos := sf_na1; ntan := sf_na1;
  nasin := sf_na1; nacos := sf_na1; natan := sf_na1;
  nabs := SFabs; nfloor := sf_floor; nceil := sf_ceil; nrint := sf_rint; ntrunc := sf_trunc;
  nerf := sf_na1;
  natan2 := sf_na2; npow := sf_na2; nfmod := sf_fmod;
  nmin := sf_min; nmax := sf_max;
  npi := S754_nan;
  nisnan := sf_isnan
|}.

(* printable form: value = fst * 2^snd; (0,0) zero, (+-1,9999) infinities, (0,9999) NaN *)
Definition sf_repr (x : sf) : Z * Z :=
  match x with
  | S754_zero _ => (0, 0)
  | S754_infinity s => (if s then -1 else 1, 9999)
  | S754_nan => (0, 9999)
  | S754_finite s m e => (if s then Zneg m else Zpos m, e)
  end.

(* ParameterGrid(grid = np.arange-like list, delta, decimals) on doubles *)
Definition sf_grid (delta0 : sf) (dec : Z) (arr : list sf) : res (pgrid (T := sf)) :=
  pg_make SFNum delta0 dec arr.

(* the grid start + i*delta, i = 0..n-1, evaluated in doubles (what np.arange
   produces up to its own last-ulp conventions; used only for the witness) *)
Definition sf_arange (start delta : sf) (n : nat) : list sf :=
  map (fun i => sf_add start (sf_mul (ofZ SFNum (Z.of_nat i)) delta)) (seq 0 n).
