(* Model of the probability densities skyllh constructs (property C10):
   - SignalTimePDF / BackgroundTimePDF (core/signalpdf.py, core/backgroundpdf.py,
     core/pdf.py TimePDF) over a Livetime and a Box / Gaussian TimeFluxProfile
     (core/flux_model.py),
   - the per-declination-band normalisation of I3EnergyPDF (i3/pdf.py),
   - the normalisation of BackgroundI3SpatialPDF (i3/backgroundpdf.py),
   - the validity check / histogram lookup pair of I3EnergyPDF.
   Real-valued parts are polymorphic in Num (theorems at RNum, execution on
   IEEE doubles through extraction); the index / range logic is over Z.
   All formulas are the regenerated kernels of gen/G_pdf.v; this file supplies
   masks, reductions, array plumbing and error paths.  Definitions only. *)
From Coq Require Import ZArith List Bool.
From Sky Require Import Num Result PyList G_pdf.
Import ListNotations.

Section PdfNum.
  Context {T : Type} (N : Num T).

  (* ---------------------------------------------------------------- live time
     Closed forms of Livetime.is_on and Livetime.get_uptime_intervals_between.
     For integrity-checked (sorted, non-overlapping) interval arrays they are
     proved equal to the model of the code's digitize logic (M_Livetime, C14)
     in P_PdfBridge.v. *)
  Definition lt_is_on (ivs : list (T * T)) (t : T) : bool :=
    existsb (fun iv => nleb N (fst iv) t && nltb N t (snd iv)) ivs.

  Definition lt_between (ivs : list (T * T)) (t1 t2 : T) : list (T * T) :=
    map (fun iv => (nmax N (fst iv) t1, nmin N (snd iv) t2))
        (filter (fun iv => nltb N t1 (snd iv) && nleb N (fst iv) t2) ivs).

  (* ---------------------------------------------------------------- profiles
     state of a TimeFluxProfile: _t_start, _t_stop (and _sigma_t) *)
  Inductive profile : Type :=
  | Box (t_start t_stop : T)
  | Gauss (t_start t_stop sigma_t : T).

  Definition p_start (p : profile) : T :=
    match p with Box a _ => a | Gauss a _ _ => a end.
  Definition p_stop (p : profile) : T :=
    match p with Box _ b => b | Gauss _ b _ => b end.

  (* TimeFluxProfile.__call__, per element *)
  Definition prof_call (p : profile) (t : T) : T :=
    match p with
    | Box ts te => if tp_box_call_m N t ts te then none N else nzero N
    | Gauss ts te s =>
        if tp_ga_call_m N t ts te
        then tp_ga_call_val N (tp_ga_call_dt N t (tp_ga_call_t0 N ts te)) (tp_ga_call_twossq N s)
        else nzero N
    end.

  (* TimeFluxProfile.get_integral, per element *)
  Definition prof_int (p : profile) (t1 t2 : T) : T :=
    match p with
    | Box ts te =>
        if tp_box_int_m N t1 t2 ts te
        then tp_box_int_val N (tp_box_int_lo N t1 ts) (tp_box_int_hi N t2 te)
        else nzero N
    | Gauss ts te s =>
        let t0 := tp_ga_int_t0 N ts te in
        let c1 := tp_ga_int_c1 N s in
        let c2 := tp_ga_int_c2 N s in
        tp_ga_int_val N (tp_ga_int_i1 N c1 c2 t1 t0) (tp_ga_int_i2 N c1 c2 t2 t0)
    end.

  (* TimePDF._calculate_sum_of_ontime_time_flux_profile_integrals *)
  Definition S_terms (ivs : list (T * T)) (p : profile) : list T :=
    map (fun iv => prof_int p (fst iv) (snd iv))
        (lt_between ivs (p_start p) (p_stop p)).
  Definition S_of (ivs : list (T * T)) (p : profile) : T := nsum N (S_terms ivs p).

  (* SignalTimePDF._calculate_pd / BackgroundTimePDF.initialize_for_new_trial,
     per event: np.zeros, then pd[on] = profile(t[on]) / S *)
  Definition sig_time_pd (ivs : list (T * T)) (p : profile) (t : T) : T :=
    if lt_is_on ivs t then tp_sig_pd N (S_of ivs p) (prof_call p t) else nzero N.
  Definition bkg_time_pd (ivs : list (T * T)) (p : profile) (t : T) : T :=
    if lt_is_on ivs t then tp_bkg_pd N (S_of ivs p) (prof_call p t) else nzero N.

  (* ---------------------------------------------------------------- energy histogram
     one declination band: c = weighted counts per log10(E) bin (a column of
     the 2d histogram), w = np.diff(log10_energy_binning.binedges) *)
  Definition eh_band (c w : list T) : list T :=
    let s := nsum N c in
    map (fun cw => eh_div N (fst cw) (eh_norm N s (snd cw))) (combine c w).
  Definition eh_hist (cols : list (list T)) (w : list T) : list (list T) :=
    map (fun c => eh_band c w) cols.
  (* the integral of the step density of one band over the log10(E) range *)
  Definition step_integral (h w : list T) : T :=
    nsum N (map (fun hw => nmul N (fst hw) (snd hw)) (combine h w)).

  (* ---------------------------------------------------------------- spatial histogram
     BackgroundI3SpatialPDF.__init__: h / h.sum() / (bins[1:] - bins[:-1]),
     ValueError for NaN or non-positive entries *)
  Definition sh_hist (h edges : list T) : res (list T) :=
    let s := nsum N h in
    let h' := map (fun x => sh_norm N (fst x) s (snd (snd x)) (fst (snd x)))
                  (combine h (combine (removelast edges) (tl edges))) in
    if existsb (sh_nan N) h' then Err ValueError
    else if existsb (sh_empty N) h' then Err ValueError
    else Ok h'.
  Definition bin_widths (edges : list T) : list T :=
    map (fun lu => nsub N (snd lu) (fst lu)) (combine (removelast edges) (tl edges)).
End PdfNum.

Arguments Box {T} _ _.
Arguments Gauss {T} _ _ _.

(* -------------------------------------------------------------------- index logic (Z)
   BinningDefinition.any_data_out_of_range and the lookup of I3EnergyPDF.get_pd.
   Values and edges are integers (every finite set of float64 embeds exactly
   after dyadic scaling; only comparisons are involved). *)
Open Scope Z_scope.

Definition bin_any_oor (edges : list Z) (x : Z) : res bool :=
  do lo <- py_get edges 0;
  do up <- py_get edges (-1);
  Ok (bin_oor x lo up).

(* index into one axis: np.digitize(x, edges) - 1, then the upper-most edge
   is mapped to the last bin *)
Definition bin_index_e (edges : list Z) (x : Z) : res Z :=
  do up <- py_get edges (-1);
  Ok (eh_idx_e_edge x up (bin_nbins (zlen edges)) (eh_idx_e (digitize x edges))).
Definition bin_index_s (edges : list Z) (x : Z) : res Z :=
  do up <- py_get edges (-1);
  Ok (eh_idx_s_edge x up (bin_nbins (zlen edges)) (eh_idx_s (digitize x edges))).

(* I3EnergyPDF.assert_is_valid_for_trial_data for one event: Err ValueError
   when out of range *)
Definition eh_assert_valid (edgesE edgesS : list Z) (x y : Z) : res unit :=
  do a <- bin_any_oor edgesE x;
  if a then Err ValueError else
  do b <- bin_any_oor edgesS y;
  if b then Err ValueError else Ok tt.

(* I3EnergyPDF.get_pd for one event: hist[(i, j)] with numpy index semantics
   (negative indices wrap, out of bounds raises IndexError); hist is indexed
   [log10(E) bin][sin(dec) bin] *)
Definition eh_get_pd {A} (hist : list (list A)) (edgesE edgesS : list Z) (x y : Z) : res A :=
  do i <- bin_index_e edgesE x;
  do j <- bin_index_s edgesS y;
  do row <- py_get hist i;
  py_get row j.

(* the lookup as it was before the repair (np.digitize - 1 only); kept to
   show why the edge clause is needed *)
Definition eh_get_pd_old {A} (hist : list (list A)) (edgesE edgesS : list Z) (x y : Z) : res A :=
  do row <- py_get hist (eh_idx_e (digitize x edgesE));
  py_get row (eh_idx_s (digitize y edgesS)).

(* bin index in the sense of np.histogram: edges[i] <= x < edges[i+1], the
   last bin also contains its upper edge; None outside the range.  Used by the
   harness to fill histograms with the model's binning. *)
Definition hist_bin (edges : list Z) (x : Z) : res (option Z) :=
  do a <- bin_any_oor edges x;
  if a then Ok None else
  do i <- bin_index_e edges x; Ok (Some i).
