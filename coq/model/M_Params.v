(* Model of skyllh/core/parameters.py: Parameter, ParameterSet, ParameterModelMapper
   (current /repo, i.e. after the fix: commits 26ba7e8, a6f00b3, 38184bc, 9f2340d,
   b3880d5, afa632e, f7597e3).  Definitions only.

   Parameter objects are mutable and are referenced (not contained) by the
   parameter sets, so they live in a store
   (a list; location = position; allocation appends).  A ParameterSet carries
   all of its redundant caches literally.  Names (global and local) and values
   are integers: names are opaque identifiers compared by equality / order,
   values embed every finite set of dyadic rationals exactly, and the code only
   compares and copies them.  The comparisons and the index arithmetic come
   from the regenerated gen/G_params.v. *)
From Coq Require Import ZArith List Bool.
From Sky Require Import Result PyList G_params.
Import ListNotations.
Open Scope Z_scope.

(* ------------------------------------------------------------------ Parameter *)
Record param := mkParam {
  p_name : Z; p_initial : Z; p_isfixed : bool;
  p_valmin : option Z; p_valmax : option Z; p_value : Z }.

Definition store := list param.

Definition with_value (p : param) (v : Z) : param :=
  mkParam (p_name p) (p_initial p) (p_isfixed p) (p_valmin p) (p_valmax p) v.

(* the bound test of the setter is `not ((v >= valmin) and (v <= valmax))` (fix f7597e3: the negated
   form also rejects NaN); `and` short-circuits: a false first operand decides *)
Definition set_below (v lo : Z) : bool := negb (set_ge v lo).
Definition set_above (v hi : Z) : bool := negb (set_le v hi).

(* Parameter.value setter: the checks (the assignment is done by the caller).
   comparing with None raises TypeError. *)
Definition setter_check (p : param) (v : Z) : res unit :=
  if p_isfixed p then
    (if set_fixed_ne v (p_initial p) then Err ValueError else Ok tt)
  else
    match p_valmin p with
    | None => Err TypeError
    | Some lo =>
        if set_below v lo
        then (* the message formats valmax with ":g", a TypeError for None *)
             match p_valmax p with None => Err TypeError | Some _ => Err ValueError end
        else
        match p_valmax p with
        | None => Err TypeError
        | Some hi => if set_above v hi then Err ValueError else Ok tt
        end
    end.

Definition set_value (p : param) (v : Z) : res param :=
  do _ <- setter_check p v; Ok (with_value p v).

(* Parameter.__init__(name, initial, valmin, valmax, isfixed) *)
Record decl := mkDecl {
  d_name : Z; d_initial : Z; d_valmin : option Z; d_valmax : option Z;
  d_isfixed : option bool }.

Definition param_new (d : decl) : res param :=
  let fx := match d_isfixed d with
            | Some b => b
            | None => match d_valmin d, d_valmax d with
                      | Some _, Some _ => false
                      | _, _ => true
                      end
            end in
  let p := mkParam (d_name d) (d_initial d) fx (d_valmin d) (d_valmax d) (d_initial d) in
  do _ <- setter_check p (d_initial d); Ok p.

(* Parameter.make_fixed(initial) *)
Definition make_fixed (p : param) (initial : option Z) : param :=
  match initial with
  | None => mkParam (p_name p) (p_value p) true (p_valmin p) (p_valmax p) (p_value p)
  | Some v =>
      match p_valmin p, p_valmax p with
      | Some lo, Some hi =>
          if mkfix_oob v lo hi
          then mkParam (p_name p) v true None None v
          else mkParam (p_name p) v true (Some lo) (Some hi) v
      | lo, hi => mkParam (p_name p) v true lo hi v
      end
  end.

(* Parameter._get_floating_settings(initial, valmin, valmax) *)
Definition floating_settings (p : param) (i lo hi : option Z) : res (Z * Z * Z) :=
  let i' := match i with Some v => v | None => p_value p end in
  do lo' <- match lo with
            | Some v => Ok v
            | None => match p_valmin p with Some v => Ok v | None => Err ValueError end
            end;
  do hi' <- match hi with
            | Some v => Ok v
            | None => match p_valmax p with Some v => Ok v | None => Err ValueError end
            end;
  if mkfl_oob i' lo' hi' then Err ValueError else Ok (i', lo', hi').

(* Parameter.make_floating(initial, valmin, valmax): the settings are checked,
   then the attributes are assigned and the value goes through the setter *)
Definition make_floating (p : param) (i lo hi : option Z) : res param :=
  do t <- floating_settings p i lo hi;
  let '(i', lo', hi') := t in
  let p' := mkParam (p_name p) i' false (Some lo') (Some hi') (p_value p) in
  set_value p' i'.

(* ------------------------------------------------------------------ dict *)
Definition dict := list (Z * Z).

Fixpoint dict_get (d : dict) (k : Z) : option Z :=
  match d with
  | [] => None
  | (k', v) :: r => if k =? k' then Some v else dict_get r k
  end.

(* d[k] = v : replaces the value of an existing key, otherwise appends *)
Fixpoint dict_set (d : dict) (k v : Z) : dict :=
  match d with
  | [] => [(k, v)]
  | (k', v') :: r => if k =? k' then (k, v) :: r else (k', v') :: dict_set r k v
  end.

(* dict(list of pairs) *)
Definition dict_of (l : list (Z * Z)) : dict :=
  fold_left (fun d kv => dict_set d (fst kv) (snd kv)) l [].

Definition mem (x : Z) (l : list Z) : bool := existsb (Z.eqb x) l.

(* ------------------------------------------------------------------ ParameterSet *)
Record pset := mkPset {
  ps_params : list nat;        (* _params: locations of the Parameter objects *)
  ps_mask : list bool;         (* _params_fixed_mask *)
  ps_fxn : list Z;             (* _fixed_param_name_list *)
  ps_fln : list Z;             (* _floating_param_name_list *)
  ps_fxi : dict;               (* _fixed_param_name_to_idx *)
  ps_fli : dict;               (* _floating_param_name_to_idx *)
  ps_fxv : list Z }.           (* _fixed_param_values *)

Definition empty_pset : pset := mkPset [] [] [] [] [] [] [].

(* a dangling location cannot be produced by the operations below; it is an
   error of its own so that no theorem can hold because of a default value *)
Definition rd (st : store) (l : nat) : res param :=
  match nth_error st l with Some p => Ok p | None => Err RuntimeError end.

Definition wr (st : store) (l : nat) (p : param) : store := set_nth st l p.

Definition has_param (s : pset) (name : Z) : bool :=
  mem name (ps_fln s) || mem name (ps_fxn s).

(* ParameterSet.add_param(param, atfront) for the Parameter object at l with contents p *)
Definition add_param (s : pset) (l : nat) (p : param) (front : bool) : res pset :=
  if has_param s (p_name p) then Err KeyError else
  let n := p_name p in
  if front then
    if p_isfixed p then
      Ok (mkPset (l :: ps_params s) (true :: ps_mask s)
            (n :: ps_fxn s) (ps_fln s)
            (dict_set (map (fun kv => (fst kv, add_front_fx_shift (snd kv))) (ps_fxi s)) n add_front_fx_idx)
            (ps_fli s)
            (p_value p :: ps_fxv s))
    else
      Ok (mkPset (l :: ps_params s) (false :: ps_mask s)
            (ps_fxn s) (n :: ps_fln s)
            (ps_fxi s)
            (dict_set (map (fun kv => (fst kv, add_front_fl_shift (snd kv))) (ps_fli s)) n add_front_fl_idx)
            (ps_fxv s))
  else
    if p_isfixed p then
      Ok (mkPset (ps_params s ++ [l]) (ps_mask s ++ [true])
            (ps_fxn s ++ [n]) (ps_fln s)
            (dict_set (ps_fxi s) n (add_back_fx_idx (zlen (ps_fxn s ++ [n]))))
            (ps_fli s)
            (ps_fxv s ++ [p_value p]))
    else
      Ok (mkPset (ps_params s ++ [l]) (ps_mask s ++ [false])
            (ps_fxn s) (ps_fln s ++ [n])
            (ps_fxi s)
            (dict_set (ps_fli s) n (add_back_fl_idx (zlen (ps_fln s ++ [n]))))
            (ps_fxv s)).

(* the textually identical "else" blocks of the two rebuild loops: append an
   untouched parameter to the fixed resp. floating caches *)
Definition cache_fixed (idx : Z -> Z) (s : pset) (n v : Z) : pset :=
  let fxn := ps_fxn s ++ [n] in
  mkPset (ps_params s) (ps_mask s) fxn (ps_fln s)
         (dict_set (ps_fxi s) n (idx (zlen fxn))) (ps_fli s) (ps_fxv s ++ [v]).

Definition cache_floating (idx : Z -> Z) (s : pset) (n : Z) : pset :=
  let fln := ps_fln s ++ [n] in
  mkPset (ps_params s) (ps_mask s) (ps_fxn s) fln
         (ps_fxi s) (dict_set (ps_fli s) n (idx (zlen fln))) (ps_fxv s).

Definition clear_caches (s : pset) : pset :=
  mkPset (ps_params s) (ps_mask s) [] [] [] [] [].

Definition with_mask (s : pset) (m : list bool) : pset :=
  mkPset (ps_params s) m (ps_fxn s) (ps_fln s) (ps_fxi s) (ps_fli s) (ps_fxv s).

Fixpoint assoc {A} (l : list (Z * A)) (k : Z) : option A :=
  match l with
  | [] => None
  | (k', v) :: r => if k =? k' then Some v else assoc r k
  end.

(* --- make_params_fixed(fix_params) ; fix_params : name -> None | value *)
Definition fixreq := list (Z * option Z).

(* "Check the request before anything gets modified." *)
Fixpoint fix_precheck (st : store) (req : fixreq) (locs : list nat) : res unit :=
  match locs with
  | [] => Ok tt
  | l :: r =>
      do p <- rd st l;
      match assoc req (p_name p) with
      | Some _ => if p_isfixed p then Err ValueError else fix_precheck st req r
      | None => fix_precheck st req r
      end
  end.

(* the loop `for (pidx, param) in enumerate(self._params)`; returns the state
   reached and the exception, if one ended the loop *)
Fixpoint fix_loop (req : fixreq) (locs : list nat) (pidx : Z) (st : store) (s : pset)
  : store * pset * option err :=
  match locs with
  | [] => (st, s, None)
  | l :: r =>
      match rd st l with
      | Err e => (st, s, Some e)
      | Ok p =>
          match assoc req (p_name p) with
          | Some initial =>
              if p_isfixed p then (st, s, Some ValueError) else
              let p' := make_fixed p initial in
              let st' := wr st l p' in
              match py_set (ps_mask s) pidx true with
              | Err e => (st', s, Some e)
              | Ok m =>
                  fix_loop req r (pidx + 1) st'
                    (cache_fixed mpfix_req_idx (with_mask s m) (p_name p) (p_value p'))
              end
          | None =>
              if p_isfixed p
              then fix_loop req r (pidx + 1) st (cache_fixed mpfix_fx_idx s (p_name p) (p_value p))
              else fix_loop req r (pidx + 1) st (cache_floating mpfix_fl_idx s (p_name p))
          end
      end
  end.

Definition make_params_fixed (st : store) (s : pset) (req : fixreq) : store * pset * option err :=
  match fix_precheck st req (ps_params s) with
  | Err e => (st, s, Some e)
  | Ok _ => fix_loop req (ps_params s) 0 st (clear_caches s)
  end.

(* --- make_params_floating(float_params) *)
Inductive fentry :=
| FNone                                              (* None *)
| FInit (v : Z)                                      (* initial *)
| FTriple (i lo hi : option Z).                      (* (initial, valmin, valmax) *)
Definition floatreq := list (Z * fentry).

Definition parse_fentry (e : fentry) : option Z * option Z * option Z :=
  match e with
  | FNone => (None, None, None)
  | FInit v => (Some v, None, None)
  | FTriple i lo hi => (i, lo, hi)
  end.

Fixpoint float_precheck (st : store) (req : floatreq) (locs : list nat) : res unit :=
  match locs with
  | [] => Ok tt
  | l :: r =>
      do p <- rd st l;
      match assoc req (p_name p) with
      | Some e =>
          if negb (p_isfixed p) then Err ValueError else
          let '(i, lo, hi) := parse_fentry e in
          do _ <- floating_settings p i lo hi;
          float_precheck st req r
      | None => float_precheck st req r
      end
  end.

Fixpoint float_loop (req : floatreq) (locs : list nat) (pidx : Z) (st : store) (s : pset)
  : store * pset * option err :=
  match locs with
  | [] => (st, s, None)
  | l :: r =>
      match rd st l with
      | Err e => (st, s, Some e)
      | Ok p =>
          match assoc req (p_name p) with
          | Some e =>
              if negb (p_isfixed p) then (st, s, Some ValueError) else
              let '(i, lo, hi) := parse_fentry e in
              match make_floating p i lo hi with
              | Err e => (st, s, Some e)
              | Ok p' =>
                  let st' := wr st l p' in
                  match py_set (ps_mask s) pidx false with
                  | Err e => (st', s, Some e)
                  | Ok m =>
                      float_loop req r (pidx + 1) st'
                        (cache_floating mpfl_req_idx (with_mask s m) (p_name p))
                  end
              end
          | None =>
              if p_isfixed p
              then float_loop req r (pidx + 1) st (cache_fixed mpfl_fx_idx s (p_name p) (p_value p))
              else float_loop req r (pidx + 1) st (cache_floating mpfl_fl_idx s (p_name p))
          end
      end
  end.

Definition make_params_floating (st : store) (s : pset) (req : floatreq) : store * pset * option err :=
  match float_precheck st req (ps_params s) with
  | Err e => (st, s, Some e)
  | Ok _ => float_loop req (ps_params s) 0 st (clear_caches s)
  end.

(* --- union (after fix afa632e): the new set holds COPIES (deepcopy) of the
   Parameter objects, added at the back one by one; `skip` = union's
   `if not has_param`.  The copy of the object at l is allocated at the end of
   the store. *)
Fixpoint add_copies (st : store) (s : pset) (locs : list nat) (skip : bool) : res (store * pset) :=
  match locs with
  | [] => Ok (st, s)
  | l :: r =>
      do p <- rd st l;
      if skip && has_param s (p_name p) then add_copies st s r skip
      else do s' <- add_param s (length st) p false; add_copies (st ++ [p]) s' r skip
  end.

Fixpoint union_rest (st : store) (s : pset) (srcs : list pset) : res (store * pset) :=
  match srcs with
  | [] => Ok (st, s)
  | x :: r => do ss <- add_copies st s (ps_params x) true; union_rest (fst ss) (snd ss) r
  end.

Definition union (st : store) (srcs : list pset) : res (store * pset) :=
  match srcs with
  | [] => Err ValueError
  | x :: r => do ss <- add_copies st empty_pset (ps_params x) false; union_rest (fst ss) (snd ss) r
  end.

(* --- copy() = deepcopy: fresh Parameter objects, caches copied literally *)
Definition copy_set (st : store) (s : pset) : res (store * pset) :=
  do ps <- mapM (rd st) (ps_params s);
  let base := length st in
  Ok (st ++ ps,
      mkPset (seq base (length ps)) (ps_mask s) (ps_fxn s) (ps_fln s) (ps_fxi s) (ps_fli s) (ps_fxv s)).

(* --- read accessors *)
(* a[mask] : numpy boolean indexing, IndexError unless the lengths agree; an
   empty boolean mask is accepted for an array of any length (numpy quirk) *)
Definition np_select {A} (l : list A) (m : list bool) : res (list A) :=
  if Nat.eqb (length l) (length m) || Nat.eqb (length m) 0 then Ok (mask_select l m) else Err IndexError.

Fixpoint argwhere_from (i : Z) (m : list bool) : list Z :=
  match m with
  | [] => []
  | b :: r => if b then i :: argwhere_from (i + 1) r else argwhere_from (i + 1) r
  end.
Definition argwhere (m : list bool) : list Z := argwhere_from 0 m.

Definition floating_mask (s : pset) : list bool := map negb (ps_mask s).
Definition params_name_list (s : pset) : list Z := ps_fxn s ++ ps_fln s.
Definition fixed_params_idxs (s : pset) : list Z := argwhere (ps_mask s).
Definition floating_params_idxs (s : pset) : list Z := argwhere (floating_mask s).
Definition n_params (s : pset) : Z := zlen (ps_params s).
Definition n_fixed_params (s : pset) : Z := zlen (ps_fxn s).
Definition n_floating_params (s : pset) : Z := zlen (ps_fln s).

Definition floating_params (st : store) (s : pset) : res (list param) :=
  do ls <- np_select (ps_params s) (floating_mask s); mapM (rd st) ls.
Definition fixed_params (st : store) (s : pset) : res (list param) :=
  do ls <- np_select (ps_params s) (ps_mask s); mapM (rd st) ls.

Definition floating_param_initials (st : store) (s : pset) : res (list Z) :=
  do ps <- floating_params st s; Ok (map p_initial ps).
Definition floating_param_bounds (st : store) (s : pset) : res (list (option Z * option Z)) :=
  do ps <- floating_params st s; Ok (map (fun p => (p_valmin p, p_valmax p)) ps).

Definition get_fixed_pidx (s : pset) (n : Z) : res Z :=
  match dict_get (ps_fxi s) n with Some i => Ok i | None => Err KeyError end.
Definition get_floating_pidx (s : pset) (n : Z) : res Z :=
  match dict_get (ps_fli s) n with Some i => Ok i | None => Err KeyError end.

(* zip truncates to the shorter argument *)
Definition get_params_dict (s : pset) (vec : list Z) : dict :=
  dict_of (combine (ps_fln s) vec ++ combine (ps_fxn s) (ps_fxv s)).
Definition get_floating_params_dict (s : pset) (vec : list Z) : dict :=
  dict_of (combine (ps_fln s) vec).

(* ------------------------------------------------------------------ ParameterModelMapper *)
Record mapper := mkMapper {
  mp_src : list bool;                       (* _source_model_mask; one entry per model *)
  mp_gps : pset;                            (* _global_paramset *)
  mp_names : list (list (option Z)) }.      (* _model_param_names: one row per model *)

Definition new_mapper (src : list bool) : mapper :=
  mkMapper src empty_pset (map (fun _ => []) src).

Definition n_models (m : mapper) : Z := zlen (mp_src m).

Inductive aliases :=
| ANone                    (* model_param_names=None: the global name for all models *)
| AStr (a : Z)             (* one str for all models *)
| ASeq (l : list Z).       (* a sequence, indexed by the mapper's model index *)

Fixpoint somes (row : list (option Z)) : list Z :=
  match row with
  | [] => []
  | Some a :: r => a :: somes r
  | None :: r => somes r
  end.

(* the loop that checks that the local name is not yet defined for a model *)
Fixpoint dup_check (rows : list (list (option Z))) (names : list Z) (midxs : list Z) : res unit :=
  match midxs with
  | [] => Ok tt
  | midx :: r =>
      do row <- py_get rows midx;
      do a <- py_get names midx;
      if mem a (somes row) then Err KeyError else dup_check rows names r
  end.

(* np.where(mask, model_param_names, None) with numpy broadcasting of a
   sequence of length 1; any other length mismatch is a ValueError (from
   np.where, or from np.hstack when there is a single model) *)
Definition where_entry (mask : list bool) (names : list Z) : res (list (option Z)) :=
  if Nat.eqb (length names) (length mask) then
    Ok (map (fun bn : bool * Z => if fst bn then Some (snd bn) else None) (combine mask names))
  else match names with
       | [a] => Ok (map (fun b : bool => if b then Some a else None) mask)
       | _ => Err ValueError
       end.

(* map_param(param, models, model_param_names) for the Parameter object at l
   with contents p.  `models` = None (all) or the mapper indices of the given
   Model instances (an index outside the mapper stands for a foreign model,
   which matches nothing). *)
Definition map_param (m : mapper) (l : nat) (p : param) (models : option (list Z)) (al : aliases)
  : res mapper :=
  let n := length (mp_src m) in
  let names := match al with
               | ANone => repeat (p_name p) n
               | AStr a => repeat a n
               | ASeq ls => ls
               end in
  let applied := match models with None => arange n | Some ms => ms end in
  if Nat.eqb (length applied) 0 then Err ValueError else
  let mask := map (fun midx => mem midx applied) (arange n) in
  do _ <- dup_check (mp_names m) names (mask_select (arange n) mask);
  do entry <- where_entry mask names;
  do rows <- (if Nat.eqb (length (mp_names m)) (length entry)
              then Ok (map (fun re : list (option Z) * option Z => fst re ++ [snd re]) (combine (mp_names m) entry))
              else Err ValueError);
  do g <- add_param (mp_gps m) l p false;
  Ok (mkMapper (mp_src m) g rows).

(* get_src_model_idxs(sources): sources = None or mapper indices of the given sources *)
Definition get_src_model_idxs (m : mapper) (sources : option (list Z)) : list Z :=
  let all := mask_select (arange (length (mp_src m))) (mp_src m) in
  match sources with
  | None => all
  | Some srcs => filter (fun smidx => mem smidx srcs) all
  end.

(* np.unique of the non-None local names of the source models: sorted, distinct *)
Fixpoint insert_uniq (x : Z) (l : list Z) : list Z :=
  match l with
  | [] => [x]
  | y :: r => if x <? y then x :: l else if x =? y then l else y :: insert_uniq x r
  end.
Definition np_unique (l : list Z) : list Z := fold_right insert_uniq [] l.

Definition unique_source_param_names (m : mapper) : res (list Z) :=
  do rows <- np_select (mp_names m) (mp_src m);
  Ok (np_unique (concat (map somes rows))).

(* a & b on boolean arrays: equal lengths required (or broadcasting, which the
   mapper never relies on) *)
Definition mask_and (a b : list bool) : res (list bool) :=
  if Nat.eqb (length a) (length b)
  then Ok (map (fun xy : bool * bool => andb (fst xy) (snd xy)) (combine a b))
  else Err ValueError.

Definition is_some {A} (o : option A) : bool := match o with Some _ => true | None => false end.

(* the per-model part shared by create_model_params_dict and
   create_src_params_recarray: local names and values, floating before fixed *)
Definition model_names_values (m : mapper) (vec : list Z) (row : list (option Z))
  : res (list Z * list Z * list bool * list bool) :=
  let g := mp_gps m in
  let gp_mask := map is_some row in
  let flm := floating_mask g in
  let fxm := ps_mask g in
  do mfl <- mask_and flm gp_mask;
  do mfx <- mask_and fxm gp_mask;
  do nfl <- np_select row mfl;
  do nfx <- np_select row mfx;
  do sfl <- np_select gp_mask flm;
  do sfx <- np_select gp_mask fxm;
  do vfl <- np_select vec sfl;
  do vfx <- np_select (ps_fxv g) sfx;
  Ok (somes (nfl ++ nfx), vfl ++ vfx, mfl, mfx).

Definition create_model_params_dict (m : mapper) (vec : list Z) (midx : Z) : res dict :=
  if mdict_midx_bad midx (n_models m) then Err IndexError else
  do row <- py_get (mp_names m) midx;
  do r <- model_names_values m vec row;
  let '(names, values, _, _) := r in
  Ok (dict_of (combine names values)).

(* one cell of the record array: (value | NaN, gpidx); initial (NaN, 0) *)
Definition cell := (option Z * Z)%type.

Fixpoint last_assigned (asg : list (Z * (Z * Z))) (name : Z) (acc : cell) : cell :=
  match asg with
  | [] => acc
  | (n, (v, g)) :: r => last_assigned r name (if n =? name then (Some v, g) else acc)
  end.

Definition src_row (m : mapper) (vec : list Z) (uniq : list Z) (smidx : Z) : res (Z * list cell) :=
  do row <- py_get (mp_names m) smidx;
  do r <- model_names_values m vec row;
  let '(names, values, mfl, mfx) := r in
  let g := mp_gps m in
  let gpidxs := arange (length (ps_params g)) in
  let gflp_idxs := map rec_gflp_idx (cumsum (map (fun b : bool => if b then 1 else 0) (floating_mask g))) in
  do ifl <- np_select gflp_idxs mfl;
  do ifx <- np_select gpidxs mfx;
  let gp := map rec_gpidx_fl ifl ++ map rec_gpidx_fx ifx in
  let asg := combine names (combine values gp) in
  Ok (smidx, map (fun u => last_assigned asg u (None, 0)) uniq).

(* create_src_params_recarray(gflp_values, sources); sources = None, mapper
   indices of SourceModel instances, or (inl) an int32 array of model indices *)
Definition create_src_params_recarray (m : mapper) (vec : list Z) (sources : option (list Z + list Z))
  : res (list Z * list (Z * list cell)) :=
  if rec_len_bad (n_floating_params (mp_gps m)) (zlen vec) then Err ValueError else
  let smidxs := match sources with
                | None => get_src_model_idxs m None
                | Some (inl arr) => arr
                | Some (inr srcs) => get_src_model_idxs m (Some srcs)
                end in
  do uniq <- unique_source_param_names m;
  do rows <- mapM (src_row m vec uniq) smidxs;
  Ok (uniq, rows).

Definition create_global_params_dict (m : mapper) (vec : list Z) : dict :=
  get_params_dict (mp_gps m) vec.

Definition get_gflp_idx (m : mapper) (name : Z) : res Z := get_floating_pidx (mp_gps m) name.

(* get_local_param_is_global_floating_param_mask(local_param_names) *)
Fixpoint col_has (rows : list (list (option Z))) (j : nat) (name : Z) : bool :=
  match rows with
  | [] => false
  | row :: r =>
      match nth_error row j with
      | Some (Some a) => (a =? name) || col_has r j name
      | _ => col_has r j name
      end
  end.

Definition local_is_floating_mask (m : mapper) (names : list Z) : list bool :=
  let flidxs := floating_params_idxs (mp_gps m) in
  let ncol := match mp_names m with [] => O | row :: _ => length row end in
  map (fun name =>
         existsb (fun j => col_has (mp_names m) j name && mem (Z.of_nat j) flidxs) (seq 0 ncol))
      names.

(* ------------------------------------------------------------------ the world *)
(* The mapper with its global parameter set, and any number of stand-alone
   parameter sets, over one store of Parameter objects. *)
Record world := mkWorld { w_store : store; w_map : mapper; w_sets : list pset }.

Definition init (src : list bool) : world := mkWorld [] (new_mapper src) [].

Inductive sref := GP | St (n : nat).

Definition get_set (w : world) (r : sref) : res pset :=
  match r with
  | GP => Ok (mp_gps (w_map w))
  | St n => match nth_error (w_sets w) n with Some s => Ok s | None => Err IndexError end
  end.

Definition put_set (w : world) (r : sref) (st : store) (s : pset) : world :=
  match r with
  | GP => mkWorld st (mkMapper (mp_src (w_map w)) s (mp_names (w_map w))) (w_sets w)
  | St n => mkWorld st (w_map w) (set_nth (w_sets w) n s)
  end.

Inductive op :=
| ONewSet                                                     (* sets.append(ParameterSet()) *)
| OAdd (n : nat) (front : bool) (d : decl)                    (* sets[n].add_param(Parameter(d), atfront) *)
| OMap (d : decl) (models : option (list Z)) (al : aliases)   (* pmm.map_param(Parameter(d), models, names) *)
| OFix (r : sref) (req : fixreq)                              (* r.make_params_fixed(req) *)
| OFloat (r : sref) (req : floatreq)                          (* r.make_params_floating(req) *)
| OUnion (rs : list sref)                                     (* sets.append(ParameterSet.union( *rs)) *)
| OCopy (r : sref)                                            (* sets.append(r.copy()) *)
| OSetValue (r : sref) (k : Z) (v : Z).                       (* r.params[k].value = v *)

(* one operation: the state afterwards and the exception, if raised *)
Definition step (w : world) (o : op) : world * option err :=
  match o with
  | ONewSet => (mkWorld (w_store w) (w_map w) (w_sets w ++ [empty_pset]), None)
  | OAdd n front d =>
      match nth_error (w_sets w) n with
      | None => (w, Some IndexError)
      | Some s =>
          match param_new d with
          | Err e => (w, Some e)
          | Ok p =>
              match add_param s (length (w_store w)) p front with
              | Err e => (w, Some e)
              | Ok s' => (mkWorld (w_store w ++ [p]) (w_map w) (set_nth (w_sets w) n s'), None)
              end
          end
      end
  | OMap d models al =>
      match param_new d with
      | Err e => (w, Some e)
      | Ok p =>
          match map_param (w_map w) (length (w_store w)) p models al with
          | Err e => (w, Some e)
          | Ok m' => (mkWorld (w_store w ++ [p]) m' (w_sets w), None)
          end
      end
  | OFix r req =>
      match get_set w r with
      | Err e => (w, Some e)
      | Ok s => let '(st', s', e) := make_params_fixed (w_store w) s req in (put_set w r st' s', e)
      end
  | OFloat r req =>
      match get_set w r with
      | Err e => (w, Some e)
      | Ok s => let '(st', s', e) := make_params_floating (w_store w) s req in (put_set w r st' s', e)
      end
  | OUnion rs =>
      match mapM (get_set w) rs with
      | Err e => (w, Some e)
      | Ok srcs =>
          match union (w_store w) srcs with
          | Err e => (w, Some e)
          | Ok (st', s) => (mkWorld st' (w_map w) (w_sets w ++ [s]), None)
          end
      end
  | OCopy r =>
      match get_set w r with
      | Err e => (w, Some e)
      | Ok s =>
          match copy_set (w_store w) s with
          | Err e => (w, Some e)
          | Ok (st', s') => (mkWorld st' (w_map w) (w_sets w ++ [s']), None)
          end
      end
  | OSetValue r k v =>
      match get_set w r with
      | Err e => (w, Some e)
      | Ok s =>
          match py_get (ps_params s) k with
          | Err e => (w, Some e)
          | Ok l =>
              match rd (w_store w) l with
              | Err e => (w, Some e)
              | Ok p =>
                  match set_value p v with
                  | Err e => (w, Some e)
                  | Ok p' => (mkWorld (wr (w_store w) l p') (w_map w) (w_sets w), None)
                  end
              end
          end
      end
  end.

Definition run (w : world) (ops : list op) : world :=
  fold_left (fun w o => fst (step w o)) ops w.

(* the states after every step together with the raised exceptions (for the
   correspondence) *)
Fixpoint trace (w : world) (ops : list op) : list (world * option err) :=
  match ops with
  | [] => []
  | o :: r => let we := step w o in we :: trace (fst we) r
  end.

(* ------------------------------------------------------------------ the rest of the public API
   Operations that hand an EXISTING Parameter object to a second owner (add_param(p), map_param(p),
   ParameterSet(params=...)) and the two-step protocol change_fixed_value / update_fixed_param_value_cache.
   They are kept apart from `op`: the invariant WorldOk is proved for `op` histories and is REFUTED as soon
   as one of these is used (known finding C04-shared-parameter; change_fixed_value needs the documented update_fixed_param_value_cache). *)
Inductive xop :=
| XBase (o : op)
| XAddShared (n : nat) (front : bool) (r : sref) (k : Z)      (* sets[n].add_param(r.params[k], atfront) *)
| XMapShared (r : sref) (k : Z) (models : option (list Z)) (al : aliases)   (* pmm.map_param(r.params[k], ...) *)
| XNewFrom (r : sref)                                          (* sets.append(ParameterSet(params=list(r.params))) *)
| XChangeFixed (r : sref) (k : Z) (v : Z)                      (* r.params[k].change_fixed_value(v) *)
| XUpdateCache (r : sref).                                     (* r.update_fixed_param_value_cache() *)

(* ParameterSet(params=seq): add_param at the back, one by one, of the given objects *)
Fixpoint add_all (st : store) (s : pset) (locs : list nat) : res pset :=
  match locs with
  | [] => Ok s
  | l :: r => do p <- rd st l; do s' <- add_param s l p false; add_all st s' r
  end.

(* Parameter.change_fixed_value(value) *)
Definition change_fixed_value (p : param) (v : Z) : res param :=
  if p_isfixed p then Ok (mkParam (p_name p) v true (p_valmin p) (p_valmax p) v) else Err ValueError.

(* update_fixed_param_value_cache: `for (i, param) in enumerate(self.fixed_params): self._fixed_param_values[i] = param.value`
   (the array is written in place, entry by entry) *)
Fixpoint upd_cache (fxv : list Z) (i : Z) (ps : list param) : list Z * option err :=
  match ps with
  | [] => (fxv, None)
  | p :: r => match py_set fxv i (p_value p) with
              | Ok f' => upd_cache f' (i + 1) r
              | Err e => (fxv, Some e)
              end
  end.

Definition with_fxv (s : pset) (f : list Z) : pset :=
  mkPset (ps_params s) (ps_mask s) (ps_fxn s) (ps_fln s) (ps_fxi s) (ps_fli s) f.

Definition shared_obj (w : world) (r : sref) (k : Z) : res (nat * param) :=
  do s <- get_set w r; do l <- py_get (ps_params s) k; do p <- rd (w_store w) l; Ok (l, p).

Definition xstep (w : world) (o : xop) : world * option err :=
  match o with
  | XBase b => step w b
  | XAddShared n front r k =>
      match nth_error (w_sets w) n with
      | None => (w, Some IndexError)
      | Some s =>
          match shared_obj w r k with
          | Err e => (w, Some e)
          | Ok (l, p) =>
              match add_param s l p front with
              | Err e => (w, Some e)
              | Ok s' => (mkWorld (w_store w) (w_map w) (set_nth (w_sets w) n s'), None)
              end
          end
      end
  | XMapShared r k models al =>
      match shared_obj w r k with
      | Err e => (w, Some e)
      | Ok (l, p) =>
          match map_param (w_map w) l p models al with
          | Err e => (w, Some e)
          | Ok m' => (mkWorld (w_store w) m' (w_sets w), None)
          end
      end
  | XNewFrom r =>
      match get_set w r with
      | Err e => (w, Some e)
      | Ok s =>
          match add_all (w_store w) empty_pset (ps_params s) with
          | Err e => (w, Some e)
          | Ok s' => (mkWorld (w_store w) (w_map w) (w_sets w ++ [s']), None)
          end
      end
  | XChangeFixed r k v =>
      match shared_obj w r k with
      | Err e => (w, Some e)
      | Ok (l, p) =>
          match change_fixed_value p v with
          | Err e => (w, Some e)
          | Ok p' => (mkWorld (wr (w_store w) l p') (w_map w) (w_sets w), None)
          end
      end
  | XUpdateCache r =>
      match get_set w r with
      | Err e => (w, Some e)
      | Ok s =>
          match fixed_params (w_store w) s with
          | Err e => (w, Some e)
          | Ok fps => let '(f, e) := upd_cache (ps_fxv s) 0 fps in (put_set w r (w_store w) (with_fxv s f), e)
          end
      end
  end.

Definition xrun (w : world) (ops : list xop) : world := fold_left (fun w o => fst (xstep w o)) ops w.

Fixpoint xtrace (w : world) (ops : list xop) : list (world * option err) :=
  match ops with
  | [] => []
  | o :: r => let we := xstep w o in we :: xtrace (fst we) r
  end.

(* ------------------------------------------------------------------ observation *)
(* everything the harness reads from the real objects after a step, as plain
   tuples / lists *)
Definition obs_param (p : param) :=
  (p_name p, p_initial p, p_isfixed p, p_valmin p, p_valmax p, p_value p).

(* the vector of floating parameter values the harness supplies, in units of 1/8:
   (2^27+1)/8 + i = 16777216.125 + i  (non-integer, not representable in float32) *)
Definition vec_for (s : pset) : list Z :=
  map (fun i => 134217729 + 8 * i) (arange (length (ps_fln s))).

(* dictionaries are compared as finite maps: sorted by key *)
Fixpoint dins (kv : Z * Z) (l : list (Z * Z)) : list (Z * Z) :=
  match l with
  | [] => [kv]
  | x :: r => if fst kv <=? fst x then kv :: l else x :: dins kv r
  end.
Definition dsort (d : dict) : dict := fold_right dins [] d.
Definition rsort (r : res dict) : res dict := match r with Ok d => Ok (dsort d) | Err e => Err e end.

Definition obs_set (st : store) (s : pset) :=
  let vec := vec_for s in
  (1, ps_params s,
    (match mapM (rd st) (ps_params s) with Ok ps => Ok (map obs_param ps) | Err e => Err e end),
   (2, ps_mask s, ps_fxn s, ps_fln s, dsort (ps_fxi s), dsort (ps_fli s), ps_fxv s),
   (3, params_name_list s, fixed_params_idxs s, floating_params_idxs s,
    floating_param_initials st s, floating_param_bounds st s),
   (4, dsort (get_params_dict s vec), dsort (get_floating_params_dict s vec), dsort (get_params_dict s (tl vec)))).

Definition obs_map (m : mapper) (probe : list Z) :=
  let g := mp_gps m in
  let vec := vec_for g in
  let srcs := get_src_model_idxs m None in
  (5, (6, mp_names m, srcs, get_src_model_idxs m (Some (evens srcs)), unique_source_param_names m),
   (7, create_src_params_recarray m vec None,
    create_src_params_recarray m vec (Some (inr (evens srcs))),
    create_src_params_recarray m vec (Some (inl (rev srcs))),
    create_src_params_recarray m (0 :: vec) None),
   (8, map (fun i => rsort (create_model_params_dict m vec i)) (arange (length (mp_src m)) ++ [n_models m; -1]),
    rsort (create_model_params_dict m (0 :: vec) 0)),
   (9, local_is_floating_mask m probe, map (get_gflp_idx m) probe)).

Definition observe (w : world) (probe : list Z) :=
  (10, obs_map (w_map w) probe, obs_set (w_store w) (mp_gps (w_map w)),
   map (obs_set (w_store w)) (w_sets w)).

(* per step: the exception (if any) and the observation afterwards *)
Definition obs_trace (src : list bool) (ops : list op) (probe : list Z) :=
  map (fun we : world * option err => (snd we, observe (fst we) probe)) (trace (init src) ops).

(* only the last step (used by the exhaustive enumeration, where every prefix
   is a case of its own) *)
Definition obs_last (src : list bool) (ops : list op) (probe : list Z) :=
  match rev (trace (init src) ops) with
  | [] => (None, observe (init src) probe)
  | we :: _ => (snd we, observe (fst we) probe)
  end.

Definition xobs_trace (src : list bool) (ops : list xop) (probe : list Z) :=
  map (fun we : world * option err => (snd we, observe (fst we) probe)) (xtrace (init src) ops).

Definition xobs_last (src : list bool) (ops : list xop) (probe : list Z) :=
  match rev (xtrace (init src) ops) with
  | [] => (None, observe (init src) probe)
  | we :: _ => (snd we, observe (fst we) probe)
  end.

(* ------------------------------------------------------------------ extension: create_global_floating_params_dict
   `self._global_paramset.get_floating_params_dict(floating_param_values=gflp_values)` *)
Definition create_global_floating_params_dict (m : mapper) (vec : list Z) : dict :=
  get_floating_params_dict (mp_gps m) vec.

(* the dictionaries (as sorted finite maps) for several vectors on the world reached by a history *)
Definition xobs_gfl (src : list bool) (ops : list xop) (vecs : list (list Z)) :=
  map (fun vec => dsort (create_global_floating_params_dict (w_map (xrun (init src) ops)) vec)) vecs.
