(* C16 — executable model of skyllh.core.storage.DataFieldRecordArray (after the
   fix: commits d68bdf4, 37af686, f023ca8, a08f9c2) over an explicit store of
   numpy buffers.  Definitions only; proofs in proofs/P_Table*.v.

   store   : list of buffers, a location is an index; np.empty / np.append /
             fancy indexing / astype allocate at the end, `a[idx] = v` writes in place.
   obj     : one DataFieldRecordArray: the dict `_data_fields` (insertion ordered,
             name -> location), the list `_field_name_list` (a SEPARATE piece of state,
             exactly as in the code), `_len`, the `_indices` cache.
   world   : store + all DataFieldRecordArray objects alive (origin, selections, copies).
   Values are integers (every column holds integer-valued data within int16, so all
   casts are exact); dtypes are tags 0=int16 1=int32 2=int64 3=float64
   (np.append promotes to the maximum on this chain). *)
From Coq Require Import ZArith List Bool.
From Sky Require Import Result PyList G_table.
Import ListNotations.
Open Scope Z_scope.

Definition name := Z.
Definition dtype := Z.
Definition loc := nat.

Record buf := mkbuf { bdt : dtype; bdata : list Z }.
Definition store := list buf.

Definition rd (s : store) (l : loc) : option buf := nth_error s l.
Definition alloc (s : store) (b : buf) : store * loc := (s ++ [b], length s).
Definition wr (s : store) (l : loc) (b : buf) : store := set_nth s l b.

Record obj := mkobj {
  fields : list (name * loc);      (* self._data_fields *)
  fnl : list name;                 (* self._field_name_list *)
  olen : Z;                        (* self._len *)
  oidx : option loc                (* self._indices *)
}.

Inductive outcome := Done | Raised (e : err) | Stuck.
(* Stuck: impossible in Python (dangling location, object index out of range) or an
   oracle answer (argsort permutation) that is not a sorting permutation. *)

(* ---------------------------------------------------------------- dict / list *)
Fixpoint assoc {V} (n : Z) (d : list (Z * V)) : option V :=
  match d with
  | [] => None
  | (k, v) :: r => if k =? n then Some v else assoc n r
  end.

(* d[n] = v : replace in place or insert at the end *)
Fixpoint dset {V} (d : list (Z * V)) (n : Z) (v : V) : list (Z * V) :=
  match d with
  | [] => [(n, v)]
  | (k, w) :: r => if k =? n then (k, v) :: r else (k, w) :: dset r n v
  end.

(* del d[n] *)
Fixpoint ddel {V} (d : list (Z * V)) (n : Z) : list (Z * V) :=
  match d with
  | [] => []
  | (k, w) :: r => if k =? n then r else (k, w) :: ddel r n
  end.

Definition mem (n : Z) (l : list Z) : bool := existsb (Z.eqb n) l.

(* list.remove(n): first occurrence *)
Fixpoint lremove (n : Z) (l : list Z) : list Z :=
  match l with
  | [] => []
  | k :: r => if k =? n then r else k :: lremove n r
  end.

Definition keys {V} (d : list (Z * V)) : list Z := map fst d.
Definition has (o : obj) (n : name) : bool := mem n (keys (fields o)).   (* n in self *)

Definition with_fields (o : obj) f := mkobj f (fnl o) (olen o) (oidx o).
Definition with_fnl (o : obj) l := mkobj (fields o) l (olen o) (oidx o).

(* ---------------------------------------------------------------- numpy contract *)
Definition blen (b : buf) : Z := zlen (bdata b).
Definition astype (dt : dtype) (b : buf) : buf := mkbuf dt (bdata b).
Definition np_append (b1 b2 : buf) : buf := mkbuf (Z.max (bdt b1) (bdt b2)) (bdata b1 ++ bdata b2).

Definition broadcast (vals : list Z) (k : nat) : option (list Z) :=
  if Nat.eqb (length vals) k then Some vals
  else match vals with [v] => Some (repeat v k) | _ => None end.

Inductive sel := SIdx (idx : list Z) | SMask (m : list bool).

Definition norm_idx (n i : Z) : res nat :=
  let j := if i <? 0 then i + n else i in
  if (j <? 0) || (n <=? j) then Err IndexError else Ok (Z.to_nat j).

Definition count_true (m : list bool) : nat := length (filter (fun b => b) m).

(* positions selected by a selector on an array of length n *)
Fixpoint mask_pos (m : list bool) (k : nat) : list nat :=
  match m with
  | [] => []
  | b :: r => if b then k :: mask_pos r (S k) else mask_pos r (S k)
  end.

Definition sel_pos (n : Z) (sl : sel) : res (list nat) :=
  match sl with
  | SIdx idx => mapM (norm_idx n) idx
  | SMask m => if zlen m =? n then Ok (mask_pos m 0) else Err IndexError
  end.

Definition sel_count (sl : sel) : nat :=
  match sl with SIdx idx => length idx | SMask m => count_true m end.

Fixpoint gather (d : list Z) (ps : list nat) : option (list Z) :=
  match ps with
  | [] => Some []
  | p :: r => match nth_error d p, gather d r with
              | Some v, Some vs => Some (v :: vs)
              | _, _ => None
              end
  end.

(* a[sel] : a new array *)
Definition np_take (d : list Z) (sl : sel) : res (list Z) :=
  do ps <- sel_pos (zlen d) sl;
  match gather d ps with Some v => Ok v | None => Err IndexError end.

Fixpoint scatter (d : list Z) (ps : list nat) (vs : list Z) : list Z :=
  match ps, vs with
  | p :: pr, v :: vr => scatter (set_nth d p v) pr vr
  | _, _ => d
  end.

(* a[sel] = vals, in place.  Integer index: shape mismatch (ValueError) is reported
   before an index out of range (IndexError); boolean mask: the mask length is
   checked first.  Nothing is written when it raises. *)
Definition np_put (d : list Z) (sl : sel) (vals : list Z) : res (list Z) :=
  match sl with
  | SIdx idx =>
      match broadcast vals (length idx) with
      | None => Err ValueError
      | Some vs => do ps <- sel_pos (zlen d) sl; Ok (scatter d ps vs)
      end
  | SMask m =>
      do ps <- sel_pos (zlen d) sl;
      match broadcast vals (length ps) with
      | None => Err ValueError
      | Some vs => Ok (scatter d ps vs)
      end
  end.

(* ---------------------------------------------------------------- loops with a failing body *)
Definition mstate := (store * obj)%type.

Fixpoint loop {A} (f : A -> mstate -> mstate * outcome) (l : list A) (st : mstate)
  : mstate * outcome :=
  match l with
  | [] => (st, Done)
  | a :: r => match f a st with
              | (st', Done) => loop f r st'
              | x => x
              end
  end.

(* ---------------------------------------------------------------- constructor *)
(* __init__ over a column source: `src` = (field name, location) in the order of
   get_field_names, `length` = get_length(data).  Returns the new _data_fields and _len. *)
Definition cstate := (store * list (name * loc) * option Z)%type.

Definition ctor_one (length : Z) (keep : option (list name)) (conv : list (dtype * dtype))
    (exc : list name) (copy : bool) (nl : name * loc) (st : cstate) : cstate * outcome :=
  let '(s, fs, len) := st in
  let '(fname, l) := nl in
  if match keep with Some k => negb (mem fname k) | None => false end then (st, Done)
  else match rd s l with
  | None => (st, Stuck)
  | Some b =>
    let '(dt, copy_field) :=
      match (if mem fname exc then None else assoc (bdt b) conv) with
      | Some dt' => (dt', true)
      | None => (bdt b, copy)
      end in
    let r : res (store * loc * Z) :=
      if copy_field then
        (* field_arr = np.empty((length,), dt); np.copyto(field_arr, column, casting='unsafe')
           (after fix be7ac9c: every numeric cast is accepted) *)
        match broadcast (bdata b) (Z.to_nat length) with
        | None => Err ValueError
        | Some vs => let '(s', l') := alloc s (mkbuf dt vs) in Ok (s', l', zlen vs)
        end
      else Ok (s, l, blen b) in
    match r with
    | Err e => (st, Raised e)
    | Ok (s', l', flen) =>
      match len with
      | None => ((s', dset fs fname l', Some (ctor_first_len flen)), Done)
      | Some n => if ctor_len_bad n flen then ((s', fs, len), Raised ValueError)
                  else ((s', dset fs fname l', len), Done)
      end
    end
  end.

Fixpoint cloop (f : (name * loc) -> cstate -> cstate * outcome) (l : list (name * loc)) (st : cstate)
  : cstate * outcome :=
  match l with
  | [] => (st, Done)
  | a :: r => match f a st with
              | (st', Done) => cloop f r st'
              | x => x
              end
  end.

Definition ctor (s : store) (src : list (name * loc)) (length : Z) keep conv exc copy
  : store * option obj * outcome :=
  match cloop (ctor_one length keep conv exc copy) src (s, [], None) with
  | ((s', fs, len), Done) =>
      let n := match len with Some n => n | None => ctor_empty_len end in
      (s', Some (mkobj fs (keys fs) n None), Done)
  | ((s', _, _), x) => (s', None, x)
  end.

(* DictDataTableAccessor: names = keys, length = shape[0] of the first column *)
Definition dict_length (s : store) (d : list (name * loc)) : option Z :=
  if dict_nonempty (zlen d) then
    match d with
    | (_, l) :: _ => match rd s l with Some b => Some (blen b) | None => None end
    | [] => None
    end
  else Some 0.

Definition ctor_dict (s : store) (d : list (name * loc)) keep conv exc copy :=
  match dict_length s d with
  | Some n => ctor s d n keep conv exc copy
  | None => (s, None, Stuck)
  end.

(* the user's dict of fresh arrays *)
Fixpoint alloc_cols (s : store) (cols : list (name * buf)) (d : list (name * loc))
  : store * list (name * loc) :=
  match cols with
  | [] => (s, d)
  | (n, b) :: r => let '(s', l) := alloc s b in alloc_cols s' r (dset d n l)
  end.

(* DataFieldRecordArrayDataTableAccessor: names = data.field_name_list, dtypes via
   data[fname] for EVERY listed field (KeyError), length = len(data); copy is forced *)
Fixpoint lookup_all (a : obj) (ns : list name) : res (list (name * loc)) :=
  match ns with
  | [] => Ok []
  | n :: r => match assoc n (fields a) with
              | None => Err KeyError
              | Some l => do t <- lookup_all a r; Ok ((n, l) :: t)
              end
  end.

Definition ctor_from (s : store) (a : obj) keep conv exc : store * option obj * outcome :=
  match lookup_all a (fnl a) with
  | Err e => (s, None, Raised e)
  | Ok src => ctor s src (olen a) keep conv exc true
  end.

(* ---------------------------------------------------------------- get_selection *)
Definition sel_one (sl : sel) (a : obj) (fname : name)
    (st : store * list (name * loc)) : (store * list (name * loc)) * outcome :=
  let '(s, d) := st in
  match assoc fname (fields a) with
  | None => (st, Raised KeyError)
  | Some l => match rd s l with
    | None => (st, Stuck)
    | Some b => match np_take (bdata b) sl with
      | Err e => (st, Raised e)
      | Ok vs => let '(s', l') := alloc s (mkbuf (bdt b) vs) in ((s', dset d fname l'), Done)
      end
    end
  end.

Fixpoint sloop (f : name -> (store * list (name * loc)) -> (store * list (name * loc)) * outcome)
    (l : list name) st :=
  match l with
  | [] => (st, Done)
  | a :: r => match f a st with
              | (st', Done) => sloop f r st'
              | x => x
              end
  end.

Definition get_selection (s : store) (a : obj) (sl : sel) : store * option obj * outcome :=
  match sloop (sel_one sl a) (fnl a) (s, []) with
  | ((s', d), Done) => ctor_dict s' d None [] [] false
  | ((s', _), x) => (s', None, x)
  end.

(* ---------------------------------------------------------------- mutators *)
Definition append_one (a : obj) (fname : name) (st : mstate) : mstate * outcome :=
  let '(s, o) := st in
  match assoc fname (fields o), assoc fname (fields a) with
  | Some l1, Some l2 =>
      match rd s l1, rd s l2 with
      | Some b1, Some b2 =>
          let '(s', l) := alloc s (np_append b1 b2) in
          ((s', with_fields o (dset (fields o) fname l)), Done)
      | _, _ => (st, Stuck)
      end
  | _, _ => (st, Raised KeyError)
  end.

Definition append (s : store) (o a : obj) : mstate * outcome :=
  if forallb (has a) (fnl o) then
    match loop (append_one a) (fnl o) (s, o) with
    | ((s', o'), Done) =>
        ((s', mkobj (fields o') (fnl o') (append_new_len (olen o') (olen a)) None), Done)
    | x => x
    end
  else ((s, o), Raised KeyError).

Definition append_field (s : store) (o : obj) (n : name) (l : loc) : mstate * outcome :=
  match rd s l with
  | None => ((s, o), Stuck)
  | Some b =>
    if has o n then ((s, o), Raised KeyError)
    else if af_len_bad (olen o) (blen b) then ((s, o), Raised ValueError)
    else ((s, mkobj (dset (fields o) n l) (fnl o ++ [n]) (olen o) (oidx o)), Done)
  end.

Definition setitem (s : store) (o : obj) (n : name) (l : loc) : mstate * outcome :=
  if negb (has o n) then append_field s o n l
  else match rd s l with
  | None => ((s, o), Stuck)
  | Some b =>
    if si_len_bad (olen o) (blen b) then ((s, o), Raised ValueError)
    else ((s, with_fields o (dset (fields o) n l)), Done)
  end.

Definition remove_field (s : store) (o : obj) (n : name) : mstate * outcome :=
  match assoc n (fields o) with
  | None => ((s, o), Raised KeyError)                        (* dict.pop *)
  | Some _ =>
    let o1 := with_fields o (ddel (fields o) n) in
    if mem n (fnl o) then ((s, with_fnl o1 (lremove n (fnl o))), Done)
    else ((s, o1), Raised ValueError)                        (* list.remove *)
  end.

Definition tidy_one (keep : list name) (fname : name) (st : mstate) : mstate * outcome :=
  if mem fname keep then (st, Done) else remove_field (fst st) (snd st) fname.

Definition tidy_up (s : store) (o : obj) (keep : list name) : mstate * outcome :=
  loop (tidy_one keep) (fnl o) (s, o).

(* rename_fields (after fix 4f30bc8): first ALL to-be-renamed fields are popped (the
   membership test uses self.field_name_list, which is not updated inside the loop),
   then they are inserted under their new names, then the name list is rebuilt. *)
Fixpoint rename_pop (fl : list name) (conv : list (name * name)) (d : list (name * loc))
  : list (name * loc) * list (name * loc) * outcome :=
  match conv with
  | [] => (d, [], Done)
  | (old, new) :: r =>
    if mem old fl then
      match assoc old d with
      | None => (d, [], Raised KeyError)                     (* dict.pop *)
      | Some l => let '(d', ins, x) := rename_pop fl r (ddel d old) in (d', (new, l) :: ins, x)
      end
    else rename_pop fl r d
  end.

Fixpoint rename_ins (ins : list (name * loc)) (d : list (name * loc)) : list (name * loc) :=
  match ins with
  | [] => d
  | (n, l) :: r => rename_ins r (dset d n l)
  end.

Definition rename_fields (s : store) (o : obj) (conv : list (name * name)) (must : bool)
  : mstate * outcome :=
  if must && negb (forallb (fun c => mem (fst c) (fnl o)) conv) then ((s, o), Raised KeyError)
  else match rename_pop (fnl o) conv (fields o) with
       | (d, ins, Done) => let d' := rename_ins ins d in ((s, mkobj d' (keys d') (olen o) (oidx o)), Done)
       | (d, _, x) => ((s, with_fields o d), x)
       end.

Definition setsel_one (sl : sel) (a : obj) (fname : name) (st : mstate) : mstate * outcome :=
  let '(s, o) := st in
  match assoc fname (fields o), assoc fname (fields a) with
  | Some l1, Some l2 =>
      match rd s l1, rd s l2 with
      | Some b1, Some b2 =>
          match np_put (bdata b1) sl (bdata b2) with
          | Err e => (st, Raised e)
          | Ok d => ((wr s l1 (mkbuf (bdt b1) d), o), Done)
          end
      | _, _ => (st, Stuck)
      end
  | _, _ => (st, Raised KeyError)
  end.

Definition set_selection (s : store) (o a : obj) (sl : sel) : mstate * outcome :=
  if forallb (has a) (fnl o) then loop (setsel_one sl a) (fnl o) (s, o)
  else ((s, o), Raised KeyError).

(* np.argsort oracle: perm must be a permutation of arange(len(key)) that sorts key *)
Fixpoint sortedb (l : list Z) : bool :=
  match l with
  | a :: ((b :: _) as r) => (a <=? b) && sortedb r
  | _ => true
  end.

Definition is_perm (perm : list Z) (n : nat) : bool :=
  Nat.eqb (length perm) n
  && forallb (fun k => Nat.eqb (length (filter (Z.eqb (Z.of_nat k)) perm)) 1) (seq 0 n).

Definition argsort_ok (key : list Z) (perm : list Z) : bool :=
  is_perm perm (length key)
  && match gather key (map Z.to_nat perm) with Some v => sortedb v | None => false end.

Definition sort_one (perm : list Z) (fname : name) (st : mstate) : mstate * outcome :=
  let '(s, o) := st in
  match assoc fname (fields o) with
  | None => (st, Raised KeyError)
  | Some l => match rd s l with
    | None => (st, Stuck)
    | Some b => match np_take (bdata b) (SIdx perm) with
      | Err e => (st, Raised e)
      | Ok vs => let '(s', l') := alloc s (mkbuf (bdt b) vs) in
                 ((s', with_fields o (dset (fields o) fname l')), Done)
      end
    end
  end.

Definition sort_by_field (s : store) (o : obj) (n : name) (perm : list Z) : mstate * outcome :=
  match assoc n (fields o) with
  | None => ((s, o), Raised KeyError)
  | Some l => match rd s l with
    | None => ((s, o), Stuck)
    | Some b => if argsort_ok (bdata b) perm then loop (sort_one perm) (fnl o) (s, o)
                else ((s, o), Stuck)
    end
  end.

Definition set_field_dtype (s : store) (o : obj) (n : name) (dt : dtype) : mstate * outcome :=
  match assoc n (fields o) with
  | None => ((s, o), Raised KeyError)
  | Some l => match rd s l with
    | None => ((s, o), Stuck)
    | Some b =>
      if bdt b =? dt then ((s, o), Done)                      (* astype(dt, copy=False) *)
      else let '(s', l') := alloc s (astype dt b) in
           ((s', with_fields o (dset (fields o) n l')), Done)
    end
  end.

Definition convert_one (conv : list (dtype * dtype)) (exc : list name) (fname : name)
    (st : mstate) : mstate * outcome :=
  let '(s, o) := st in
  if mem fname exc then (st, Done)
  else match assoc fname (fields o) with
  | None => (st, Raised KeyError)
  | Some l => match rd s l with
    | None => (st, Stuck)
    | Some b => match assoc (bdt b) conv with
      | None => (st, Done)
      | Some dt => let '(s', l') := alloc s (astype dt b) in
                   ((s', with_fields o (dset (fields o) fname l')), Done)
      end
    end
  end.

Definition convert_dtypes (s : store) (o : obj) conv exc : mstate * outcome :=
  loop (convert_one conv exc) (fnl o) (s, o).

Definition get_indices (s : store) (o : obj) : mstate * outcome :=
  match oidx o with
  | Some _ => ((s, o), Done)
  | None =>
      let '(s', l) := alloc s (mkbuf 2 (arange (Z.to_nat (indices_n (olen o))))) in
      ((s', mkobj (fields o) (fnl o) (olen o) (Some l)), Done)
  end.

(* ---------------------------------------------------------------- the world *)
Record world := mkworld { wstore : store; wobjs : list obj }.

Inductive op :=
| OCtor (cols : list (name * buf)) (keep : option (list name)) (conv : list (dtype * dtype))
        (exc : list name) (copy : bool)
| OCtorFrom (src : nat) (keep : option (list name)) (conv : list (dtype * dtype)) (exc : list name)
| OSelect (src : nat) (sl : sel)
| OSetSel (t : nat) (sl : sel) (src : nat)
| OAppend (t src : nat)
| OAppendField (t : nat) (n : name) (b : buf)
| OSetItem (t : nat) (n : name) (b : buf)
| ORemove (t : nat) (n : name)
| ORename (t : nat) (conv : list (name * name)) (must : bool)
| OTidy (t : nat) (keep : list name)
| OSort (t : nat) (n : name) (perm : list Z)
| OConvert (t : nat) (conv : list (dtype * dtype)) (exc : list name)
| OSetDtype (t : nat) (n : name) (dt : dtype)
| OIndices (t : nat)
(* t[n] = src[m]: the ARRAY OBJECT of a column of one table is stored into another table (or the
   same one).  __getitem__ returns the live column and __setitem__ / append_field store what they
   are given, so this ALIASES the two columns.  It is not well-formed in the sense of op_wf
   (P_Table.v): the theorems are about callers that hand in arrays of their own. *)
| OSetItemFrom (t : nat) (n : name) (src : nat) (m : name).

Definition copy_op (src : nat) (keep : option (list name)) : op := OCtorFrom src keep [] [].

Definition put_obj (w : world) (t : nat) (r : mstate * outcome) : world * outcome :=
  let '((s, o), x) := r in (mkworld s (set_nth (wobjs w) t o), x).

Definition new_obj (w : world) (r : store * option obj * outcome) : world * outcome :=
  let '(s, oo, x) := r in
  (mkworld s (match oo with Some o => wobjs w ++ [o] | None => wobjs w end), x).

Definition on1 (w : world) (t : nat) (f : obj -> world * outcome) : world * outcome :=
  match nth_error (wobjs w) t with Some o => f o | None => (w, Stuck) end.

Definition step (w : world) (p : op) : world * outcome :=
  let s := wstore w in
  match p with
  | OCtor cols keep conv exc copy =>
      let '(s1, d) := alloc_cols s cols [] in
      new_obj w (ctor_dict s1 d keep conv exc copy)
  | OCtorFrom src keep conv exc => on1 w src (fun a => new_obj w (ctor_from s a keep conv exc))
  | OSelect src sl => on1 w src (fun a => new_obj w (get_selection s a sl))
  | OSetSel t sl src =>
      on1 w t (fun o => on1 w src (fun a => put_obj w t (set_selection s o a sl)))
  | OAppend t src => on1 w t (fun o => on1 w src (fun a => put_obj w t (append s o a)))
  | OAppendField t n b =>
      on1 w t (fun o => let '(s1, l) := alloc s b in put_obj w t (append_field s1 o n l))
  | OSetItem t n b =>
      on1 w t (fun o => let '(s1, l) := alloc s b in put_obj w t (setitem s1 o n l))
  | ORemove t n => on1 w t (fun o => put_obj w t (remove_field s o n))
  | ORename t conv must => on1 w t (fun o => put_obj w t (rename_fields s o conv must))
  | OTidy t keep => on1 w t (fun o => put_obj w t (tidy_up s o keep))
  | OSort t n perm => on1 w t (fun o => put_obj w t (sort_by_field s o n perm))
  | OConvert t conv exc => on1 w t (fun o => put_obj w t (convert_dtypes s o conv exc))
  | OSetDtype t n dt => on1 w t (fun o => put_obj w t (set_field_dtype s o n dt))
  | OIndices t => on1 w t (fun o => put_obj w t (get_indices s o))
  | OSetItemFrom t n src m =>
      on1 w t (fun o => on1 w src (fun a =>
        match assoc m (fields a) with
        | Some l => put_obj w t (setitem s o n l)
        | None => (w, Raised KeyError)
        end))
  end.

Definition empty_world : world := mkworld [] [].

Fixpoint run (w : world) (ops : list op) : world :=
  match ops with
  | [] => w
  | p :: r => run (fst (step w p)) r
  end.

(* ---------------------------------------------------------------- observation (harness) *)
Definition obs_col (s : store) (nl : name * loc) : name * nat * option (dtype * list Z) :=
  (fst nl, snd nl, match rd s (snd nl) with Some b => Some (bdt b, bdata b) | None => None end).

Definition obs_obj (s : store) (o : obj) :=
  (fnl o, map (obs_col s) (fields o), olen o,
   match oidx o with
   | None => None
   | Some l => Some (l, match rd s l with Some b => Some (bdt b, bdata b) | None => None end)
   end).

Definition observe (w : world) := map (obs_obj (wstore w)) (wobjs w).

Fixpoint run_obs (w : world) (ops : list op) :=
  match ops with
  | [] => []
  | p :: r => let '(w', x) := step w p in (x, observe w') :: run_obs w' r
  end.
