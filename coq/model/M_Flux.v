(* Model of skyllh/core/flux_model.py (flux profiles, FactorizedFluxModel) and
   the parameter interface of skyllh/core/math.py (MathFunction), polymorphic
   in the number system.  Formulas and comparisons are the regenerated kernels
   of gen/G_flux.v; this file supplies the class dispatch, the setter /
   set_params plumbing, the constructors as the code runs them, and an explicit
   object store (profiles and models are mutable objects; copy = deepcopy
   allocates).  Definitions only.

   Units are integer codes with a factor table (energy: 0 GeV, 1 TeV, 2 PeV in
   GeV; time: 0 s, 1 day, 2 yr in s); `unit.to(self_unit)` is the quotient of
   the factors.  Not modelled: angle units (always the profile's own), None as
   ra/dec of a point profile, NaN parameter values, EpeakFunctionEnergyProfile,
   the Photospline profile. *)
From Coq Require Import ZArith List Bool.
From Sky Require Import Result Num G_flux.
Import ListNotations.
Open Scope Z_scope.

Definition efac (u : Z) : Z := if u =? 0 then 1 else if u =? 1 then 1000 else 1000000.
Definition tfac (u : Z) : Z := if u =? 0 then 1 else if u =? 1 then 86400 else 31557600.

Inductive pname : Set :=
| nE0 | nGamma | nEcut | nAlpha | nBeta | nTstart | nTstop | nT0 | nTw | nSigma
| nRa | nDec | nPhi0 | nOther.
Scheme Equality for pname.

Section Model.
  Context {T : Type} (N : Num T).

  Inductive eprof : Type :=
  | UnityE (eu : Z)
  | PowerLaw (eu : Z) (E0 g : T)
  | Cutoff (eu : Z) (E0 g Ec : T)
  | LogPar (eu : Z) (E0 a b : T)       (* the base-class gamma = nan is never read *)
  | FuncE (eu : Z) (f : T -> T).
  Inductive tprof : Type :=
  | UnityT (tu : Z) (ts te : T)
  | Box (tu : Z) (ts te : T)
  | Gauss (tu : Z) (ts te sg tol : T).
  Inductive sprof : Type :=
  | UnityS
  | Point (ra dec : T).

  (* ------------------------------------------------------------ units *)
  Definition conv (fac : Z -> Z) (u su : Z) : T := ndiv N (ofZ N (fac u)) (ofZ N (fac su)).
  (* `if (unit is not None) and (unit != self._unit): x = x * unit.to(self._unit)` *)
  Definition to_self (fac : Z -> Z) (test : option Z -> Z -> bool) (scale : T -> T -> T)
             (unit : option Z) (su : Z) (x : T) : T :=
    if test unit su
    then match unit with Some u => scale x (conv fac u su) | None => x end
    else x.

  (* ------------------------------------------------------------ energy profiles *)
  Definition e_unit (p : eprof) : Z :=
    match p with UnityE u | PowerLaw u _ _ | Cutoff u _ _ _ | LogPar u _ _ _ | FuncE u _ => u end.

  Definition e_call (p : eprof) (unit : option Z) (E : T) : T :=
    match p with
    | UnityE _ => none N
    | PowerLaw eu E0 g => pl_call N (to_self efac pl_call_conv (pl_call_scale N) unit eu E) E0 g
    | Cutoff eu E0 g Ec =>
        let E' := to_self efac co_call_conv (nmul N) unit eu E in
        co_factor N (co_super N (pl_call N E' E0 g)) E' Ec   (* super().__call__(E=E', unit=None): converted once *)
    | LogPar eu E0 a b => lp_call N (to_self efac lp_call_conv (nmul N) unit eu E) E0 a b
    | FuncE eu f => f (to_self efac fn_call_conv (nmul N) unit eu E)
    end.

  Definition pl_integral (E0 g E1 E2 : T) : T :=
    if pl_is_g1 N g then pl_int_g1 N E0 E1 E2 else pl_int_gen N E0 g E1 E2.

  (* get_integral: Some v = closed form of the code; None = the code integrates
     e_call numerically (scipy quad), there is no formula to model *)
  Definition e_int (p : eprof) (unit : option Z) (E1 E2 : T) : option T :=
    match p with
    | UnityE eu =>
        Some (ue_int N (to_self efac ue_int_conv (nmul N) unit eu E1)
                       (to_self efac ue_int_conv (nmul N) unit eu E2))
    | PowerLaw eu E0 g =>
        Some (pl_integral E0 g (to_self efac pl_int_conv (pl_int_scale1 N) unit eu E1)
                               (to_self efac pl_int_conv (pl_int_scale2 N) unit eu E2))
    | _ => None
    end.

  (* the generic EnergyFluxProfile.get_integral: scipy quad (the oracle Q) applied to the profile's
     own __call__ in its own unit, between the converted bounds *)
  Definition gen_integral (Q : (T -> T) -> T -> T -> T) (p : eprof) (unit : option Z) (E1 E2 : T) : T :=
    gen_int_quad N
      (Q (fun E => gen_int_integrand N (e_call p None E))
         (to_self efac gen_int_conv (gen_int_scale1 N) unit (e_unit p) E1)
         (to_self efac gen_int_conv (gen_int_scale2 N) unit (e_unit p) E2)).
  (* get_integral of every energy profile, given the quadrature oracle *)
  Definition e_int_q (Q : (T -> T) -> T -> T -> T) (p : eprof) (unit : option Z) (E1 E2 : T) : T :=
    match p with
    | Cutoff _ _ _ _ => co_int_delegate N (gen_integral Q p unit E1 E2)
    | LogPar _ _ _ _ => lp_int_delegate N (gen_integral Q p unit E1 E2)
    | FuncE _ _ => gen_integral Q p unit E1 E2
    | _ => match e_int p unit E1 E2 with Some v => v | None => nzero N end
    end.

  Definition e_names (p : eprof) : list pname :=
    match p with
    | UnityE _ => [] | PowerLaw _ _ _ => [nE0; nGamma] | Cutoff _ _ _ _ => [nE0; nGamma; nEcut]
    | LogPar _ _ _ _ => [nE0; nAlpha; nBeta] | FuncE _ _ => []
    end.
  (* property getters *)
  Definition e_get (p : eprof) (n : pname) : option T :=
    match p, n with
    | PowerLaw _ E0 _, nE0 | Cutoff _ E0 _ _, nE0 | LogPar _ E0 _ _, nE0 => Some E0
    | PowerLaw _ _ g, nGamma | Cutoff _ _ g _, nGamma => Some g
    | Cutoff _ _ _ Ec, nEcut => Some Ec
    | LogPar _ _ a _, nAlpha => Some a
    | LogPar _ _ _ b, nBeta => Some b
    | _, _ => None
    end.
  (* property setters (float_cast is the identity on floats) *)
  Definition e_set (p : eprof) (n : pname) (v : T) : eprof :=
    match p, n with
    | PowerLaw u _ g, nE0 => PowerLaw u v g
    | PowerLaw u E0 _, nGamma => PowerLaw u E0 v
    | Cutoff u _ g Ec, nE0 => Cutoff u v g Ec
    | Cutoff u E0 _ Ec, nGamma => Cutoff u E0 v Ec
    | Cutoff u E0 g _, nEcut => Cutoff u E0 g v
    | LogPar u _ a b, nE0 => LogPar u v a b
    | LogPar u E0 _ b, nAlpha => LogPar u E0 v b
    | LogPar u E0 a _, nBeta => LogPar u E0 a v
    | _, _ => p
    end.

  (* ------------------------------------------------------------ time profiles *)
  Definition t_unit (p : tprof) : Z :=
    match p with UnityT u _ _ | Box u _ _ | Gauss u _ _ _ _ => u end.

  Definition t_call (p : tprof) (unit : option Z) (t : T) : T :=
    match p with
    | UnityT _ _ _ => none N
    | Box tu ts te =>
        let t' := to_self tfac box_call_conv (nmul N) unit tu t in
        if box_call_m N t' ts te then none N else nzero N
    | Gauss tu ts te sg _ =>
        let t' := to_self tfac ga_call_conv (nmul N) unit tu t in
        if ga_call_m N t' ts te
        then ga_call_val N (ga_call_dt N t' (ga_call_t0 N ts te)) (ga_call_twossq N sg)
        else nzero N
    end.

  Definition box_integral (ts te t1 t2 : T) : T :=
    if box_int_m N t1 t2 ts te then box_int_val N (box_int_lo N t1 ts) (box_int_hi N t2 te)
    else nzero N.
  Definition gauss_integral (ts te sg t1 t2 : T) : T :=
    let t1 := ga_int_clip1 N t1 ts te in        (* clipped to the support window *)
    let t2 := ga_int_clip2 N t2 ts te in
    let t0 := ga_int_t0 N ts te in
    let c1 := ga_int_c1 N sg in
    let c2 := ga_int_c2 N sg in
    ga_int_val N (ga_int_i1 N c1 c2 t1 t0) (ga_int_i2 N c1 c2 t2 t0).

  Definition t_int (p : tprof) (unit : option Z) (t1 t2 : T) : T :=
    match p with
    | UnityT tu _ _ =>
        ut_int N (to_self tfac ut_int_conv (nmul N) unit tu t1) (to_self tfac ut_int_conv (nmul N) unit tu t2)
    | Box tu ts te =>
        box_integral ts te (to_self tfac box_int_conv (nmul N) unit tu t1)
                           (to_self tfac box_int_conv (nmul N) unit tu t2)
    | Gauss tu ts te sg _ =>
        gauss_integral ts te sg (to_self tfac ga_int_conv (nmul N) unit tu t1)
                                (to_self tfac ga_int_conv (nmul N) unit tu t2)
    end.

  (* get_total_integral: the integral over the current support window, recomputed on every call *)
  Definition t_total (p : tprof) : T :=
    match p with
    | UnityT _ ts te | Box _ ts te | Gauss _ ts te _ _ => tp_total_ret N (tp_total N (t_int p None ts te))
    end.

  (* BoxTimeFluxProfile.cdf: zeros; [m0] := ratio; [m1] := 1 *)
  Definition box_cdf (tu : Z) (ts te : T) (unit : option Z) (t : T) : T :=
    let t' := to_self tfac box_cdf_conv (nmul N) unit tu t in
    if box_cdf_m1 N t' te then none N
    else if box_cdf_m0 N t' ts te then box_cdf_val N t' ts te else nzero N.

  (* GaussianTimeFluxProfile.cdf: zeros; [m0] := I(t_start, t) / total; [m1] := 1 *)
  Definition gauss_cdf (tu : Z) (ts te sg tol : T) (unit : option Z) (t : T) : T :=
    let p := Gauss tu ts te sg tol in
    let t' := to_self tfac ga_cdf_conv (nmul N) unit tu t in
    if ga_cdf_m1 N t' te then none N
    else if ga_cdf_m0 N t' ts te then ga_cdf_val N (t_int p None ts t') (t_total p) else nzero N.
  (* cdf of a time profile (the unity profile has none) *)
  Definition t_cdf (p : tprof) (unit : option Z) (t : T) : option T :=
    match p with
    | UnityT _ _ _ => None
    | Box tu ts te => Some (box_cdf tu ts te unit t)
    | Gauss tu ts te sg tol => Some (gauss_cdf tu ts te sg tol unit t)
    end.

  Definition t_move (p : tprof) (dt : T) (unit : option Z) : tprof :=
    match p with
    | UnityT _ _ _ => p
    | Box tu ts te =>
        let d := to_self tfac box_move_conv (box_move_scale N) unit tu dt in
        Box tu (box_move_start N ts d) (box_move_stop N te d)
    | Gauss tu ts te sg tol =>
        let d := to_self tfac ga_move_conv (ga_move_scale N) unit tu dt in
        Gauss tu (ga_move_start N ts d) (ga_move_stop N te d) sg tol
    end.

  Definition t_names (p : tprof) : list pname :=
    match p with
    | UnityT _ _ _ => [nTstart; nTstop] | Box _ _ _ => [nT0; nTw] | Gauss _ _ _ _ _ => [nT0; nSigma]
    end.
  (* property getters; t_start / t_stop are properties of every time profile *)
  Definition t_get (p : tprof) (n : pname) : option T :=
    match p, n with
    | UnityT _ ts _, nTstart | Box _ ts _, nTstart | Gauss _ ts _ _ _, nTstart => Some ts
    | UnityT _ _ te, nTstop | Box _ _ te, nTstop | Gauss _ _ te _ _, nTstop => Some te
    | Box _ ts te, nT0 => Some (box_get_t0 N ts te)
    | Box _ ts te, nTw => Some (box_get_tw N ts te)
    | Gauss _ ts te _ _, nT0 => Some (ga_get_t0 N ts te)
    | Gauss _ _ _ sg _, nSigma => Some sg
    | _, _ => None
    end.
  Definition t_set (p : tprof) (n : pname) (v : T) : tprof :=
    match p, n with
    | UnityT tu _ te, nTstart => UnityT tu v te
    | UnityT tu ts _, nTstop => UnityT tu ts v
    | Box tu _ te, nTstart => Box tu v te
    | Box tu ts _, nTstop => Box tu ts v
    | Gauss tu _ te sg tol, nTstart => Gauss tu v te sg tol
    | Gauss tu ts _ sg tol, nTstop => Gauss tu ts v sg tol
    | Box tu ts te, nT0 => t_move p (box_set_t0_dt N v (box_get_t0 N ts te)) None
    | Box tu ts te, nTw =>
        let t0 := box_get_t0 N ts te in Box tu (box_set_tw_start N t0 v) (box_set_tw_stop N t0 v)
    | Gauss tu ts te sg tol, nT0 => t_move p (ga_set_t0_dt N v (ga_get_t0 N ts te)) None
    | Gauss tu ts te sg tol, nSigma =>
        let t0 := ga_get_t0 N ts te in
        let d := ga_set_sigma_dt N v tol in
        Gauss tu (ga_set_sigma_start N t0 d) (ga_set_sigma_stop N t0 d) v tol
    | _, _ => p
    end.

  (* constructors, as the code runs them *)
  Definition box_new (tu : Z) (t0 tw : T) : tprof :=
    Box tu (box_ctor_start N t0 tw) (box_ctor_stop N t0 tw).
  Definition box_from (tu : Z) (start stop : T) : tprof :=
    box_new tu (box_from_t0 N start stop) (box_from_tw N start stop).
  (* window from (t0, sigma_t, tol); then `self.t0 = t0`; then `self.sigma_t = sigma_t` *)
  Definition gauss_new (tu : Z) (t0 sg tol : T) : tprof :=
    let d := ga_ctor_dt N sg tol in
    let p0 := Gauss tu (ga_ctor_start N t0 d) (ga_ctor_stop N t0 d) sg tol in
    t_set (t_set p0 nT0 t0) nSigma sg.

  (* ------------------------------------------------------------ spatial profiles *)
  Definition s_call (p : sprof) (ra dec : T) : T :=
    match p with
    | UnityS => none N
    | Point r d => if pt_call N ra dec r d then none N else nzero N
    end.
  Definition s_names (p : sprof) : list pname := match p with UnityS => [] | Point _ _ => [nRa; nDec] end.
  Definition s_get (p : sprof) (n : pname) : option T :=
    match p, n with Point r _, nRa => Some r | Point _ d, nDec => Some d | _, _ => None end.
  Definition s_set (p : sprof) (n : pname) (v : T) : sprof :=
    match p, n with Point _ d, nRa => Point v d | Point r _, nDec => Point r v | _, _ => p end.

  (* ------------------------------------------------------------ MathFunction *)
  Fixpoint lookup (pd : list (pname * T)) (n : pname) : option T :=
    match pd with
    | [] => None
    | (k, v) :: r => if pname_beq k n then Some v else lookup r n
    end.

  (* MathFunction.set_params: for pname in param_names: current = getattr;
     pvalue = pdict.get(pname, current); if pvalue != current: setattr; updated = True *)
  Definition set_params_gen {P : Type} (get : P -> pname -> option T) (set : P -> pname -> T -> P)
             (names : list pname) (pd : list (pname * T)) (p : P) : P * bool :=
    fold_left (fun (st : P * bool) n =>
                 match get (fst st) n with
                 | Some cur =>
                     let v := match lookup pd n with Some v => v | None => cur end in
                     if mf_changed N v cur then (set (fst st) n v, true) else st
                 | None => st
                 end) names (p, false).
  (* MathFunction.get_param: nan (None) when the name is not in param_names *)
  Definition get_param_gen {P : Type} (get : P -> pname -> option T) (names : list pname)
             (p : P) (n : pname) : option T :=
    if existsb (pname_beq n) names then get p n else None.

  Definition e_set_params pd p := set_params_gen e_get e_set (e_names p) pd p.
  Definition t_set_params pd p := set_params_gen t_get t_set (t_names p) pd p.
  Definition s_set_params pd p := set_params_gen s_get s_set (s_names p) pd p.
  Definition e_get_param p n := get_param_gen e_get (e_names p) p n.
  Definition t_get_param p n := get_param_gen t_get (t_names p) p n.
  Definition s_get_param p n := get_param_gen s_get (s_names p) p n.

  (* ------------------------------------------------------------ object store *)
  Inductive obj : Type :=
  | OE (p : eprof) | OT (p : tprof) | OS (p : sprof)
  | OM (Phi0 : T) (ls le lt : nat).             (* FactorizedFluxModel: references *)
  Definition store := list obj.

  Fixpoint upd (s : store) (l : nat) (o : obj) : store :=
    match s, l with
    | [], _ => []
    | _ :: r, O => o :: r
    | x :: r, S k => x :: upd r k o
    end.

  Definition get_s (s : store) (l : nat) : res sprof :=
    match nth_error s l with Some (OS p) => Ok p | _ => Err TypeError end.
  Definition get_e (s : store) (l : nat) : res eprof :=
    match nth_error s l with Some (OE p) => Ok p | _ => Err TypeError end.
  Definition get_t (s : store) (l : nat) : res tprof :=
    match nth_error s l with Some (OT p) => Ok p | _ => Err TypeError end.

  (* FactorizedFluxModel(Phi0, spatial, energy, time): the property setters type-check *)
  Definition ffm_new (s : store) (Phi0 : T) (ls le lt : nat) : res (store * nat) :=
    do _ <- get_s s ls; do _ <- get_e s le; do _ <- get_t s lt;
    Ok (s ++ [OM Phi0 ls le lt], length s).

  (* one element (i, j, k) of the (Ncoord, Nenergy, Ntime) result of __call__ *)
  Definition ffm_call (s : store) (l : nat) (rd : option (T * T)) (E t : option T)
             (eu tu : option Z) : res T :=
    match nth_error s l with
    | Some (OM Phi0 ls le lt) =>
        do sp <- get_s s ls; do ep <- get_e s le; do tp <- get_t s lt;
        let sv := match rd with Some (ra, dec) => s_call sp ra dec | None => none N end in
        let ev := match E with Some x => e_call ep eu x | None => none N end in
        let tv := match t with Some x => t_call tp tu x | None => none N end in
        Ok (ffm_flux N Phi0 sv ev tv)
    | _ => Err TypeError
    end.

  (* __call__ with every argument optional, through the code's own `is not None` tests: the
     spatial profile is evaluated only when BOTH ra and dec are given *)
  Definition given {A : Type} (o : option A) : option Z := match o with Some _ => Some 0 | None => None end.
  Definition ffm_call2 (s : store) (l : nat) (ra dec E t : option T) (eu tu : option Z) : res T :=
    match nth_error s l with
    | Some (OM Phi0 ls le lt) =>
        do sp <- get_s s ls; do ep <- get_e s le; do tp <- get_t s lt;
        let sv := if ffm_if_s (given ra) (given dec)
                  then match ra, dec with Some a, Some b => s_call sp a b | _, _ => none N end
                  else none N in
        let ev := if ffm_if_e (given E) then match E with Some x => e_call ep eu x | None => none N end
                  else none N in
        let tv := if ffm_if_t (given t) then match t with Some x => t_call tp tu x | None => none N end
                  else none N in
        Ok (ffm_flux N Phi0 sv ev tv)
    | _ => Err TypeError
    end.

  (* __call__ on array arguments: the (Ncoord, Nenergy, Ntime) outer product; an absent argument
     contributes the one-element array [1] *)
  Definition ffm_call_arr (s : store) (l : nat) (rd : option (list (T * T))) (E t : option (list T))
             (eu tu : option Z) : res (list (list (list T))) :=
    match nth_error s l with
    | Some (OM Phi0 ls le lt) =>
        do sp <- get_s s ls; do ep <- get_e s le; do tp <- get_t s lt;
        let sv := match rd with Some xs => map (fun x => s_call sp (fst x) (snd x)) xs | None => [none N] end in
        let ev := match E with Some xs => map (e_call ep eu) xs | None => [none N] end in
        let tv := match t with Some xs => map (t_call tp tu) xs | None => [none N] end in
        Ok (map (fun a => map (fun b => map (fun c => ffm_flux N Phi0 a b c) tv) ev) sv)
    | _ => Err TypeError
    end.

  (* to_internal_flux_unit: 1/(angle^2 energy length^2 time) expressed in the internal units
     (rad, GeV, cm, s); angle and length units are the internal ones here *)
  Definition to_internal (eu tu : Z) : T :=
    ndiv N (none N) (nmul N (conv efac eu 0) (conv tfac tu 0)).
  Definition ffm_to_internal (s : store) (l : nat) : res T :=
    match nth_error s l with
    | Some (OM _ ls le lt) =>
        do ep <- get_e s le; do tp <- get_t s lt; Ok (to_internal (e_unit ep) (t_unit tp))
    | _ => Err TypeError
    end.

  Definition orelse (a b : option T) : option T := match a with Some _ => a | None => b end.

  (* get_param of any object; for the model: self, spatial, energy, time — first hit *)
  Definition obj_get_param (s : store) (l : nat) (n : pname) : res (option T) :=
    match nth_error s l with
    | Some (OE p) => Ok (e_get_param p n)
    | Some (OT p) => Ok (t_get_param p n)
    | Some (OS p) => Ok (s_get_param p n)
    | Some (OM Phi0 ls le lt) =>
        do sp <- get_s s ls; do ep <- get_e s le; do tp <- get_t s lt;
        Ok (orelse (if pname_beq n nPhi0 then Some Phi0 else None)
             (orelse (s_get_param sp n) (orelse (e_get_param ep n) (t_get_param tp n))))
    | None => Err IndexError
    end.

  Inductive op : Type :=
  | OpSetParams (l : nat) (pd : list (pname * T))
  | OpSetAttr (l : nat) (n : pname) (v : T)         (* obj.<name> = v *)
  | OpMove (l : nat) (dt : T) (unit : option Z)
  | OpCopy (l : nat)                                (* copy(): deepcopy *)
  | OpCopyWith (l : nat) (pd : list (pname * T)).   (* copy(newparams) *)

  (* set_params on the object at l; returns the store and the `updated` flag *)
  Definition obj_set_params (s : store) (l : nat) (pd : list (pname * T)) : res (store * bool) :=
    match nth_error s l with
    | Some (OE p) => let r := e_set_params pd p in Ok (upd s l (OE (fst r)), snd r)
    | Some (OT p) => let r := t_set_params pd p in Ok (upd s l (OT (fst r)), snd r)
    | Some (OS p) => let r := s_set_params pd p in Ok (upd s l (OS (fst r)), snd r)
    | Some (OM Phi0 ls le lt) =>
        let r0 := set_params_gen (fun (x : T) n => if pname_beq n nPhi0 then Some x else None)
                                 (fun (x : T) n v => if pname_beq n nPhi0 then v else x) [nPhi0] pd Phi0 in
        let s0 := upd s l (OM (fst r0) ls le lt) in
        do sp <- get_s s0 ls;
        let r1 := s_set_params pd sp in
        let s1 := upd s0 ls (OS (fst r1)) in
        do ep <- get_e s1 le;
        let r2 := e_set_params pd ep in
        let s2 := upd s1 le (OE (fst r2)) in
        do tp <- get_t s2 lt;
        let r3 := t_set_params pd tp in
        Ok (upd s2 lt (OT (fst r3)), snd r0 || snd r1 || snd r2 || snd r3)
    | None => Err IndexError
    end.

  (* MathFunction.copy is `f = deepcopy(self)` (kernel mf_copy pins the call text) followed by
     `if newparams is not None: f.set_params(newparams)` (kernel mf_copy_with) *)
  (* deepcopy: a profile is copied to a fresh location; a model copies its three
     profiles and itself.  Returns the new store and the location of the copy. *)
  Definition obj_copy (s : store) (l : nat) : res (store * nat) :=
    match nth_error s l with
    | Some (OM Phi0 ls le lt) =>
        do sp <- get_s s ls; do ep <- get_e s le; do tp <- get_t s lt;
        let n := length s in
        Ok (s ++ [OS sp; OE ep; OT tp; OM Phi0 n (S n) (S (S n))], S (S (S n)))
    | Some o => Ok (s ++ [o], length s)
    | None => Err IndexError
    end.

  Definition step (s : store) (o : op) : res store :=
    match o with
    | OpSetParams l pd => do r <- obj_set_params s l pd; Ok (fst r)
    | OpSetAttr l n v =>
        match nth_error s l with
        | Some (OE p) => Ok (upd s l (OE (e_set p n v)))
        | Some (OT p) => Ok (upd s l (OT (t_set p n v)))
        | Some (OS p) => Ok (upd s l (OS (s_set p n v)))
        | Some (OM Phi0 ls le lt) =>
            (* any other name just creates a plain attribute: nothing observable changes *)
            if pname_beq n nPhi0 then Ok (upd s l (OM v ls le lt)) else Ok s
        | None => Err IndexError
        end
    | OpMove l dt u =>
        match nth_error s l with
        | Some (OT p) => Ok (upd s l (OT (t_move p dt u)))
        | Some _ => Err AttributeError
        | None => Err IndexError
        end
    | OpCopy l => do r <- obj_copy s l; if mf_copy_with None then Err RuntimeError else Ok (fst r)
    | OpCopyWith l pd =>
        do r <- obj_copy s l;
        if mf_copy_with (Some 0) then do r2 <- obj_set_params (fst r) (snd r) pd; Ok (fst r2) else Ok (fst r)
    end.

  Fixpoint run (s : store) (ops : list op) : res store :=
    match ops with
    | [] => Ok s
    | o :: r => do s' <- step s o; run s' r
    end.

  (* what can be observed of an object: the object with its references resolved *)
  Inductive view : Type :=
  | VE (p : eprof) | VT (p : tprof) | VS (p : sprof)
  | VM (Phi0 : T) (sp : sprof) (ep : eprof) (tp : tprof).
  Definition view_of (s : store) (l : nat) : res view :=
    match nth_error s l with
    | Some (OE p) => Ok (VE p) | Some (OT p) => Ok (VT p) | Some (OS p) => Ok (VS p)
    | Some (OM Phi0 ls le lt) =>
        do sp <- get_s s ls; do ep <- get_e s le; do tp <- get_t s lt; Ok (VM Phi0 sp ep tp)
    | None => Err IndexError
    end.
  (* locations an object can read or write through *)
  Definition reach (s : store) (l : nat) : list nat :=
    match nth_error s l with
    | Some (OM _ ls le lt) => [l; ls; le; lt]
    | Some _ => [l]
    | None => []
    end.
  Definition op_loc (o : op) : nat :=
    match o with OpSetParams l _ | OpSetAttr l _ _ | OpMove l _ _ | OpCopy l | OpCopyWith l _ => l end.
  (* ------------------------------------------------------------ extension: skyllh/core/utils/flux_model.py
     create_scipy_stats_rv_continuous_from_TimeFluxProfile: norm = 1 / total integral (0 when the total is 0),
     _pdf(t) = profile(t) * norm *)
  Definition rv_norm_of (p : tprof) : T :=
    let tot := t_total p in if rv_has_norm N tot then rv_norm N tot else nzero N.
  Definition rv_pdf_of (p : tprof) (t : T) : T := rv_pdf N (rv_norm_of p) (t_call p None t).
End Model.
