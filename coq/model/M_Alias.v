(* C07 — model of the data flow "dataset arrays -> pseudo data -> trial".

   Aliasing is REAL here: column buffers and DataFieldRecordArray objects live in
   an explicit store; a table is a (mutable) map field -> buffer location.  The
   operations are the ones of skyllh/core/storage.py as the code composes them in
   scrambling.py, i3/scrambling.py, i3/background_generation.py,
   core/background_generation.py, signal_generator.py, analysis.py, trialdata.py.

   Everything random or numerical (drawn indices, new column values, argsort
   permutations, user functions) is an explicit oracle argument of the operation.
   Values are opaque integers (the harness codes a float by its IEEE bit pattern,
   which is order preserving on non-negative floats). *)
From Coq Require Import ZArith List Bool Lia PeanoNat.
From Sky Require Import Result G_alias.
Import ListNotations.
Open Scope Z_scope.

Definition fid := nat.     (* field name *)
Definition bloc := nat.    (* location of a column buffer (numpy ndarray) *)
Definition tloc := nat.    (* location of a DataFieldRecordArray object *)

Record table := mkT { tf : list (fid * bloc);   (* _data_fields / _field_name_list, in order *)
                      tlen : Z }.               (* _len *)
Record store := mkS { sb : list (list Z); st : list table }.

(* field names with a meaning for the code *)
Definition F_RA : fid := 0%nat.
Definition F_DEC : fid := 1%nat.
Definition F_TIME : fid := 2%nat.
Definition F_AZI : fid := 3%nat.
Definition F_ZEN : fid := 4%nat.
Definition F_SINDEC : fid := 5%nat.
Definition F_MCWEIGHT : fid := 13%nat.

(* ---------------------------------------------------------------- monad: state + exception,
   the store survives an exception (what a failed mutator leaves behind is modelled) *)
Definition M (A : Type) := store -> store * res A.
Definition ret {A} (a : A) : M A := fun s => (s, Ok a).
Definition raise {A} (e : err) : M A := fun s => (s, Err e).
Definition mbind {A B} (m : M A) (f : A -> M B) : M B :=
  fun s => match m s with
           | (s', Ok a) => f a s'
           | (s', Err e) => (s', Err e)
           end.
Notation "'mdo' x <-- m ;; k" := (mbind m (fun x => k))
  (at level 200, x name, m at level 100, k at level 200, right associativity).
Definition lift {A} (r : res A) : M A := fun s => (s, r).

Fixpoint mapMM {A B} (f : A -> M B) (l : list A) : M (list B) :=
  match l with
  | [] => ret []
  | a :: r => mdo b <-- f a ;; mdo bs <-- mapMM f r ;; ret (b :: bs)
  end.

Fixpoint upd {A} (l : list A) (n : nat) (v : A) : list A :=
  match l, n with
  | [], _ => []
  | _ :: r, O => v :: r
  | a :: r, S k => a :: upd r k v
  end.

Definition alloc (v : list Z) : M bloc :=
  fun s => (mkS (sb s ++ [v]) (st s), Ok (length (sb s))).
(* internal consistency: a table object only ever refers to existing arrays (a dangling reference is a
   RuntimeError of the model; the correspondence shows it never happens) *)
Definition valid_fields (s : store) (fs : list (fid * bloc)) : bool :=
  forallb (fun p => Nat.ltb (snd p) (length (sb s))) fs.
Definition newtab (x : table) : M tloc :=
  fun s => if valid_fields s (tf x) then (mkS (sb s) (st s ++ [x]), Ok (length (st s)))
           else (s, Err RuntimeError).
Definition rdbuf (b : bloc) : M (list Z) :=
  fun s => match nth_error (sb s) b with Some v => (s, Ok v) | None => (s, Err RuntimeError) end.
Definition rdtab (t : tloc) : M table :=
  fun s => match nth_error (st s) t with Some x => (s, Ok x) | None => (s, Err RuntimeError) end.
Definition wrbuf (b : bloc) (v : list Z) : M unit :=
  fun s => (mkS (upd (sb s) b v) (st s), Ok tt).
Definition wrtab (t : tloc) (x : table) : M unit :=
  fun s => if valid_fields s (tf x) then (mkS (sb s) (upd (st s) t x), Ok tt)
           else (s, Err RuntimeError).

Definition zlen {A} (l : list A) : Z := Z.of_nat (length l).

(* ---------------------------------------------------------------- field maps *)
Fixpoint lookup (f : fid) (l : list (fid * bloc)) : option bloc :=
  match l with
  | [] => None
  | (g, b) :: r => if Nat.eqb g f then Some b else lookup f r
  end.
Fixpoint rebind (f : fid) (b : bloc) (l : list (fid * bloc)) : list (fid * bloc) :=
  match l with
  | [] => []
  | (g, c) :: r => if Nat.eqb g f then (g, b) :: r else (g, c) :: rebind f b r
  end.
Definition memf (f : fid) (l : list fid) : bool := existsb (Nat.eqb f) l.

(* ---------------------------------------------------------------- numpy indexing *)
Inductive sel := SIdx (l : list Z) | SMask (m : list bool).

Fixpoint mask_pos (m : list bool) (i : nat) : list nat :=
  match m with
  | [] => []
  | true :: r => i :: mask_pos r (S i)
  | false :: r => mask_pos r (S i)
  end.

Definition positions (n : nat) (s : sel) : res (list nat) :=
  match s with
  | SIdx l =>
      mapM (fun i => let j := if i <? 0 then i + Z.of_nat n else i in
                     if (0 <=? j) && (j <? Z.of_nat n) then Ok (Z.to_nat j) else Err IndexError) l
  | SMask m => if Nat.eqb (length m) n then Ok (mask_pos m 0) else Err IndexError
  end.

Definition gather (v : list Z) (ps : list nat) : res (list Z) :=
  mapM (fun p => match nth_error v p with Some x => Ok x | None => Err IndexError end) ps.

Fixpoint scatter (v : list Z) (ps : list nat) (vals : list Z) : list Z :=
  match ps, vals with
  | p :: pr, x :: xr => scatter (upd v p x) pr xr
  | _, _ => v
  end.

(* a[sel] = vals  (a length-1 right-hand side is broadcast) *)
Definition assign_sel (v : list Z) (s : sel) (vals : list Z) : res (list Z) :=
  let bc := fun k => match vals with [x] => repeat x k | _ => vals end in
  match s with
  | SIdx l =>      (* numpy checks the shapes before the index bounds *)
      if Nat.eqb (length (bc (length l))) (length l)
      then do ps <- positions (length v) s; Ok (scatter v ps (bc (length l)))
      else Err ValueError
  | SMask _ =>
      do ps <- positions (length v) s;
      if Nat.eqb (length (bc (length ps))) (length ps) then Ok (scatter v ps (bc (length ps))) else Err ValueError
  end.

(* ---------------------------------------------------------------- DataFieldRecordArray *)

(* self[name] *)
Definition t_getitem (t : tloc) (f : fid) : M bloc :=
  mdo x <-- rdtab t ;;
  match lookup f (tf x) with Some b => ret b | None => raise KeyError end.

(* self[name] = arr   (arr is an existing ndarray: the table then shares it) *)
Definition t_setitem (t : tloc) (f : fid) (b : bloc) : M unit :=
  mdo x <-- rdtab t ;;
  mdo v <-- rdbuf b ;;
  match lookup f (tf x) with
  | None =>        (* append_field *)
      if al_af_len_bad (tlen x) (zlen v) then raise ValueError
      else wrtab t (mkT (tf x ++ [(f, b)]) (tlen x))
  | Some _ =>
      if al_si_len_bad (tlen x) (zlen v) then raise ValueError
      else wrtab t (mkT (rebind f b (tf x)) (tlen x))
  end.

(* DataFieldRecordArray(dict, copy=False): the given arrays become the columns *)
Definition t_new (fs : list (fid * bloc)) : M tloc :=
  mdo ls <-- mapMM (fun p => mdo v <-- rdbuf (snd p) ;; ret (zlen v)) fs ;;
  match ls with
  | [] => newtab (mkT [] 0)
  | n :: r => if forallb (Z.eqb n) r then newtab (mkT fs n) else raise ValueError
  end.

(* np.copyto(np.empty((length,)), column): equal length, or a length-1 column is broadcast *)
Definition copyto_bcast (n : Z) (v : list Z) : res (list Z) :=
  if zlen v =? n then Ok v
  else match v with
       | [x] => Ok (repeat x (Z.to_nat n))
       | _ => Err ValueError
       end.

(* the three functions through which a new DataFieldRecordArray is derived from an existing one have exactly
   the statement skeleton that was modelled (kernels gs_shape, gi_shape, cp_shape, ss_shape) *)
Definition storage_shapes_pinned : bool := gs_shape && gi_shape && cp_shape && ss_shape.

(* the statements of the generators that decide copy-vs-alias are the ones that were modelled: data=data.exp with
   copy=True, `if copy: data = data.copy()`, [data.exp.copy() ...] in unblind, the read-only body of
   calc_source_signal_mc_event_flux, DataFieldRecordArray(dfra) forcing copy=True *)
Definition copy_statements_pinned : bool :=
  fx_gen_shape && scrdata_shape && unblind_shape && sigflux_shape && ctor_dfra_forces_copy.

(* helper functions the property leans on: azi_to_ra_transform wraps twice (the premise of C07_time_ra_in_range),
   RandomChoice neither writes into the probability array it is given nor into its items *)
Definition helper_bodies_pinned : bool := azi2ra_shape && randchoice_init_shape && randchoice_call_shape.

(* DataFieldRecordArray(self, keep_fields=keep): every kept column is copied *)
Definition t_copy (t : tloc) (keep : option (list fid)) : M tloc :=
  mdo x <-- rdtab t ;;
  let kept := filter (fun p => match keep with None => true | Some k => memf (fst p) k end) (tf x) in
  mdo fs <-- mapMM (fun p => mdo v <-- rdbuf (snd p) ;;
                         mdo v' <-- lift (copyto_bcast (tlen x) v) ;;
                         mdo b <-- alloc v' ;; ret (fst p, b)) kept ;;
  newtab (mkT fs (match fs with [] => 0 | _ => tlen x end)).

(* get_selection / self[ndarray]: advanced indexing copies every column *)
Definition t_select (t : tloc) (s : sel) : M tloc :=
  mdo x <-- rdtab t ;;
  mdo fs <-- mapMM (fun p => mdo v <-- rdbuf (snd p) ;;
                         mdo ps <-- lift (positions (length v) s) ;;
                         mdo v' <-- lift (gather v ps) ;;
                         mdo b <-- alloc (map gs_take v') ;; ret (fst p, b)) (tf x) ;;
  t_new fs.

(* set_selection: all fields checked first (fix 37af686), then written IN PLACE *)
Fixpoint set_loop (fs : list (fid * bloc)) (s : sel) (src : tloc) : M unit :=
  match fs with
  | [] => ret tt
  | (f, b) :: r =>
      mdo v <-- rdbuf b ;;
      mdo bs <-- t_getitem src f ;;
      mdo vs <-- rdbuf bs ;;
      mdo v' <-- lift (assign_sel v s vs) ;;
      mdo _ <-- wrbuf b v' ;;
      set_loop r s src
  end.
Definition t_set_selection (t : tloc) (s : sel) (src : tloc) : M unit :=
  mdo x <-- rdtab t ;;
  mdo y <-- rdtab src ;;
  if forallb (fun p => match lookup (fst p) (tf y) with Some _ => true | None => false end) (tf x)
  then set_loop (tf x) s src
  else raise KeyError.

(* append: all fields checked first (fix d68bdf4), np.append makes new columns *)
Definition t_append (t : tloc) (src : tloc) : M unit :=
  mdo x <-- rdtab t ;;
  mdo y <-- rdtab src ;;
  if forallb (fun p => match lookup (fst p) (tf y) with Some _ => true | None => false end) (tf x)
  then
    mdo fs <-- mapMM (fun p => mdo v <-- rdbuf (snd p) ;;
                           mdo bs <-- t_getitem src (fst p) ;;
                           mdo vs <-- rdbuf bs ;;
                           mdo b <-- alloc (v ++ vs) ;; ret (fst p, b)) (tf x) ;;
    wrtab t (mkT fs (al_append_new_len (tlen x) (tlen y)))
  else raise KeyError.

(* sort_by_field: every column is replaced by a permuted copy, one after the other *)
Fixpoint sort_loop (t : tloc) (fs : list (fid * bloc)) (perm : list Z) : M unit :=
  match fs with
  | [] => ret tt
  | (f, b) :: r =>
      mdo v <-- rdbuf b ;;
      mdo ps <-- lift (positions (length v) (SIdx perm)) ;;
      mdo v' <-- lift (gather v ps) ;;
      mdo b' <-- alloc v' ;;
      mdo x <-- rdtab t ;;
      mdo _ <-- wrtab t (mkT (rebind f b' (tf x)) (tlen x)) ;;
      sort_loop t r perm
  end.
Definition t_sort (t : tloc) (f : fid) (perm : list Z) : M unit :=
  mdo x <-- rdtab t ;;
  match lookup f (tf x) with
  | None => raise KeyError
  | Some _ => sort_loop t (tf x) perm
  end.

(* tidy_up *)
Definition t_tidy (t : tloc) (keep : list fid) : M unit :=
  mdo x <-- rdtab t ;;
  wrtab t (mkT (filter (fun p => memf (fst p) keep) (tf x)) (tlen x)).

(* ---------------------------------------------------------------- scrambling *)

(* narrowing of a float64 to a float type with 52-k mantissa bits, on bit patterns of
   non-negative normal numbers: round to the nearest multiple of 2^k, ties to even *)
Definition rne (k : Z) (x : Z) : Z :=
  let q := x / 2 ^ k in
  let r := x mod 2 ^ k in
  if 2 * r <? 2 ^ k then q * 2 ^ k
  else if 2 ^ k <? 2 * r then (q + 1) * 2 ^ k
  else if Z.even q then q * 2 ^ k else (q + 1) * 2 ^ k.

(* UniformRAScramblingMethod.scramble, numeric part (fix 746f4af) *)
Definition ura_lo (k ra_min : Z) : Z :=
  let r := rne k ra_min in if ura_lo_below r ra_min then r + 2 ^ k else r.   (* nextafter(., +inf) *)
Definition ura_hi (k ra_max : Z) : Z :=
  let r := rne k ra_max in if ura_hi_outside r ra_max then r - 2 ^ k else r. (* nextafter(., -inf) *)
Definition ura_value (k ra_min ra_max x : Z) : Z :=
  ura_clip (rne k x) (ura_lo k ra_min) (ura_hi k ra_max).

Inductive scr :=
| ScrNone
| ScrUniform (k ra_min ra_max : Z) (draws : list Z)       (* UniformRAScramblingMethod *)
| ScrI3Time (times ras : list Z)                         (* I3TimeScramblingMethod *)
| ScrSeasonal (times ras : list Z)                       (* I3SeasonalVariationTimeScramblingMethod *)
| ScrTime (times ras decs : list Z).                     (* core TimeScramblingMethod *)

Definition doc_fields (m : scr) : list fid :=
  match m with
  | ScrNone => []
  | ScrUniform _ _ _ _ => [F_RA]
  | ScrI3Time _ _ => [F_TIME; F_RA]
  | ScrSeasonal _ _ => [F_TIME; F_RA]
  | ScrTime _ _ _ => [F_TIME; F_RA; F_DEC]
  end.

(* method.scramble(rss, dataset, data): in place on table t *)
Definition scramble (m : scr) (t : tloc) : M unit :=
  match m with
  | ScrNone => ret tt
  | ScrUniform k lo hi draws =>
      mdo _ <-- t_getitem t F_RA ;;                         (* dt = data['ra'].dtype *)
      mdo b <-- alloc (map (ura_value k lo hi) draws) ;;
      t_setitem t F_RA b
  | ScrI3Time times ras =>
      mdo bt <-- alloc times ;;
      mdo _ <-- t_setitem t F_TIME bt ;;
      mdo _ <-- t_getitem t F_AZI ;;
      mdo br <-- alloc (map i3t_ra_store ras) ;;       (* the float64 result of azi_to_ra_transform, as it is *)
      t_setitem t F_RA br
  | ScrSeasonal times ras =>
      mdo _ <-- t_getitem t F_TIME ;;                  (* size=len(data['time']): KeyError before any write *)
      mdo bt <-- alloc times ;;
      mdo _ <-- t_setitem t F_TIME bt ;;
      mdo _ <-- t_getitem t F_AZI ;;
      mdo br <-- alloc (map seas_ra_store ras) ;;
      t_setitem t F_RA br
  | ScrTime times ras decs =>
      mdo bt <-- alloc times ;;
      mdo _ <-- t_setitem t F_TIME bt ;;
      mdo _ <-- t_getitem t F_AZI ;;
      mdo _ <-- t_getitem t F_ZEN ;;
      mdo br <-- alloc (map ct_radec_store ras) ;;
      mdo bd <-- alloc (map ct_radec_store decs) ;;
      mdo _ <-- t_setitem t F_RA br ;;
      t_setitem t F_DEC bd
  end.

(* DataScrambler.scramble_data *)
Definition scramble_data (m : scr) (t : tloc) (copy : bool) : M tloc :=
  mdo t' <-- (if copy then t_copy t None else ret t) ;;
  mdo _ <-- scramble m t' ;;
  ret t'.

(* ---------------------------------------------------------------- the world *)
Record world := mkW {
  w_store : store;
  w_exp : list tloc;              (* DatasetData.exp, per dataset *)
  w_mc : list tloc;               (* DatasetData.mc *)
  w_cache : list (option tloc);   (* MCDataSamplingBkgGenMethod._cache_mc *)
  w_ev : list (option tloc);      (* events_list: generated background (+ merged signal) *)
  w_sig : list (option tloc);     (* sig_events_list: generated signal, not merged yet *)
  w_tdm : list (option tloc);     (* TrialDataManager.events *)
  w_ready : list bool }.          (* TrialDataManager._src_evt_idxs is set (trial initialisation got that far) *)

Definition getroot (l : list (option tloc)) (i : nat) : option tloc :=
  match nth_error l i with Some o => o | None => None end.

(* values a user data-field function returns *)
Inductive fval := FFresh (v : list Z) | FAlias (f : fid).   (* a new array | tdm.get_data(f) itself *)

(* one source of a signal post-processing step: rows (mask), new ra / dec / sin_dec *)
Definition post := (list bool * (list Z * list Z * list Z))%type.

(* PointLikeSourceI3SignalGenerationMethod.signal_event_post_sampling_processing *)
Fixpoint post_process (t : tloc) (ps : list post) : M unit :=
  match ps with
  | [] => ret tt
  | (m, (ra, dec, sd)) :: r =>
      mdo sub <-- t_select t (SMask m) ;;
      mdo _ <-- t_getitem sub F_RA ;; mdo _ <-- t_getitem sub F_DEC ;;    (* evt_reco_ra / dec read *)
      mdo b1 <-- alloc ra ;; mdo _ <-- t_setitem sub F_RA b1 ;;
      mdo b2 <-- alloc dec ;; mdo _ <-- t_setitem sub F_DEC b2 ;;
      mdo b3 <-- alloc sd ;; mdo _ <-- t_setitem sub F_SINDEC b3 ;;
      mdo _ <-- t_set_selection t (SMask m) sub ;;
      post_process t r
  end.

(* one round of _draw_valid_sig_events_for_dataset_and_shg *)
Definition round := (list Z * (list post * list bool))%type.   (* ev_idx, post steps, valid mask *)

Fixpoint redraw_rounds (mc : tloc) (acc : option tloc) (rs : list round) : M (option tloc) :=
  match rs with
  | [] => ret acc
  | (idx, (ps, valid)) :: r =>
      mdo ev <-- t_select mc (SIdx idx) ;;
      mdo lenx <-- rdtab ev ;;
      if 0 <? tlen lenx then
        mdo _ <-- post_process ev ps ;;
        mdo ev' <-- t_select ev (SMask valid) ;;
        mdo x' <-- rdtab ev' ;;
        if 0 <? tlen x' then
          match acc with
          | None => redraw_rounds mc (Some ev') r
          | Some a => mdo _ <-- t_append a ev' ;; redraw_rounds mc acc r
          end
        else redraw_rounds mc acc r
      else redraw_rounds mc acc r
  end.

(* one source hypothesis group of MCMultiDatasetSignalGenerator.generate_signal_events *)
Record sgroup := mkG {
  g_idx : list Z;             (* ev_idx of the drawn signal candidates *)
  g_post : list post;
  g_invalid : list bool;      (* invalid_events_mask *)
  g_rounds : list round }.    (* redraw rounds (used when the mask has a True) *)

Fixpoint sig_groups (mc sig : tloc) (start : Z) (gs : list sgroup) : M unit :=
  match gs with
  | [] => ret tt
  | g :: r =>
      mdo s <-- t_select mc (SIdx (g_idx g)) ;;
      mdo _ <-- post_process s (g_post g) ;;
      mdo _ <-- (if existsb (fun b => b) (g_invalid g) then
               mdo red <-- redraw_rounds mc None (g_rounds g) ;;
               match red with
               | Some rt => t_set_selection s (SMask (g_invalid g)) rt
               | None => raise TypeError       (* arr is None: not a DataFieldRecordArray *)
               end
             else ret tt) ;;
      let n := zlen (g_idx g) in
      mdo _ <-- t_set_selection sig (SIdx (map (fun i => start + Z.of_nat i) (seq 0 (length (g_idx g))))) s ;;
      sig_groups mc sig (start + n) r
  end.

(* the fresh signal table: one np.empty column per MC field (content = oracle `fill`) *)
Definition gen_signal (mc : tloc) (n : nat) (fill : Z) (gs : list sgroup) : M tloc :=
  mdo x <-- rdtab mc ;;
  mdo fs <-- mapMM (fun p => mdo b <-- alloc (repeat fill n) ;; ret (fst p, b)) (tf x) ;;
  mdo sig <-- t_new fs ;;
  mdo _ <-- sig_groups mc sig 0 gs ;;
  ret sig.

(* TrialDataManager.initialize_trial on the table `ev` *)
Definition set_field (t : tloc) (nv : fid * fval) : M unit :=
  match snd nv with
  | FFresh v => mdo b <-- alloc v ;; t_setitem t (fst nv) b
  | FAlias g => mdo b <-- t_getitem t g ;; t_setitem t (fst nv) b
  end.
Fixpoint set_fields (t : tloc) (l : list (fid * fval)) : M unit :=
  match l with
  | [] => ret tt
  | nv :: r => mdo _ <-- set_field t nv ;; set_fields t r
  end.

Inductive evsel := ESNone | ESAll | ESSel (s : sel).   (* no method | returns the same object | a selection *)

Record initp := mkI {
  i_pre : list (fid * fval);        (* pre-event-selection static data fields *)
  i_sel : evsel;
  i_sort : option (fid * list Z);   (* index field and the argsort result *)
  i_static : list (fid * fval) }.

Definition init_trial (ev : tloc) (p : initp) : M tloc :=
  mdo _ <-- set_fields ev (i_pre p) ;;
  mdo cur <-- (match i_sel p with
           | ESNone | ESAll => ret ev
           | ESSel s => t_select ev s
           end) ;;
  mdo _ <-- (match i_sort p with
         | None => ret tt
         | Some (f, perm) => t_sort cur f perm
         end) ;;
  mdo _ <-- set_fields cur (i_static p) ;;
  ret cur.

(* ---------------------------------------------------------------- constructors that read the data sets
   (construction is an operation too) *)

(* I3SeasonalVariationTimeScramblingMethod.__init__: per run a mask over the stored `time` column
   and a selection data.exp[mask] whose length is the run weight *)
Definition seasonal_masks (runs : list (Z * Z)) (times : list Z) : list (list bool) :=
  map (fun r => map (fun t => seas_mask (fst r) (snd r) t t) times) runs.

Fixpoint cons_seasonal_loop (e : tloc) (masks : list (list bool)) : M (list Z) :=
  match masks with
  | [] => ret []
  | m :: r =>
      mdo _ <-- t_getitem e F_TIME ;; mdo _ <-- t_getitem e F_TIME ;;     (* both comparisons of the mask *)
      mdo s <-- t_select e (SMask m) ;;
      mdo x <-- rdtab s ;;
      mdo ns <-- cons_seasonal_loop e r ;;
      ret (tlen x :: ns)
  end.
Definition cons_seasonal (e : tloc) (masks : list (list bool)) : M (Z * list Z) :=
  mdo bt <-- t_getitem e F_TIME ;;
  mdo v <-- rdbuf bt ;;
  mdo ns <-- cons_seasonal_loop e masks ;;
  ret (seas_n_events (zlen v), ns).

(* MCMultiDatasetSignalGenerator._construct_signal_candidates: data_mc[ev_idx_arr]['mcweight'] *)
Definition cons_sig_candidates (mc : tloc) (idx : list Z) : M (list Z) :=
  mdo s <-- t_select mc (SIdx idx) ;;
  mdo b <-- t_getitem s F_MCWEIGHT ;;
  rdbuf b.

(* ---------------------------------------------------------------- operations of a history *)
Inductive op :=
| GenBkgFixed (i : nat) (m : scr)                                   (* FixedScrambledExpDataI3BkgGenMethod *)
| GenBkgMC (i : nat) (cfgf keepmc : list fid) (presel : option sel)
           (idx : list Z) (m : scr)                                  (* MCDataSamplingBkgGenMethod *)
| GenBkgComp (i : nat) (cfgf keepmc : list fid) (m : scr)
             (comps : list (fid * list Z)) (presel : option sel)
             (idx : list Z)                                          (* CompositeMCDataSamplingBkgGenMethod *)
| GenSig (i : nat) (n : nat) (fill : Z) (gs : list sgroup)           (* signal generator, dataset i *)
| Merge (i : nat)                                                    (* inject / merge signal into events *)
(* TrialDataManager.initialize_trial on the generated events, in its four stages (a failing
   stage leaves tdm.events where the earlier stages put it) *)
| InitSet (i : nat)                                                  (* self.events = events *)
| InitPre (i : nat) (l : list (fid * fval))                          (* pre-event-selection data fields *)
| InitSelect (i : nat) (es : evsel)                                  (* event selection; self.events = selected *)
| InitFinish (i : nat) (srt : option (fid * list Z)) (l : list (fid * fval))   (* sort, static data fields *)
| Evaluate (i : nat) (l : list (fid * fval))                         (* llhratio evaluation: reads the trial data; global-fit-parameter
                                                                        dependent data fields are (re)written into tdm.events *)
| UnblindCopy (i : nat)                                              (* unblind: events = data.exp.copy() (fix cb41ee3) *)
| DropEvents (i : nat)                                               (* the caller forgets the generated arrays *)
| DropSig (i : nat)                                                  (* ... only the signal arrays *)
| ConsSeasonal (i : nat) (masks : list (list bool))                  (* I3SeasonalVariationTimeScramblingMethod(data) *)
| ConsSigCand (i : nat) (idx : list Z).                              (* signal generator construction, dataset i *)

Definition setroot (l : list (option tloc)) (i : nat) (o : option tloc) : list (option tloc) := upd l i o.

Definition exp_fields (w : world) (i : nat) : M (list fid) :=
  match nth_error (w_exp w) i with
  | None => raise IndexError
  | Some e => mdo x <-- rdtab e ;; ret (map fst (tf x))
  end.

Definition presel_apply (t : tloc) (ps : option sel) : M tloc :=
  match ps with None => ret t | Some s => t_select t s end.

(* run a computation on the store of the world, then update roots with its result *)
Definition on_store {A} (w : world) (m : M A) (k : world -> A -> world) : world * res unit :=
  match m (w_store w) with
  | (s', Ok a) => let w' := mkW s' (w_exp w) (w_mc w) (w_cache w) (w_ev w) (w_sig w) (w_tdm w) (w_ready w) in
                  (k w' a, Ok tt)
  | (s', Err e) => (mkW s' (w_exp w) (w_mc w) (w_cache w) (w_ev w) (w_sig w) (w_tdm w) (w_ready w), Err e)
  end.

Definition set_ev (w : world) (i : nat) (o : option tloc) : world :=
  mkW (w_store w) (w_exp w) (w_mc w) (w_cache w) (setroot (w_ev w) i o) (w_sig w) (w_tdm w) (w_ready w).
Definition set_sig (w : world) (i : nat) (o : option tloc) : world :=
  mkW (w_store w) (w_exp w) (w_mc w) (w_cache w) (w_ev w) (setroot (w_sig w) i o) (w_tdm w) (w_ready w).
Definition set_tdm (w : world) (i : nat) (o : option tloc) : world :=
  mkW (w_store w) (w_exp w) (w_mc w) (w_cache w) (w_ev w) (w_sig w) (setroot (w_tdm w) i o) (w_ready w).
Definition set_ready (w : world) (i : nat) (b : bool) : world :=
  mkW (w_store w) (w_exp w) (w_mc w) (w_cache w) (w_ev w) (w_sig w) (w_tdm w) (upd (w_ready w) i b).
Definition set_cache (w : world) (i : nat) (o : option tloc) : world :=
  mkW (w_store w) (w_exp w) (w_mc w) (setroot (w_cache w) i o) (w_ev w) (w_sig w) (w_tdm w) (w_ready w).

Definition step (o : op) (w : world) : world * res unit :=
  match o with
  | GenBkgFixed i m =>
      match nth_error (w_exp w) i with
      | None => (w, Err IndexError)
      | Some e => on_store w (scramble_data m e true) (fun w' t => set_ev w' i (Some t))
      end
  | GenBkgMC i cfgf keepmc presel idx m =>
      match nth_error (w_mc w) i with
      | None => (w, Err IndexError)
      | Some mc =>
          (* 1. the cache is filled on the first call *)
          let r1 := match getroot (w_cache w) i with
                    | Some c => (w, Ok tt)
                    | None =>
                        on_store w (mdo ef <-- exp_fields w i ;;
                                    mdo c <-- t_copy mc (Some (cfgf ++ ef ++ keepmc)) ;;
                                    presel_apply c presel)
                                 (fun w' c => set_cache w' i (Some c))
                    end in
          match r1 with
          | (w1, Err e) => (w1, Err e)
          | (w1, Ok _) =>
              match getroot (w_cache w1) i with
              | None => (w1, Err RuntimeError)
              | Some c =>
                  on_store w1 (mdo b <-- t_select c (SIdx idx) ;;
                               mdo b' <-- scramble_data m b false ;;
                               mdo ef <-- exp_fields w1 i ;;
                               mdo _ <-- t_tidy b' (cfgf ++ ef) ;;
                               ret b')
                           (fun w' t => set_ev w' i (Some t))
              end
          end
      end
  | GenBkgComp i cfgf keepmc m comps presel idx =>
      match nth_error (w_mc w) i with
      | None => (w, Err IndexError)
      | Some mc =>
          on_store w (mdo ef <-- exp_fields w i ;;
                      mdo d <-- t_copy mc (Some (cfgf ++ ef ++ keepmc)) ;;
                      mdo d1 <-- scramble_data m d false ;;
                      mdo _ <-- set_fields d1 (map (fun c => (fst c, FFresh (snd c))) comps) ;;
                      mdo d2 <-- presel_apply d1 presel ;;
                      mdo b <-- t_select d2 (SIdx idx) ;;
                      mdo _ <-- t_tidy b (cfgf ++ ef) ;;
                      ret b)
                   (fun w' t => set_ev w' i (Some t))
      end
  | GenSig i n fill gs =>
      match nth_error (w_mc w) i with
      | None => (w, Err IndexError)
      | Some mc => on_store w (gen_signal mc n fill gs) (fun w' t => set_sig w' i (Some t))
      end
  | Merge i =>
      match getroot (w_sig w) i with
      | None => (w, Ok tt)                                   (* no signal for this dataset *)
      | Some sg =>
          match getroot (w_ev w) i with
          | None => (set_sig (set_ev w i (Some sg)) i None, Ok tt)     (* events_list[ds] = sig_events *)
          | Some ev => on_store w (t_append ev sg) (fun w' _ => set_sig w' i None)
          end
      end
  | InitSet i =>
      match getroot (w_ev w) i with
      | None => (w, Err TypeError)                           (* events must be a DataFieldRecordArray *)
      | Some ev => (set_ready (set_tdm w i (Some ev)) i false, Ok tt)      (* _src_evt_idxs = None *)
      end
  | InitPre i l =>
      match getroot (w_tdm w) i with
      | None => (w, Err AttributeError)
      | Some t => on_store w (set_fields t l) (fun w' _ => w')
      end
  | InitSelect i es =>
      match getroot (w_tdm w) i with
      | None => (w, Err AttributeError)
      | Some t =>
          match es with
          | ESNone => (w, Ok tt)
          | ESAll => (set_ready w i true, Ok tt)                (* the selection method hands over the index table *)
          | ESSel sl => on_store w (t_select t sl) (fun w' t' => set_ready (set_tdm w' i (Some t')) i true)
          end
      end
  | InitFinish i srt l =>
      match getroot (w_tdm w) i with
      | None => (w, Err AttributeError)
      | Some t =>
          match on_store w (match srt with
                            | None => ret tt
                            | Some (f, perm) => t_sort t f perm
                            end) (fun w' _ => set_ready w' i true)     (* index table built after the sort *)
          with
          | (w1, Err e) => (w1, Err e)
          | (w1, Ok _) => on_store w1 (set_fields t l) (fun w' _ => w')
          end
      end
  | Evaluate i l =>
      match getroot (w_tdm w) i with
      | None => (w, Err AttributeError)
      | Some t =>
          (* the global-fit-parameter data fields are calculated first; without the source-event index table
             (half initialised trial data) the PDF evaluation then raises *)
          let r := on_store w (set_fields t l) (fun w' _ => w') in
          if nth i (w_ready w) false then r
          else match r with
               | (w1, Ok _) => (w1, Err TypeError)
               | (w1, Err e) => (w1, Err e)
               end
      end
  | UnblindCopy i =>
      match nth_error (w_exp w) i with
      | None => (w, Err IndexError)
      | Some e => on_store w (t_copy e None) (fun w' t => set_ready (set_tdm w' i (Some t)) i false)
      end
  | DropEvents i => (set_sig (set_ev w i None) i None, Ok tt)
  | DropSig i => (set_sig w i None, Ok tt)
  | ConsSeasonal i masks =>
      match nth_error (w_exp w) i with
      | None => (w, Err IndexError)
      | Some e => on_store w (cons_seasonal e masks) (fun w' _ => w')
      end
  | ConsSigCand i idx =>
      match nth_error (w_mc w) i with
      | None => (w, Err IndexError)
      | Some mc => on_store w (cons_sig_candidates mc idx) (fun w' _ => w')
      end
  end.

(* a history: failing operations leave their partial effects and the history goes on *)
Fixpoint run (ops : list op) (w : world) : world * list (res unit) :=
  match ops with
  | [] => (w, [])
  | o :: r => let (w1, s) := step o w in
              let (w2, ss) := run r w1 in (w2, s :: ss)
  end.

(* the unblind of the code before fix cb41ee3: data.exp ITSELF is handed to initialize_trial *)
Definition unblind_old (i : nat) (p : initp) (w : world) : world * res unit :=
  match nth_error (w_exp w) i with
  | None => (w, Err IndexError)
  | Some e => on_store w (init_trial e p) (fun w' t => set_tdm w' i (Some t))
  end.

(* ---------------------------------------------------------------- observation *)
Definition column (s : store) (b : bloc) : option (list Z) := nth_error (sb s) b.

(* value view of a table: field names in order, each with its column content *)
Definition view (s : store) (t : tloc) : option (list (fid * option (list Z)) * Z) :=
  match nth_error (st s) t with
  | None => None
  | Some x => Some (map (fun p => (fst p, column s (snd p))) (tf x), tlen x)
  end.

(* sharing: do field f of table t and field g of table u use the same buffer? *)
Definition shares (s : store) (t : tloc) (f : fid) (u : tloc) (g : fid) : bool :=
  match nth_error (st s) t, nth_error (st s) u with
  | Some x, Some y =>
      match lookup f (tf x), lookup g (tf y) with
      | Some b, Some c => Nat.eqb b c
      | _, _ => false
      end
  | _, _ => false
  end.

(* what the harness compares after every operation *)
Definition root_views (w : world) : list (list (option (list (fid * option (list Z)) * Z))) :=
  let s := w_store w in
  let vo := fun o : option tloc => match o with Some t => view s t | None => None end in
  [ map (fun t => view s t) (w_exp w); map (fun t => view s t) (w_mc w);
    map vo (w_cache w); map vo (w_ev w); map vo (w_sig w); map vo (w_tdm w) ].

(* buffer locations of all roots, for the sharing matrix: (kind, dataset, field, bloc) *)
Definition root_locs (w : world) : list (nat * nat * fid * bloc) :=
  let s := w_store w in
  let tabl := fun (k : nat) (i : nat) (t : tloc) =>
    match nth_error (st s) t with
    | Some x => map (fun p => (k, i, fst p, snd p)) (tf x)
    | None => []
    end in
  let each := fun (k : nat) (l : list (option tloc)) =>
    concat (map (fun iv => match snd iv with Some t => tabl k (fst iv) t | None => [] end)
                (combine (seq 0 (length l)) l)) in
  each 0%nat (map Some (w_exp w)) ++ each 1%nat (map Some (w_mc w)) ++ each 2%nat (w_cache w)
  ++ each 3%nat (w_ev w) ++ each 4%nat (w_sig w) ++ each 5%nat (w_tdm w).

(* table identity of the roots (object identity `is`) *)
Definition root_tlocs (w : world) : list (list (option tloc)) :=
  [ map Some (w_exp w); map Some (w_mc w); w_cache w; w_ev w; w_sig w; w_tdm w ].

(* building an initial world from value tables *)
Fixpoint build_table (cols : list (fid * list Z)) : M (list (fid * bloc)) :=
  match cols with
  | [] => ret []
  | (f, v) :: r => mdo b <-- alloc v ;; mdo fs <-- build_table r ;; ret ((f, b) :: fs)
  end.
Definition build_one (cols : list (fid * list Z)) : M tloc :=
  mdo fs <-- build_table cols ;;
  newtab (mkT fs (match cols with [] => 0 | (_, v) :: _ => zlen v end)).

Definition empty_store : store := mkS [] [].

Definition init_world (exps mcs : list (list (fid * list Z))) : world :=
  let '(s1, re) := mapMM build_one exps empty_store in
  let '(s2, rm) := mapMM build_one mcs s1 in
  let n := length exps in
  mkW s2 (match re with Ok l => l | Err _ => [] end) (match rm with Ok l => l | Err _ => [] end)
      (repeat None n) (repeat None n) (repeat None n) (repeat None n) (repeat false n).

(* ---------------------------------------------------------------- a concrete world and history
   (non-vacuity examples of Prop_C07.v, and the witnesses of the two repaired defects) *)
Definition ex_exp : list (fid * list Z) :=
  [(F_RA, [10; 11; 12]); (F_DEC, [20; 21; 22]); (F_TIME, [32; 31; 30]); (F_AZI, [1; 2; 3]);
   (F_ZEN, [4; 5; 6]); (7%nat, [5; 6; 7])].
Definition ex_mc : list (fid * list Z) :=
  [(F_RA, [110; 111; 112; 113]); (F_DEC, [120; 121; 122; 123]); (F_TIME, [130; 131; 132; 133]);
   (F_AZI, [1; 2; 3; 4]); (F_ZEN, [4; 5; 6; 7]); (F_SINDEC, [0; 0; 0; 0]); (7%nat, [5; 6; 7; 8]);
   (9%nat, [91; 92; 93; 94]); (F_MCWEIGHT, [1; 1; 2; 2])].
Definition ex_w0 : world := init_world [ex_exp; ex_exp] [ex_mc; ex_mc].
Definition ex_ops : list op :=
  [ ConsSeasonal 0 (seasonal_masks [(30, 32); (31, 40)] [32; 31; 30]); ConsSigCand 1 [0; 1; 2; 3];
    GenBkgFixed 0 (ScrUniform 0 0 100 [50; 150; 7]);
    GenSig 0 2 0 [mkG [1; 3] [([true; true], ([1; 2], [3; 4], [5; 6]))] [false; true]
                      [([0; 2], ([([true; true], ([7; 8], [9; 9], [9; 9]))], [false; true]))]];
    Merge 0;
    InitSet 0; InitPre 0 [(8%nat, FFresh [1; 1; 1; 1; 1])];
    InitSelect 0 (ESSel (SMask [true; true; false; true; true]));
    InitFinish 0 (Some (F_TIME, [3; 2; 1; 0])) [(10%nat, FAlias F_RA)];
    Evaluate 0 [(12%nat, FFresh [3; 3; 3; 3]); (12%nat, FFresh [4; 4; 4; 4])];
    UnblindCopy 0; InitPre 0 []; InitSelect 0 ESAll; InitFinish 0 (Some (F_TIME, [2; 1; 0])) [(8%nat, FAlias F_RA)];
    GenBkgMC 1 [F_RA] [9%nat] (Some (SIdx [0; 1; 2])) [0; 0; 2] (ScrI3Time [1; 2; 3] [4; 5; 6]);
    GenBkgMC 1 [F_RA] [9%nat] None [2; 1] (ScrTime [1; 2] [4; 5] [6; 7]);
    GenBkgFixed 1 (ScrSeasonal [7; 8; 9] [1; 2; 3]);
    GenBkgComp 0 [F_RA] [9%nat] (ScrUniform 29 0 4618760256179416344 [4618760256179416343; 17; 5; 0])
               [(11%nat, [1; 2; 3; 4])] None [3; 3; 0];
    GenSig 1 1 0 [mkG [2] [] [false] []]; Merge 1; InitSet 1; InitFinish 1 None []; Evaluate 1 [];
    DropEvents 0; UnblindCopy 1 ].

(* 2 pi as a float64 bit pattern; float32 narrowing = rne 29 on bit patterns *)
Definition bits_2pi : Z := 4618760256179416344.

(* ---------------------------------------------------------------- composite calls
   An API call of the code (do_trial, unblind, ...) is a group of operations that is abandoned
   at the first exception; a session is a list of such calls. *)
Fixpoint run_seq (ops : list op) (w : world) : world * res unit :=
  match ops with
  | [] => (w, Ok tt)
  | o :: r => match step o w with
              | (w1, Ok _) => run_seq r w1
              | (w1, Err e) => (w1, Err e)
              end
  end.

Fixpoint run_calls (gs : list (list op)) (w : world) : world :=
  match gs with
  | [] => w
  | g :: r => run_calls r (fst (run_seq g w))
  end.

Definition observe (w : world) := (root_views w, root_locs w, root_tlocs w).

Fixpoint obs_calls (gs : list (list op)) (w : world) :=
  match gs with
  | [] => []
  | g :: r => let (w1, s) := run_seq g w in (s, observe w1) :: obs_calls r w1
  end.

(* ---------------------------------------------------------------- direct use of the table operations
   (probe of the storage semantics: every index kind, broadcast, error paths with their partial effects) *)
Inductive top :=
| TSel (r : nat) (sl : sel)                 (* regs += r[sl] *)
| TCopy (r : nat) (keep : option (list fid)) (* regs += r.copy(keep) *)
| TSet (r : nat) (sl : sel) (src : nat)     (* r[sl] = src *)
| TAppend (r src : nat)
| TSort (r : nat) (f : fid) (perm : list Z)
| TTidy (r : nat) (keep : list fid)
| TSetItem (r : nat) (f : fid) (v : list Z) (* r[f] = new array *)
| TAlias (r : nat) (f g : fid).             (* r[f] = r[g] (the same array) *)

Definition reg (regs : list tloc) (r : nat) : M tloc :=
  match nth_error regs r with Some t => ret t | None => raise IndexError end.

Definition top_run (o : top) (regs : list tloc) : M (list tloc) :=
  match o with
  | TSel r sl => mdo t <-- reg regs r ;; mdo t' <-- t_select t sl ;; ret (regs ++ [t'])
  | TCopy r keep => mdo t <-- reg regs r ;; mdo t' <-- t_copy t keep ;; ret (regs ++ [t'])
  | TSet r sl src => mdo t <-- reg regs r ;; mdo u <-- reg regs src ;; mdo _ <-- t_set_selection t sl u ;; ret regs
  | TAppend r src => mdo t <-- reg regs r ;; mdo u <-- reg regs src ;; mdo _ <-- t_append t u ;; ret regs
  | TSort r f perm => mdo t <-- reg regs r ;; mdo _ <-- t_sort t f perm ;; ret regs
  | TTidy r keep => mdo t <-- reg regs r ;; mdo _ <-- t_tidy t keep ;; ret regs
  | TSetItem r f v => mdo t <-- reg regs r ;; mdo b <-- alloc v ;; mdo _ <-- t_setitem t f b ;; ret regs
  | TAlias r f g => mdo t <-- reg regs r ;; mdo b <-- t_getitem t g ;; mdo _ <-- t_setitem t f b ;; ret regs
  end.

Definition reg_obs (s : store) (regs : list tloc) :=
  (map (view s) regs,
   concat (map (fun it => match nth_error (st s) (snd it) with
                          | Some x => map (fun p => (fst it, fst p, snd p)) (tf x)
                          | None => []
                          end) (combine (seq 0 (length regs)) regs))).

Fixpoint tops_run (os : list top) (regs : list tloc) (s : store) : list (res unit) * (store * list tloc) :=
  match os with
  | [] => ([], (s, regs))
  | o :: r => match top_run o regs s with
              | (s', Ok regs') => let (ss, fin) := tops_run r regs' s' in (Ok tt :: ss, fin)
              | (s', Err e) => let (ss, fin) := tops_run r regs s' in (Err e :: ss, fin)
              end
  end.

(* tables given column by column (columns may have different lengths: an inconsistent table) *)
Definition tops_obs (tabs : list (list (fid * list Z))) (os : list top) :=
  let '(s0, r0) := mapMM build_one tabs empty_store in
  let regs := match r0 with Ok l => l | Err _ => [] end in
  let '(ss, (s, regs')) := tops_run os regs s0 in
  (ss, reg_obs s regs').

Fixpoint nodupb (l : list nat) : bool :=
  match l with
  | [] => true
  | a :: r => negb (existsb (Nat.eqb a) r) && nodupb r
  end.

(* every index kind on a 4-row table: single row, contiguous rows, empty, full mask, negative index, all rows in
   order; then a copy, and a length-1 set_selection broadcast *)
Definition ex_tops : list top :=
  [TSel 0 (SIdx [2]); TSel 0 (SIdx [1; 2; 3]); TSel 0 (SIdx []); TSel 0 (SMask [true; true; true; true]);
   TSel 0 (SIdx [-1]); TSel 0 (SIdx [0; 1; 2; 3]); TCopy 0 None; TSet 0 (SIdx [0; 3]) 1; TSel 0 (SIdx [4])].

(* ---------------------------------------------------------------- extension: DataField._calc_static_values
   (trialdata.py:260-305).  The user function returns something that is not an ndarray (TypeError) or an array - a new
   one or the array of an existing field.  A source-event data field (is_srcevt_data) is kept in the DataField object
   after the shape test against tdm.get_n_values(); any other static data field is written into the trial events
   array by item assignment. *)
Inductive fret := RNotArray | RArr (v : fval).

Definition calc_static (t : tloc) (f : fid) (r : fret) (srcevt : bool) (n_values : Z) : M unit :=
  match r with
  | RNotArray => raise TypeError
  | RArr fv =>
      mdo b <-- (match fv with FFresh v => alloc v | FAlias g => t_getitem t g end) ;;
      if srcevt then
        mdo v <-- rdbuf b ;;
        if sv_shape_bad n_values (zlen v) then raise ValueError else ret tt        (* self._values = values *)
      else t_setitem t f b                                                          (* tdm.events[name] = values *)
  end.

(* observation for the correspondence: one events table, one static data field *)
Definition static_obs (tab : list (fid * list Z)) (f : fid) (r : fret) (srcevt : bool) (n_values : Z) :=
  let '(s0, r0) := build_one tab empty_store in
  match r0 with
  | Err e => (Err e, reg_obs s0 [])
  | Ok t => let '(s1, st1) := calc_static t f r srcevt n_values s0 in (st1, reg_obs s1 [t])
  end.
