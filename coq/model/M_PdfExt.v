(* An extended-real instance of Num for statements R cannot express: division
   by zero and NaN propagation in the normalisations of C10.  Finite values
   carry a real; +,-,*,/ and the comparisons follow IEEE 754 for the special
   values (signed zeros are not distinguished: 0 is +0, which is what a sum of
   non-negative terms yields).  The transcendental fields are lifted on finite
   values and return NaN otherwise — they are not used by the theorems stated
   at this instance.  Definitions only. *)
From Coq Require Import Reals ZArith List Bool.
From Sky Require Import Num NumR.
Open Scope R_scope.

Inductive ext : Type := Fin (r : R) | PInf | NInf | XNaN.

Definition xopp (a : ext) : ext :=
  match a with Fin x => Fin (- x) | PInf => NInf | NInf => PInf | XNaN => XNaN end.

Definition xadd (a b : ext) : ext :=
  match a, b with
  | Fin x, Fin y => Fin (x + y)
  | XNaN, _ | _, XNaN => XNaN
  | PInf, NInf | NInf, PInf => XNaN
  | PInf, _ | _, PInf => PInf
  | NInf, _ | _, NInf => NInf
  end.

Definition xsub (a b : ext) : ext := xadd a (xopp b).

Definition xsign_inf (pos : bool) : ext := if pos then PInf else NInf.

Definition xmul (a b : ext) : ext :=
  match a, b with
  | Fin x, Fin y => Fin (x * y)
  | XNaN, _ | _, XNaN => XNaN
  | Fin x, PInf | PInf, Fin x =>
      if Req_EM_T x 0 then XNaN else xsign_inf (Rltb 0 x)
  | Fin x, NInf | NInf, Fin x =>
      if Req_EM_T x 0 then XNaN else xsign_inf (Rltb x 0)
  | PInf, PInf | NInf, NInf => PInf
  | PInf, NInf | NInf, PInf => NInf
  end.

Definition xdiv (a b : ext) : ext :=
  match a, b with
  | XNaN, _ | _, XNaN => XNaN
  | Fin x, Fin y =>
      if Req_EM_T y 0
      then (if Req_EM_T x 0 then XNaN else xsign_inf (Rltb 0 x))
      else Fin (x / y)
  | Fin _, PInf | Fin _, NInf => Fin 0
  | PInf, Fin y => xsign_inf (negb (Rltb y 0))
  | NInf, Fin y => xsign_inf (Rltb y 0)
  | _, _ => XNaN
  end.

Definition xltb (a b : ext) : bool :=
  match a, b with
  | Fin x, Fin y => Rltb x y
  | XNaN, _ | _, XNaN => false
  | NInf, NInf | PInf, PInf => false
  | NInf, _ => true
  | _, PInf => true
  | _, _ => false
  end.
Definition xeqb (a b : ext) : bool :=
  match a, b with
  | Fin x, Fin y => Reqb x y
  | PInf, PInf | NInf, NInf => true
  | _, _ => false
  end.
Definition xleb (a b : ext) : bool :=
  match a, b with
  | Fin x, Fin y => Rleb x y
  | _, _ => xltb a b || xeqb a b
  end.

Definition xlift (f : R -> R) (a : ext) : ext := match a with Fin x => Fin (f x) | _ => XNaN end.
Definition xlift2 (f : R -> R -> R) (a b : ext) : ext :=
  match a, b with Fin x, Fin y => Fin (f x y) | _, _ => XNaN end.
Definition xisnan (a : ext) : bool := match a with XNaN => true | _ => false end.
(* np.minimum / np.maximum propagate NaN *)
Definition xmin (a b : ext) : ext :=
  match a, b with XNaN, _ | _, XNaN => XNaN | _, _ => if xltb b a then b else a end.
Definition xmax (a b : ext) : ext :=
  match a, b with XNaN, _ | _, XNaN => XNaN | _, _ => if xltb a b then b else a end.

Definition XNum (erf : R -> R) : Num ext := {|
  nzero := Fin 0; none := Fin 1;
  nadd := xadd; nsub := xsub; nmul := xmul; ndiv := xdiv; nopp := xopp;
  nltb := xltb; nleb := xleb; neqb := xeqb;
  nsqrt := xlift R_sqrt.sqrt; nexp := xlift Rtrigo_def.exp; nln := xlift Rpower.ln;
  nlog1p := xlift (fun x => Rpower.ln (1 + x));
  nlog10 := xlift (fun x => Rpower.ln x / Rpower.ln 10);
  nsin := xlift Rtrigo_def.sin; ncos := xlift Rtrigo_def.cos; ntan := xlift Rtrigo1.tan;
  nasin := xlift Ratan.asin; nacos := xlift Ratan.acos; natan := xlift Ratan.atan;
  nabs := xlift Rabs; nfloor := xlift Rfloor; nceil := xlift Rceil; nrint := xlift Rrint;
  ntrunc := xlift Rtrunc;
  nerf := xlift erf;
  natan2 := xlift2 Ratan2; npow := xlift2 Rpower; nfmod := xlift2 Rfmod;
  nmin := xmin; nmax := xmax;
  npi := Fin PI;
  nisnan := xisnan
|}.
