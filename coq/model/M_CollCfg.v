(* Model of skyllh/core/config.py (after fix 1ce065f): Config is a dict whose
   nested dictionaries are mutable, aliasable objects.  A store of dict nodes;
   a value is an (immutable) atom or a reference to a node.  copy.deepcopy
   allocates a fresh node for every reachable node (memo table: aliasing and
   cycles inside the copied structure are preserved), atoms are shared.
   `_BASECONFIG` and the dictionaries a user passes to from_dict are ordinary
   nodes of the same store ("user" nodes), built and edited by WUser* steps.
   Definitions only. *)
From Coq Require Import ZArith List Bool.
From Sky Require Import Result PyList G_coll M_Coll.
Import ListNotations.
Open Scope Z_scope.

Inductive cval := VAtom (a : Z) | VRef (l : nat).
Definition cnode := od cval.
Definition cstore := list cnode.

(* ------------------------------------------------------------------ *)
(* copy.deepcopy on dict structures *)
Definition memo := list (nat * nat).
Fixpoint memo_get (m : memo) (l : nat) : option nat :=
  match m with
  | [] => None
  | (o, n) :: t => if Nat.eqb o l then Some n else memo_get t l
  end.

Definition copier := cstore -> memo -> nat -> res (cstore * memo * nat).

(* y[k] = deepcopy(v) for the items of one dict, in order *)
Fixpoint copy_entries (cp : copier) (es : list (Z * cval)) (st : cstore) (m : memo) (acc : cnode)
  : res (cstore * memo * cnode) :=
  match es with
  | [] => Ok (st, m, acc)
  | (k, VAtom a) :: r => copy_entries cp r st m (od_set acc k (VAtom a))
  | (k, VRef c) :: r =>
      match cp st m c with
      | Err e => Err e
      | Ok (st1, m1, c') => copy_entries cp r st1 m1 (od_set acc k (VRef c'))
      end
  end.

(* _deepcopy_dict: y = {}; memo[id(x)] = y; fill y.  Fuel bounds the nesting depth. *)
Fixpoint dcopy (fuel : nat) (st : cstore) (m : memo) (l : nat) : res (cstore * memo * nat) :=
  match fuel with
  | O => Err OutOfFuel
  | S f =>
      match memo_get m l with
      | Some l' => Ok (st, m, l')
      | None =>
          match nth_error st l with
          | None => Err KeyError                (* dangling reference: cannot occur *)
          | Some nd =>
              let l' := length st in
              match copy_entries (dcopy f) nd (st ++ [[]]) ((l, l') :: m) [] with
              | Err e => Err e
              | Ok (st2, m2, nd') => Ok (set_nth st2 l' nd', m2, l')
              end
          end
      end
  end.

(* ------------------------------------------------------------------ *)
(* item access *)
Definition get_key (st : cstore) (l : nat) (k : Z) : res cval :=
  match nth_error st l with
  | None => Err AttributeError
  | Some nd => match od_get nd k with Some v => Ok v | None => Err KeyError end
  end.

(* self[k1][k2]...: every intermediate value must be a dict *)
Fixpoint walk (st : cstore) (l : nat) (path : list Z) : res nat :=
  match path with
  | [] => Ok l
  | k :: r => match get_key st l k with
              | Err e => Err e
              | Ok (VRef l') => walk st l' r
              | Ok (VAtom _) => Err TypeError
              end
  end.

(* self[p1]..[pn][k] = v *)
Definition set_path (st : cstore) (root : nat) (path : list Z) (k : Z) (v : cval) : cstore * res unit :=
  match walk st root path with
  | Err e => (st, Err e)
  | Ok l => match nth_error st l with
            | Some nd => (set_nth st l (od_set nd k v), Ok tt)
            | None => (st, Err AttributeError)
            end
  end.

(* del self[p1]..[pn][k]   /   self[p1]..[pn].pop(k) *)
Definition del_path (st : cstore) (root : nat) (path : list Z) (k : Z) : cstore * res unit :=
  match walk st root path with
  | Err e => (st, Err e)
  | Ok l => match nth_error st l with
            | Some nd => if od_mem nd k then (set_nth st l (od_del nd k), Ok tt) else (st, Err KeyError)
            | None => (st, Err AttributeError)
            end
  end.

(* self[p1]..[pn][k] *)
Definition get_path (st : cstore) (root : nat) (path : list Z) (k : Z) : res cval :=
  match walk st root path with
  | Err e => Err e
  | Ok l => get_key st l k
  end.

(* ------------------------------------------------------------------ *)
(* key codes of the names the Config methods use (table shared with harness/c20_cfg.py) *)
Definition k_multiproc : Z := 1.   Definition k_ncpu : Z := 11.
Definition k_debugging : Z := 2.   Definition k_log_format : Z := 21.  Definition k_enable_tracing : Z := 22.
Definition k_project : Z := 3.     Definition k_working_directory : Z := 31.
Definition k_units : Z := 5.       Definition k_internal : Z := 51.
Definition k_angle : Z := 54.      Definition k_energy : Z := 55.
Definition k_length : Z := 56.     Definition k_time : Z := 57.
Definition a_false : Z := 0.       Definition a_true : Z := 1.

(* Config.__init__: super().__init__(copy.deepcopy(_BASECONFIG)) — the Config
   object itself is a new dict holding the items of the copied top-level dict *)
Definition cfg_new (fuel : nat) (st : cstore) (base : nat) : res (cstore * nat) :=
  match dcopy fuel st [] base with
  | Err e => Err e
  | Ok (st1, _, c) =>
      match nth_error st1 c with
      | None => Err AttributeError
      | Some nd => Ok (st1 ++ [od_of nd], length st1)
      end
  end.

(* Config.from_dict(user_dict): cfg = cls(); cfg.update(copy.deepcopy(user_dict)) *)
Definition cfg_from_dict (fuel : nat) (st : cstore) (base user : nat) : res (cstore * nat) :=
  match cfg_new fuel st base with
  | Err e => Err e
  | Ok (st1, root) =>
      match dcopy fuel st1 [] user with
      | Err e => Err e
      | Ok (st2, _, u') =>
          match nth_error st2 u', nth_error st2 root with
          | Some und, Some rnd => Ok (set_nth st2 root (od_update rnd und), root)
          | _, _ => Err AttributeError
          end
      end
  end.

(* the mutating methods *)
Inductive cmut :=
| MEnable                                   (* enable_tracing() *)
| MDisable                                  (* disable_tracing() *)
| MSetTracing (flag : Z)                    (* set_enable_tracing(flag) *)
| MSetUnits (a e l t : option (bool * Z))   (* set_internal_units: None = not given; (is a unit, atom) *)
| MSetNcpu (n : Z)                          (* set_ncpu(n) *)
| MSetWd (absv : Z)                         (* set_wd(path): absv = atom of os.path.abspath(path or current) *)
| MSetItem (path : list Z) (k : Z) (v : Z)  (* cfg[p1]..[pn][k] = atom *)
| MDelItem (path : list Z) (k : Z).         (* del cfg[p1]..[pn][k] / cfg[p1]..[pn].pop(k) *)

Definition set_unit (st : cstore) (root : nat) (key : Z) (u : option (bool * Z)) : cstore * res unit :=
  match u with
  | None => (st, Ok tt)
  | Some (false, _) => (st, Err TypeError)
  | Some (true, v) => set_path st root [k_units; k_internal] key (VAtom v)
  end.

(* the assigned values are the regenerated kernels of G_coll.v *)
Definition umap (f : Z -> Z) (u : option (bool * Z)) : option (bool * Z) :=
  match u with Some (b, v) => Some (b, f v) | None => None end.
Definition atom_of_bool (b : bool) : Z := if b then a_true else a_false.

Definition cfg_apply (st : cstore) (root : nat) (m : cmut) : cstore * res unit :=
  match m with
  | MEnable => set_path st root [k_debugging] k_enable_tracing (VAtom (atom_of_bool cfg_enable_val))
  | MDisable => set_path st root [k_debugging] k_enable_tracing (VAtom (atom_of_bool cfg_disable_val))
  | MSetTracing f => set_path st root [k_debugging] k_enable_tracing (VAtom (cfg_set_tracing_val f))
  | MSetUnits a e l t =>
      match set_unit st root k_angle (umap cfg_units_angle_val a) with
      | (st1, Err x) => (st1, Err x)
      | (st1, Ok _) =>
          match set_unit st1 root k_energy (umap cfg_units_energy_val e) with
          | (st2, Err x) => (st2, Err x)
          | (st2, Ok _) =>
              match set_unit st2 root k_length (umap cfg_units_length_val l) with
              | (st3, Err x) => (st3, Err x)
              | (st3, Ok _) => set_unit st3 root k_time (umap cfg_units_time_val t)
              end
          end
      end
  | MSetNcpu n => set_path st root [k_multiproc] k_ncpu (VAtom (cfg_set_ncpu_val n))
  | MSetWd absv =>
      (* the current value is read (path None, and the sys.path test) before the write *)
      match get_path st root [k_project] k_working_directory with
      | Err e => (st, Err e)
      | Ok _ => set_path st root [k_project] k_working_directory (VAtom (cfg_set_wd_val absv))
      end
  | MSetItem path k v => set_path st root path k (VAtom v)
  | MDelItem path k => del_path st root path k
  end.

(* is_tracing_enabled *)
Definition cfg_is_tracing (st : cstore) (root : nat) : res cval :=
  get_path st root [k_debugging] k_enable_tracing.

(* ------------------------------------------------------------------ *)
(* the world: user dictionaries (users[0] is _BASECONFIG) and Config instances *)
Record world := mkw { wst : cstore; wusers : list nat; winsts : list nat }.

Inductive wop :=
| WUserNew                                              (* d = {} *)
| WUserSet (u : nat) (path : list Z) (k : Z) (v : Z)    (* users[u][p..][k] = atom *)
| WUserLink (u : nat) (path : list Z) (k : Z) (u2 : nat)(* users[u][p..][k] = users[u2] *)
| WNew                                                  (* Config() *)
| WFromDict (u : nat)                                   (* Config.from_dict(users[u]) *)
| WMut (i : nat) (m : cmut).

Definition wstep (fuel : nat) (w : world) (o : wop) : world * res unit :=
  let st := wst w in
  match o with
  | WUserNew => (mkw (st ++ [[]]) (wusers w ++ [length st]) (winsts w), Ok tt)
  | WUserSet u path k v =>
      match nth_error (wusers w) u with
      | None => (w, Err IndexError)
      | Some r => let (st', x) := set_path st r path k (VAtom v) in (mkw st' (wusers w) (winsts w), x)
      end
  | WUserLink u path k u2 =>
      match nth_error (wusers w) u, nth_error (wusers w) u2 with
      | Some r, Some r2 => let (st', x) := set_path st r path k (VRef r2) in (mkw st' (wusers w) (winsts w), x)
      | _, _ => (w, Err IndexError)
      end
  | WNew =>
      match nth_error (wusers w) 0 with
      | None => (w, Err NameError)
      | Some base =>
          match cfg_new fuel st base with
          | Err e => (w, Err e)
          | Ok (st', root) => (mkw st' (wusers w) (winsts w ++ [root]), Ok tt)
          end
      end
  | WFromDict u =>
      match nth_error (wusers w) 0, nth_error (wusers w) u with
      | Some base, Some ur =>
          match cfg_from_dict fuel st base ur with
          | Err e => (w, Err e)
          | Ok (st', root) => (mkw st' (wusers w) (winsts w ++ [root]), Ok tt)
          end
      | _, _ => (w, Err IndexError)
      end
  | WMut i m =>
      match nth_error (winsts w) i with
      | None => (w, Err IndexError)
      | Some r => let (st', x) := cfg_apply st r m in (mkw st' (wusers w) (winsts w), x)
      end
  end.

Definition wrun (fuel : nat) (w : world) (ops : list wop) : world :=
  fold_left (fun w o => fst (wstep fuel w o)) ops w.

Definition w0 : world := mkw [] [] [].

(* ------------------------------------------------------------------ *)
(* observation: the full content below a value *)
Inductive ctree := TAtom (a : Z) | TNode (es : list (Z * ctree)).

Fixpoint tree_of (fuel : nat) (st : cstore) (v : cval) : res ctree :=
  match v with
  | VAtom a => Ok (TAtom a)
  | VRef l =>
      match fuel with
      | O => Err OutOfFuel
      | S f =>
          match nth_error st l with
          | None => Err KeyError
          | Some nd =>
              match mapM (fun kv => match tree_of f st (snd kv) with
                                    | Ok t => Ok (fst kv, t) | Err e => Err e end) nd with
              | Ok es => Ok (TNode es)
              | Err e => Err e
              end
          end
      end
  end.

(* the node locations reachable from a location, for the sharing matrix *)
Fixpoint reach_list (fuel : nat) (st : cstore) (l : nat) : list nat :=
  match fuel with
  | O => [l]
  | S f => l :: match nth_error st l with
                | None => []
                | Some nd => flat_map (fun kv => match snd kv with
                                                 | VRef r => reach_list f st r | VAtom _ => [] end) nd
                end
  end.

Definition shares (fuel : nat) (st : cstore) (a b : nat) : bool :=
  let rb := reach_list fuel st b in
  existsb (fun l => existsb (Nat.eqb l) rb) (reach_list fuel st a).

(* for the correspondence: result codes of the steps, then the trees of all
   instances and users, then which (instance, instance) and (instance, user)
   pairs share a node *)
Definition rcode (r : res unit) : Z := res_code (fun _ => 0) r.

Definition wtrace (fuel : nat) (ops : list wop)
  : list Z * list (res ctree) * list (res ctree) * list (nat * nat) * list (nat * nat) :=
  let '(w, rcs) := fold_left (fun st o => let '(w, acc) := st in
                                let (w', r) := wstep fuel w o in (w', acc ++ [rcode r]))
                             ops (w0, []) in
  let st := wst w in
  let idx {A} (l : list A) := combine (seq 0 (length l)) l in
  let ii := flat_map (fun a => flat_map (fun b =>
              if (Nat.ltb (fst a) (fst b)) && shares fuel st (snd a) (snd b) then [(fst a, fst b)] else [])
              (idx (winsts w))) (idx (winsts w)) in
  let iu := flat_map (fun a => flat_map (fun b =>
              if shares fuel st (snd a) (snd b) then [(fst a, fst b)] else [])
              (idx (wusers w))) (idx (winsts w)) in
  (rcs, map (fun r => tree_of fuel st (VRef r)) (winsts w),
   map (fun r => tree_of fuel st (VRef r)) (wusers w), ii, iu).

(* copy.copy(cfg) / cfg.copy(): Python's shallow copy — a new top-level dict with
   the SAME nested dictionaries.  Not a step of the world (it is not one of the
   package's construction paths); used only by the remark
   C20_python_shallow_copy_shares in Prop_C20.v. *)
Definition cfg_shallow (st : cstore) (root : nat) : cstore * nat :=
  match nth_error st root with
  | Some nd => (st ++ [nd], length st)
  | None => (st, root)
  end.
