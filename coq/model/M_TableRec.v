(* C16 extension — as_numpy_record_array: the accessor that turns the column store back into a
   record (structured) array, i.e. into ROWS.  Definitions only. *)
From Coq Require Import ZArith List Bool.
From Sky Require Import Result PyList M_Table G_tablerec.
Import ListNotations.
Open Scope Z_scope.

(* dt = np.dtype([(name, self._data_fields[name].dtype) for name in self.field_name_list]):
   every listed name is looked up (KeyError) before anything is filled *)
Definition rec_lookup (s : store) (o : obj) (n : name) : res (name * buf) :=
  match assoc n (fields o) with
  | None => Err KeyError
  | Some l => match rd s l with
              | Some b => Ok (n, b)
              | None => Err OutOfFuel          (* dangling location: impossible in Python *)
              end
  end.

(* arr = np.empty((len(self),), dtype=dt); arr[name] = self[name]  (numpy broadcasting) *)
Definition rec_fill (len : nat) (c : name * buf) : res (name * dtype * list Z) :=
  match broadcast (bdata (snd c)) len with
  | None => Err ValueError
  | Some vs => Ok (fst c, bdt (snd c), vs)
  end.

Definition rec_rows (len : nat) (filled : list (name * dtype * list Z)) : list (list Z) :=
  map (fun i => map (fun c => nth i (snd c) 0) filled) (seq 0 len).

(* (field names with dtypes, rows) *)
Definition as_record (s : store) (o : obj) : res (list (name * dtype) * list (list Z)) :=
  let len := Z.to_nat (rec_len (olen o)) in
  do cols <- mapM (rec_lookup s o) (fnl o);
  do filled <- mapM (rec_fill len) cols;
  Ok (map fst filled, rec_rows len filled).

Definition rec_world (w : world) := map (as_record (wstore w)) (wobjs w).
