(* C02 — the closed chain from a parameter layout to the gradient VECTOR returned by
   MultiDatasetTCLLHRatio.evaluate:
     declaration list --map_param--> mapper --create_src_params_recarray--> local values and <name>:gpidx
     --> detector yields Y_jk(local value), weights a_jk = W_k Y_jk and their gradient rows (selection
         gpidx > 0 and gpidx == fitparam_id + 1 of the yield code)
     --> table ratios R_v = c_v * phi_v(local value) (PDFRatioProduct of a parameter-free ratio and an
         interpolated ratio; gradient selection gpidx == fitparam_id + 1 of the PDF-ratio code)
     --> M_LlhGrad.pipeline_eval (f_j / f_j_grad, sw_ratio / sw_grad, the evaluate and multi functions)
     --> the vector: entry ns_pidx = grads[ns], the columns of the other fit parameter ids
         (M_Layout.p_fids) scattered back in order (grads[p_mask] = ...).
   Leaves (Y_jk, phi_v and their derivative functions) are arbitrary functions.
   Scope: one interpolated factor and one parameter-free factor per dataset; the gradient row of the
   weights is always an array (the int-0 shortcut of an absent dictionary key is read as a zero row).
   Definitions only. *)
From Coq Require Import ZArith List Bool.
From Sky Require Import Result PyList Num G_llh G_layout M_Llh M_Layout M_LlhGrad.
Import ListNotations.

Section E.
  Context {T : Type} (Nm : Num T).

  (* the local value / key a consumer reads for source k under a local name *)
  Definition xval (m : @mapper T) (vec : list T) (k : nat) (name : Z) : T :=
    match create_src_params_recarray m vec with
    | Ok r => match fst (rcell r k name) with Some v => v | None => nzero Nm end
    | Err _ => nzero Nm
    end.
  Definition xkey (m : @mapper T) (vec : list T) (k : nat) (name : Z) : Z :=
    match create_src_params_recarray m vec with
    | Ok r => snd (rcell r k name)
    | Err _ => 0%Z
    end.

  Record eds := mkEds {
    e_N : T; e_nsel : nat; e_rows : list (nat * nat);
    e_yname : nat -> option Z;            (* the yield's local parameter name for source k (per group) *)
    e_Y : nat -> T -> T; e_dY : nat -> T -> T;
    e_lname : Z;                          (* the interpolation parameter of the PDF ratio *)
    e_c : nat -> T;                       (* parameter-free factor of table row i *)
    e_phi : nat -> T -> T; e_dphi : nat -> T -> T }.

  Definition y_arg (m : @mapper T) vec (d : eds) (k : nat) : T :=
    match e_yname d k with Some nm => xval m vec k nm | None => nzero Nm end.
  (* SingleParamFluxPointLikeSourceI3DetSigYield: keys from gpidx > 0, mask gpidx == key + 1 *)
  Definition y_sel (m : @mapper T) vec (d : eds) (k : nat) (fid : Z) : bool :=
    match e_yname d k with
    | Some nm => lk_dsy_pos (xkey m vec k nm) && lk_dsy_mask (xkey m vec k nm) fid
    | None => false
    end.

  Definition a_row (m : @mapper T) vec (W : list T) (d : eds) : list T :=
    map (fun k => k_a_jk Nm (nth k W (nzero Nm)) (e_Y d k (y_arg m vec d k))) (seq 0 (m_nmodels m)).
  Definition da_row (m : @mapper T) vec (W : list T) (d : eds) (fid : Z) : list T :=
    map (fun k => k_a_jk_grad Nm (nth k W (nzero Nm))
                    (if y_sel m vec d k fid then e_dY d k (y_arg m vec d k) else nzero Nm))
        (seq 0 (m_nmodels m)).

  Definition irows (d : eds) : list (nat * (nat * nat)) := combine (seq 0 (length (e_rows d))) (e_rows d).
  Definition vals_of (m : @mapper T) vec (d : eds) : list (nat * nat * T) :=
    map (fun iv => (snd iv, k_prod_ratio Nm (e_c d (fst iv))
                                (e_phi d (fst iv) (xval m vec (fst (snd iv)) (e_lname d))))) (irows d).
  Definition dvals_of (m : @mapper T) vec (d : eds) (fid : Z) : list (nat * nat * T) :=
    map (fun iv => (snd iv, k_prod_grad_r2 Nm (e_c d (fst iv))
                                (if lk_i3_match (xkey m vec (fst (snd iv)) (e_lname d)) fid
                                 then e_dphi d (fst iv) (xval m vec (fst (snd iv)) (e_lname d))
                                 else nzero Nm))) (irows d).

  Definition to_pipe (m : @mapper T) vec (W : list T) (fid : Z) (d : eds) : pipe_ds :=
    (e_N d, e_nsel d, a_row m vec W d, Some (da_row m vec W d fid), vals_of m vec d, dvals_of m vec d fid).

  Definition e2e_eval (opa : T) (m : @mapper T) vec (W : list T) (DS : list eds) (nsi : Z) (fid : Z) :=
    pipeline_eval Nm opa (nth (Z.to_nat nsi) vec (nzero Nm)) (map (to_pipe m vec W fid) DS).

  Definition e2e_value opa m vec W DS nsi : T := fst (fst (fst (e2e_eval opa m vec W DS nsi 0%Z))).
  Definition e2e_gns opa m vec W DS nsi : T := snd (fst (fst (e2e_eval opa m vec W DS nsi 0%Z))).
  Definition e2e_gp opa m vec W DS nsi (fid : Z) : T := snd (fst (e2e_eval opa m vec W DS nsi fid)).

  (* grads[ns_pidx] = ... ; grads[p_mask] = columns *)
  Fixpoint scatter (idxs : list Z) (nsi : Z) (gns : T) (cols : list T) : list T :=
    match idxs with
    | [] => []
    | i :: r =>
        if Z.eqb i nsi then gns :: scatter r nsi gns cols
        else match cols with
             | c :: cs => c :: scatter r nsi gns cs
             | [] => []
             end
    end.

  (* the returned gradient vector; Err where evaluate raises (length check, 'ns' not floating) *)
  Definition e2e_grad (opa : T) (m : @mapper T) vec (W : list T) (DS : list eds) : res (list T) :=
    do _r <- create_src_params_recarray m vec;
    do nsi <- get_gflp_idx (m_decls m) 0%Z;
    let n := zlen vec in
    Ok (scatter (arange_from 0%Z (Z.to_nat n)) nsi (e2e_gns opa m vec W DS nsi)
                (map (e2e_gp opa m vec W DS nsi) (p_fids n nsi))).
End E.
