(* Model of the sky-coordinate utilities
     skyllh/core/utils/coords.py      angular_separation, rotate_spherical_vector
     skyllh/i3/utils/coords.py        azi_to_ra_transform, ra_to_azi_transform, hor_to_equ_transform
     skyllh/analyses/i3/publicdata_ps/utils.py   psi_to_dec_and_ra
   read per element of the numpy arrays, polymorphic in the number system
   (theorems at RNum, execution on IEEE doubles through extraction).
   Every arithmetic expression is a kernel of the regenerated gen/G_coords.v;
   this file supplies the order of the statements, the masked stores, and the
   array plumbing the translator does not read (np.cross, np.outer, the
   np.diag/np.roll construction of the cross-product matrix, np.dot, np.sum).
   Definitions only. *)
From Coq Require Import ZArith List Bool.
From Sky Require Import Num G_coords.
Import ListNotations.

Section Model.
  Context {T : Type} (N : Num T).

  (* ---------------------------------------------------------------- vectors *)
  Definition vec : Type := (T * T * T)%type.
  Definition mat : Type := (vec * vec * vec)%type.          (* rows *)
  Definition vx (v : vec) : T := fst (fst v).
  Definition vy (v : vec) : T := snd (fst v).
  Definition vz (v : vec) : T := snd v.

  Inductive ax : Type := AX | AY | AZ.
  Definition vget (v : vec) (a : ax) : T :=
    match a with AX => vx v | AY => vy v | AZ => vz v end.
  Definition vmk (f : ax -> T) : vec := (f AX, f AY, f AZ).
  Definition mrow (m : mat) (j : ax) : vec :=
    match j with AX => fst (fst m) | AY => snd (fst m) | AZ => snd m end.
  Definition mget (m : mat) (j k : ax) : T := vget (mrow m j) k.
  Definition mmk (f : ax -> ax -> T) : mat := (vmk (f AX), vmk (f AY), vmk (f AZ)).

  (* np.sum over the three components, left to right *)
  Definition sum3 (f : ax -> T) : T := nsum N [f AX; f AY; f AZ].

  (* np.cross(a, b) *)
  Definition cross (a b : vec) : vec :=
    (nsub N (nmul N (vy a) (vz b)) (nmul N (vz a) (vy b)),
     nsub N (nmul N (vz a) (vx b)) (nmul N (vx a) (vz b)),
     nsub N (nmul N (vx a) (vy b)) (nmul N (vy a) (vx b))).

  (* np.dot(R, v): row times vector, summed left to right *)
  Definition matvec (m : mat) (v : vec) : vec :=
    vmk (fun j => sum3 (fun k => nmul N (mget m j k) (vget v k))).

  (* the unit vector of a direction (the same expressions as vec1/vec2/vec3) *)
  Definition uvec (ra dec : T) : vec := (rot_v1x N ra dec, rot_v1y N ra dec, rot_v1z N dec).
  Definition dot (a b : vec) : T :=
    sum3 (fun k => nmul N (vget a k) (vget b k)).

  (* ---------------------------------------------------------------- angular_separation *)
  (* the two masked stores  x[x < 0.] = 0. ; x[x > 1.] = 1.  in this order *)
  Definition sep_clip (x : T) : T :=
    let x1 := if sep_clip_lo_mask N x then sep_clip_lo_val N else x in
    if sep_clip_hi_mask N x1 then sep_clip_hi_val N else x1.

  (* the haversine argument before clipping *)
  Definition sep_hav (ra1 dec1 ra2 dec2 : T) : T :=
    sep_x N (sep_delta_dec N dec1 dec2) dec1 dec2 (sep_delta_ra N ra1 ra2).

  Definition angsep (ra1 dec1 ra2 dec2 : T) (psi_floor : option T) : T :=
    let psi := sep_psi N (sep_clip (sep_hav ra1 dec1 ra2 dec2)) in
    match psi_floor with
    | None => psi
    | Some f => sep_floor N psi f
    end.

  (* the anchored callers: signalpdf.calculate_pd and the TDM field function *)
  Definition signalpdf_psi (src_ra src_dec ra dec : T) : T :=
    call_signalpdf_psi N (angsep src_ra src_dec ra dec None).
  Definition tdm_psi (ra dec src_ra src_dec : T) (psi_floor : option T) : T :=
    call_tdm_psi N (angsep ra dec src_ra src_dec psi_floor).

  (* ---------------------------------------------------------------- rotate_spherical_vector *)
  (* cos_alpha with its two masked stores ( > 1 first, then < -1 ) *)
  Definition rot_cosa (ra1 dec1 ra2 dec2 : T) : T :=
    let c0 := rot_cos_alpha N ra2 ra1 dec1 dec2 in
    let c1 := if rot_clip_hi_mask N c0 then rot_clip_hi_val N else c0 in
    if rot_clip_lo_mask N c1 then rot_clip_lo_val N else c1.

  Definition rot_vec1 (ra1 dec1 : T) : vec := (rot_v1x N ra1 dec1, rot_v1y N ra1 dec1, rot_v1z N dec1).
  Definition rot_vec2 (ra2 dec2 : T) : vec := (rot_v2x N ra2 dec2, rot_v2y N ra2 dec2, rot_v2z N dec2).
  Definition rot_vec3 (ra3 dec3 : T) : vec := (rot_v3x N ra3 dec3, rot_v3y N ra3 dec3, rot_v3z N dec3).

  (* nrot = cross(vec1, vec2); norm; nrot[norm > 0] /= norm : the axis stays
     unnormalised (the zero vector, up to rounding) when norm is not > 0 *)
  Definition rot_norm_of (n : vec) : T :=
    rot_norm N (sum3 (fun k => rot_norm_term N (vget n k))).
  Definition rot_axis (v1 v2 : vec) : vec :=
    let n := cross v1 v2 in
    let norm := rot_norm_of n in
    if rot_axis_mask N norm then vmk (fun k => rot_axis_div N (vget n k) norm) else n.

  (* np.diagflat(np.ones(3)) *)
  Definition eye (j k : ax) : T :=
    match j, k with AX, AX | AY, AY | AZ, AZ => none N | _, _ => nzero N end.
  (* np.outer(n, n) *)
  Definition outer (n : vec) (j k : ax) : T := nmul N (vget n j) (vget n k).
  (* skv = roll(roll(diag(n), shift=1, axis=1), shift=-1, axis=0):
       diag(n)[i][i] = n_i ; after the column roll M[i][(i+1)%3] = n_i ;
       after the row roll skv[i][j] = M[(i+1)%3][j], i.e.
       skv[0][2] = n_1, skv[1][0] = n_2, skv[2][1] = n_0, zero elsewhere *)
  Definition skv (n : vec) (j k : ax) : T :=
    match j, k with
    | AX, AZ => vy n | AY, AX => vz n | AZ, AY => vx n
    | _, _ => nzero N
    end.
  (* nrotx_i = skv - skv^T *)
  Definition nrotx (n : vec) (j k : ax) : T := rot_nrotx N (skv n j k) (skv n k j).

  (* the matrix R_i from cos_alpha_i, sin_alpha[i] and the axis nrot_i *)
  Definition rot_matrix_of (c s : T) (n : vec) : mat :=
    mmk (fun j k => rot_R N c (outer n j k) (eye j k) s (nrotx n j k)).
  Definition rot_matrix (ra1 dec1 ra2 dec2 : T) : mat :=
    let c := rot_cosa ra1 dec1 ra2 dec2 in
    let s := rot_sin_alpha N (rot_alpha N c) in
    let n := rot_axis (rot_vec1 ra1 dec1) (rot_vec2 ra2 dec2) in
    rot_matrix_of c s n.

  (* ra, dec of a 3-vector as the code computes them at the end *)
  Definition rot_radec (w : vec) : T * T :=
    let ra0 := rot_ra N (vy w) (vx w) in
    let ra1 := rot_ra_wrap N ra0 (rot_twopi N) in
    (rot_ra_mod N ra1 (rot_twopi N), rot_dec N (vz w)).

  Definition rot_sv (ra1 dec1 ra2 dec2 ra3 dec3 : T) : T * T :=
    rot_radec (matvec (rot_matrix ra1 dec1 ra2 dec2) (rot_vec3 ra3 dec3)).

  (* ---------------------------------------------------------------- i3/utils/coords.py *)
  Definition azi2ra (azi mjd : T) : T :=
    let res := a2r_resid N mjd (a2r_length N) in
    let ra0 := a2r_ra0 N (a2r_offset N) res azi in
    a2r_ra2 N (a2r_ra1 N ra0).
  Definition ra2azi (ra mjd : T) : T := r2a_azi N (azi2ra ra mjd).
  Definition hor2equ (azi zen mjd : T) : T * T :=
    (h2e_ra N (azi2ra azi mjd), h2e_dec N zen).

  (* ---------------------------------------------------------------- psi_to_dec_and_ra *)
  (* t is the uniform draw from [p2d_t_lo, p2d_t_hi); returns (dec, ra) *)
  Definition p2d_xyz (src_dec src_ra psi t : T) : vec :=
    let a := p2d_a N psi in
    let b := p2d_b N src_dec in
    let c := p2d_c N src_ra in
    (p2d_x N a b c t, p2d_y N a b c t, p2d_z N a b t).
  Definition psi2decra (src_dec src_ra psi t : T) : T * T :=
    let w := p2d_xyz src_dec src_ra psi t in
    let zen := p2d_zen N (vz w) in
    let azi := p2d_azi N (vy w) (vx w) in
    (p2d_dec N zen, p2d_ra N azi).
  (* ---------------------------------------------------------------- rotate_signal_events_on_sphere *)
  (* The three astropy operations are oracles of the model (their contracts are
     hypotheses of the theorems; the float run uses the transcription below). *)
  Record sky_oracle : Type := {
    o_position_angle : T -> T -> T -> T -> T;      (* lon1 lat1 lon2 lat2 *)
    o_separation : T -> T -> T -> T -> T;          (* lon1 lat1 lon2 lat2 *)
    o_offset_by : T -> T -> T -> T -> T * T        (* lon lat posang distance -> (lon, lat) *)
  }.

  (* the statements of the function in order; SkyCoord(...) of radians in the ICRS
     frame is the identity on (ra, dec) *)
  Definition rses (O : sky_oracle) (src_ra src_dec true_ra true_dec reco_ra reco_dec : T) : T * T :=
    let v_source := (rses_v_source N src_ra, rses_v_source N src_dec) in
    let v_true := (rses_v_evt_true N true_ra, rses_v_evt_true N true_dec) in
    let v_reco := (rses_v_evt_reco N reco_ra, rses_v_evt_reco N reco_dec) in
    let pa := rses_pa N (o_position_angle O (fst v_true) (snd v_true) (fst v_reco) (snd v_reco)) in
    let sp := rses_sep N (o_separation O (fst v_true) (snd v_true) (fst v_reco) (snd v_reco)) in
    let v_rot := o_offset_by O (fst v_source) (snd v_source) pa sp in
    let rot_ra := rses_rot_ra N (rses_v_rotated N (fst v_rot)) in
    let rot_dec := rses_rot_dec N (rses_v_rotated N (snd v_rot)) in
    (rses_ret_ra N rot_ra, rses_ret_dec N rot_dec).

  (* hand transcription of astropy 8.0.1 coordinates/angles/utils.py
     (position_angle, angular_separation, offset_by) for the executable run;
     compared with the real astropy on every run *)
  Definition two_pi : T := nmul N (ofZ N 2) (npi N).
  Definition ap_wrap360 (x : T) : T := nfmod N x two_pi.
  Definition ap_position_angle (lon1 lat1 lon2 lat2 : T) : T :=
    let deltalon := nsub N lon2 lon1 in
    let colat := ncos N lat2 in
    let x := nsub N (nmul N (nsin N lat2) (ncos N lat1))
                    (nmul N (nmul N colat (nsin N lat1)) (ncos N deltalon)) in
    let y := nmul N (nsin N deltalon) colat in
    ap_wrap360 (natan2 N y x).
  Definition ap_hypot (a b : T) : T := nsqrt N (nadd N (nmul N a a) (nmul N b b)).
  Definition ap_separation (lon1 lat1 lon2 lat2 : T) : T :=
    let sdlon := nsin N (nsub N lon2 lon1) in
    let cdlon := ncos N (nsub N lon2 lon1) in
    let slat1 := nsin N lat1 in let slat2 := nsin N lat2 in
    let clat1 := ncos N lat1 in let clat2 := ncos N lat2 in
    let num1 := nmul N clat2 sdlon in
    let num2 := nsub N (nmul N clat1 slat2) (nmul N (nmul N slat1 clat2) cdlon) in
    let den := nadd N (nmul N slat1 slat2) (nmul N (nmul N clat1 clat2) cdlon) in
    natan2 N (ap_hypot num1 num2) den.
  Definition ap_small : T := ndiv N (none N) (ofZ N 1000000000000).      (* 1e-12 *)
  Definition ap_offset_by (lon lat posang distance : T) : T * T :=
    let cos_a := ncos N distance in let sin_a := nsin N distance in
    let cos_c := nsin N lat in let sin_c := ncos N lat in
    let cos_B := ncos N posang in let sin_B := nsin N posang in
    let cos_b := nadd N (nmul N cos_c cos_a) (nmul N (nmul N sin_c sin_a) cos_B) in
    let xsin_A := nmul N (nmul N sin_a sin_B) sin_c in
    let xcos_A := nsub N cos_a (nmul N cos_b cos_c) in
    let A := if nltb N sin_c ap_small
             then nadd N (ndiv N (npi N) (ofZ N 2))
                         (nmul N cos_c (nsub N (ndiv N (npi N) (ofZ N 2)) posang))
             else natan2 N xsin_A xcos_A in
    (ap_wrap360 (nadd N lon A), nasin N cos_b).
  Definition ap_oracle : sky_oracle :=
    {| o_position_angle := ap_position_angle; o_separation := ap_separation; o_offset_by := ap_offset_by |}.
  (* SkyCoord normalises the longitude into [0, 2 pi) on construction *)
  Definition rses_ap (src_ra src_dec true_ra true_dec reco_ra reco_dec : T) : T * T :=
    rses ap_oracle (ap_wrap360 src_ra) src_dec (ap_wrap360 true_ra) true_dec (ap_wrap360 reco_ra) reco_dec.
  (* ---------------------------------------------------------------- signal_event_post_sampling_processing *)
  (* What the loop over the sampled source indices computes, read per event: every
     event (source index k, true direction, reco direction) is rotated onto
     source_list[k]; None stands for the IndexError of an index outside the list.
     The loop / mask / write-back plumbing itself is pinned by the shapev kernel
     sh_post_sampling_processing and validated by the correspondence. *)
  Definition ps_event : Type := (nat * (T * T) * (T * T))%type.
  Definition post_sampling (O : sky_oracle) (srcs : list (T * T)) (evs : list ps_event) : list (option (T * T)) :=
    map (fun ev => match nth_error srcs (fst (fst ev)) with
                   | Some s => Some (rses O (fst s) (snd s) (fst (snd (fst ev))) (snd (snd (fst ev))) (fst (snd ev)) (snd (snd ev)))
                   | None => None
                   end) evs.
  Definition post_sampling_ap (srcs : list (T * T)) (evs : list ps_event) : list (option (T * T)) :=
    map (fun ev => match nth_error srcs (fst (fst ev)) with
                   | Some s => Some (rses_ap (fst s) (snd s) (fst (snd (fst ev))) (snd (snd (fst ev))) (fst (snd ev)) (snd (snd ev)))
                   | None => None
                   end) evs.
End Model.
