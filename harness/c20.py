"""C20 — named collections, keyed lookups, stage checks, configurations.

Correspondence: the real NamedObjectCollection / ModelCollection, make_dict_hash /
PDFSet, DataFieldStages / DataFields and Config are run against the Coq models
M_Coll / M_CollKeys / M_CollCfg (vm_compute):
  * collections: the complete tree of add / pop / += / + / rebinding histories
    over <= 5 uniquely named objects (the model returns a digest of all node
    observations of a subtree, the same walk is done on the implementation) +
    random long histories with wrong-typed / equally named objects, compared
    observation by observation;
  * all orderings of 1..4-entry dictionaries through make_dict_hash / PDFSet;
  * all 16 x 16 stage/mask pairs, all mask sequences up to length 2 (3), big and
    negative integers;
  * all pairs of configuration edits through every Config mutator.
Predicates: the property itself, evaluated on the implementation with plain
Python oracles (no model involved)."""
import concurrent.futures
import itertools
import multiprocessing
import os

from harness import common
from harness.common import zlit, zlist

GEN_MODULES = ['coll']
MODEL_TARGETS = ['model/M_Coll.vo', 'model/M_CollKeys.vo', 'model/M_CollCfg.vo']
PROOF_TARGETS = ['proofs/P_Coll.vo', 'proofs/P_CollKeys.vo', 'proofs/P_CollCfg.vo']
LEVEL = 'proof'
RULE = ('collections: every node of the history tree over the alphabet {add o_k, pop(), pop(i), pop(name), '
        'x += y, x + o, x + y, rebind} (quick depth 5, thorough depth 6; wide alphabet with bad indices, '
        'unknown names, x += x, sequences: depth 3 / 4) for two classes, plus random histories of length <= 14 '
        'with wrong-typed and equally named objects; dictionaries: every ordering of every generated 1..4-entry '
        'dictionary; stages: all 16x16 pairs, all sequences of length <= 2 (3), random big/negative ints; '
        'DatasetCollection: random add/remove/get histories with duplicate names and wrong types; '
        'history probes (repeat / interleave / mutate-then-observe vs fresh twin / two instances / arguments are inputs) on all classes; '
        'configuration: every ordered pair of edits from the mutator list on two instances. A case is '
        'non-trivial when it performs at least one operation; distinct by its operation list')
TRUSTED = [
    'Coq 8.16.1 kernel incl. vm_compute (no native_compute)',
    'theorems closed under the global context (no axioms)',
    'translator/py2coq.py: index arithmetic of py.py (_create_obj_name_to_idx_dict, add, pop), the bit tests of '
    'datafields.py; literal pins of copy.copy / copy.deepcopy / hash(frozenset(d.items())) call sites (kernels of G_coll.v)',
    'hand models M_Coll.v (heap of instance/list/dict cells), M_CollKeys.v, M_CollCfg.v (store of dict nodes), '
    'validated by this correspondence',
    'hash(frozenset(items)) is modelled as an abstract function H of the sorted item list (Section variable); '
    'hash collisions between different dictionaries (e.g. values -1 and -2) are outside the property',
    'Python object identity is modelled by heap locations; copy.copy / copy.deepcopy / OrderedDict.update / '
    'list.extend / list.pop semantics are modelled by hand',
    'Config: sys.path edits of set_wd and os.path.abspath are outside the model (abspath value supplied by the harness)',
    'oracles: brute-force Python predicates in harness/c20.py',
]

IMPORTS = ('From Coq Require Import ZArith List. Import ListNotations. Open Scope Z_scope.\n'
           'From Sky Require Import Result PyList M_Coll M_CollKeys M_CollCfg.\n')

ERRCODE = {'IndexError': 1, 'KeyError': 2, 'TypeError': 3, 'ValueError': 4, 'AttributeError': 5}
MASK = 0x7fffffff


def errcode(ex):
    return ERRCODE.get(type(ex).__name__, 9)


def digest(lst):
    acc = 17
    for z in lst:
        acc = (65599 * acc + z + 1000) & MASK
    return acc


# ============================================================== collections
def alphabet(wide, used):
    m = min(used + 1, 5)
    ops = [('add', k) for k in range(m)]
    ops += [('pop', None), ('popi', 0), ('popi', 1)]
    if wide:
        ops += [('popi', -2), ('popi', 9), ('popi', -9)]
    ops += [('popn', k) for k in range(m if wide else min(used, 5))]
    ops += [('iaddy',)]
    if wide:
        ops += [('iaddx',), ('iaddseq', (min(used, 4), min(used + 1, 4))), ('iaddseq', ())]
    ops += [('pluso', k) for k in (range(m) if wide else ([0] if used == 0 else [0, min(used, 4)]))]
    ops += [('plusy',)]
    if wide:
        ops += [('plusx',), ('plusseq', (0, min(used, 4)))]
    ops += [('rot',)]
    return ops


def used_after(used, o):
    if o[0] in ('add', 'pluso'):
        return min(5, max(used, o[1] + 1))
    if o[0] in ('iaddseq', 'plusseq', 'newseq'):
        return min(5, max([used] + [k + 1 for k in o[1]]))
    return used


# objects: id -> (name index, class);  0..4 are the uniquely named Base objects
# of the exhaustive alphabet, the others serve the random histories
OBJ_TABLE = {0: (0, 'CBase'), 1: (1, 'CBase'), 2: (2, 'CBase'), 3: (3, 'CBase'), 4: (4, 'CBase'),
             5: (0, 'CDerived'), 6: (3, 'CDerived'), 7: (1, 'CForeign'), 8: (2, 'CBase')}


def gobj(k):
    n, c = OBJ_TABLE[k]
    return f'(mkobj {k} {n} {c})'


def gop(o):
    k = o[0]
    if k == 'add':
        return f'XAdd {gobj(o[1])}'
    if k == 'pop':
        return 'XPop PNone'
    if k == 'popi':
        return f'XPop (PIdx {zlit(o[1])})'
    if k == 'popn':
        return f'XPop (PName {zlit(o[1])})'
    if k == 'iaddy':
        return 'XIaddY'
    if k == 'iaddx':
        return 'XIaddX'
    if k == 'iaddseq':
        return 'XIaddSeq [' + '; '.join(gobj(j) for j in o[1]) + ']'
    if k == 'pluso':
        return f'XPlusO {gobj(o[1])}'
    if k == 'plusy':
        return 'XPlusY'
    if k == 'plusx':
        return 'XPlusX'
    if k == 'plusseq':
        return 'XPlusSeq [' + '; '.join(gobj(j) for j in o[1]) + ']'
    if k == 'rot':
        return 'XRot'
    if k == 'newseq':
        return 'XNewSeq [' + '; '.join(gobj(j) for j in o[1]) + ']'
    raise ValueError(o)


def gops(ops):
    return '[' + '; '.join(gop(o) for o in ops) + ']'


class World:
    """three collection variables x, y, z over the real implementation"""

    def __init__(self, variant):
        from skyllh.core.py import NamedObjectCollection
        from skyllh.core.model import Model, ModelCollection
        self.variant = variant
        if variant == 'noc':
            class Base:
                name = None      # NamedObjectCollection requires the attribute on the class

                def __init__(self, oid, name):
                    self.oid = oid
                    self.name = name

            class Derived(Base):
                pass

            class Foreign:
                def __init__(self, oid, name):
                    self.oid = oid
                    self.name = name
            self.new = lambda: NamedObjectCollection(obj_type=Base)
            self.new_from = lambda objs: NamedObjectCollection(objs, obj_type=Base)
        else:
            class Base(Model):
                def __init__(self, oid, name):
                    super().__init__(name=name)
                    self.oid = oid

            class Derived(Base):
                pass

            class Foreign:
                def __init__(self, oid, name):
                    self.oid = oid
                    self.name = name
            self.new = lambda: ModelCollection(model_type=Base)
            self.new_from = lambda objs: ModelCollection(objs, model_type=Base)
        cls = {'CBase': Base, 'CDerived': Derived, 'CForeign': Foreign}
        self.objs = {k: cls[c](k, f'n{n}') for k, (n, c) in OBJ_TABLE.items()}
        self.v = [self.new(), self.new(), self.new()]
        self.bad = []          # predicate failures: (site, kind, history as op list)
        self.path = []         # operations applied so far

    # ------------------------------------------------------------ state
    def snapshot(self):
        return (list(self.v),
                [(c, c._objects, list(c._objects), c._obj_name_to_idx, list(c._obj_name_to_idx.items()))
                 for c in self.v])

    def restore(self, snap):
        v, cs = snap
        self.v = list(v)
        for c, lo, lc, do, dc in cs:
            c._objects = lo
            lo[:] = lc
            c._obj_name_to_idx = do
            do.clear()
            do.update(dc)

    # ------------------------------------------------------------ operations
    def apply(self, o):
        x, y, z = self.v
        k = o[0]
        try:
            if k == 'add':
                r = x.add(self.objs[o[1]])
                if r is not x:
                    self.bad.append(('NamedObjectCollection.add', 'does-not-return-self', self.path + [o]))
                return 0
            if k == 'pop':
                return 100 + x.pop().oid
            if k == 'popi':
                return 100 + x.pop(o[1]).oid
            if k == 'popn':
                return 100 + x.pop(f'n{o[1]}').oid
            if k in ('iaddy', 'iaddx', 'iaddseq'):
                other = y if k == 'iaddy' else x if k == 'iaddx' else [self.objs[j] for j in o[1]]
                before = self._contents(y) if k == 'iaddy' else None
                x0 = x
                x += other
                if x is not x0:
                    self.bad.append(('NamedObjectCollection.__iadd__', 'does-not-return-self', self.path + [o]))
                if before is not None and self._contents(y) != before:
                    self.bad.append(('NamedObjectCollection.__iadd__', 'modified-right-operand', self.path + [o]))
                return 0
            if k in ('pluso', 'plusy', 'plusx', 'plusseq'):
                other = (self.objs[o[1]] if k == 'pluso' else y if k == 'plusy' else x if k == 'plusx'
                         else [self.objs[j] for j in o[1]])
                before = [self._contents(c) for c in self.v]
                xobjs = list(x.objects)
                try:
                    c = x + other
                finally:
                    after = [self._contents(c_) for c_ in self.v]
                    if after != before:
                        self.bad.append(('NamedObjectCollection.__add__', 'modified-operand', self.path + [o]))
                self._check_fresh(c, xobjs, other, o)
                self.v = [c, x, y]
                return 50
            if k == 'rot':
                self.v = [y, z, x]
                return 0
            if k == 'newseq':
                lst = [self.objs[j] for j in o[1]]
                snap = list(lst)
                before = [self._contents(c_) for c_ in self.v]
                try:
                    c = self.new_from(lst if len(self.path) % 2 == 0 else tuple(lst))
                finally:
                    if lst != snap or [self._contents(c_) for c_ in self.v] != before:
                        self.bad.append(('NamedObjectCollection.__init__', 'modifies-argument-or-other-collection', self.path + [o]))
                if c.objects is lst or len(c.objects) != len(snap) or any(a is not b for a, b in zip(c.objects, snap)):
                    self.bad.append(('NamedObjectCollection.__init__', 'wrong-objects-or-aliases-caller-list', self.path + [o]))
                lst.append(self.objs[0])          # the caller keeps and mutates the list
                self.v = [c, x, y]
                return 50
        except Exception as ex:
            return -errcode(ex)
        raise ValueError(o)

    @staticmethod
    def _contents(c):
        """everything observable about one collection, incl. the identity of its containers"""
        return (id(c), id(c._objects), [id(o) for o in c._objects], id(c._obj_name_to_idx),
                list(c._obj_name_to_idx.items()), c._obj_type)

    def _check_fresh(self, c, xobjs, other, o):
        site = 'NamedObjectCollection.__add__'
        olds = self.v
        if any(c is a for a in olds):
            self.bad.append((site, 'result-not-fresh', self.path + [o]))
        if any(c._objects is a._objects or c._obj_name_to_idx is a._obj_name_to_idx for a in olds):
            self.bad.append((site, 'result-shares-containers', self.path + [o]))
        if isinstance(other, list):
            added = other
        elif hasattr(other, 'objects'):
            added = list(other.objects)
        else:
            added = [other]
        want = xobjs + added
        if len(c.objects) != len(want) or any(a is not b for a, b in zip(c.objects, want)):
            self.bad.append((site, 'result-wrong-objects', self.path + [o]))
        if type(c) is not type(olds[0]):
            self.bad.append((site, 'result-wrong-class', self.path + [o]))

    # ------------------------------------------------------------ observation
    @staticmethod
    def _rc(f):
        try:
            return f()
        except Exception as ex:
            return -errcode(ex)

    def obs_coll(self, c):
        out = [len(c)] + [o.oid for o in c.objects] + [-7] + [int(n[1:]) for n in c.name_list] + [-7]
        for n in range(5):
            nm = f'n{n}'
            out.append(self._rc(lambda: c.get_index_by_name(nm)))
            out.append(self._rc(lambda: c[nm].oid))
        return out

    def obs_all(self, rc):
        x, y, z = self.v
        out = [rc] + self.obs_coll(x) + [-8] + self.obs_coll(y) + [-8] + self.obs_coll(z) + [-8]
        for a, b in ((x, y), (x, z), (y, z)):
            out += [int(a is b), int(a._objects is b._objects), int(a._obj_name_to_idx is b._obj_name_to_idx)]
        return out

    # ------------------------------------------------------------ predicate (independent oracle)
    def check_index(self, where):
        for c in self.v:
            objs = c.objects
            names = [o.name for o in objs]
            site = 'NamedObjectCollection'
            if len(c) != len(objs):
                self.bad.append((site, 'len-out-of-step', where))
            if len(set(names)) == len(names):
                if c.name_list != names:
                    self.bad.append((site, 'name-list-out-of-step', where))
                for i, o in enumerate(objs):
                    try:
                        ok = (c.get_index_by_name(o.name) == i and c[o.name] is o and c[i] is o and o.name in c)
                    except Exception:
                        ok = False
                    if not ok:
                        self.bad.append((site, 'index-out-of-step', where))
                        break
            else:
                # equally named objects: every name still resolves to an object of that name
                for nm in set(names):
                    try:
                        ok = c[nm].name == nm
                    except Exception:
                        ok = False
                    if not ok:
                        self.bad.append((site, 'index-out-of-step', where))
                        break
            for nm in ('n0', 'n1', 'n2', 'n3', 'n4'):
                if (nm in c) != (nm in names):
                    self.bad.append((site, 'contains-out-of-step', where))


def explore(w, wide, depth, used, rc, out, path):
    out.append(digest(w.obs_all(rc)))
    w.check_index(list(path))
    if depth == 0:
        return
    for o in alphabet(wide, used):
        snap = w.snapshot()
        w.path = path
        rc2 = w.apply(o)
        explore(w, wide, depth - 1, used_after(used, o), rc2, out, path + [o])
        w.restore(snap)


def run_prefix(w, ops):
    used, rc = 0, 0
    for i, o in enumerate(ops):
        w.path = list(ops[:i])
        rc = w.apply(o)
        used = used_after(used, o)
    return used, rc


def impl_explore(args):
    variant, wide, depth, prefix = args
    w = World(variant)
    used, rc = run_prefix(w, prefix)
    out = []
    explore(w, wide, depth, used, rc, out, list(prefix))
    bad = {}
    for site, kind, detail in w.bad:
        bad.setdefault((site, kind), detail)
    return (digest(out), len(out), [(s, k, d) for (s, k), d in bad.items()])


def impl_trace(variant, ops):
    w = World(variant)
    out = [w.obs_all(0)]
    for i, o in enumerate(ops):
        w.path = list(ops[:i])
        rc = w.apply(o)
        w.check_index(list(ops[:i + 1]))
        out.append(w.obs_all(rc))
    return out, w.bad


def prefixes(wide, plen):
    """all op sequences of length plen following the alphabet (with their `used`)"""
    res = [([], 0)]
    for _ in range(plen):
        res = [(p + [o], used_after(u, o)) for p, u in res for o in alphabet(wide, u)]
    return [p for p, _ in res]


def coq_parallel(name, groups, timeout=1500):
    """evaluate several term lists in parallel coqc processes"""
    def one(ig):
        i, g = ig
        return common.coq_eval(f'{name}{i}', IMPORTS, g, timeout=timeout)
    with concurrent.futures.ThreadPoolExecutor(max_workers=8) as ex:
        return list(ex.map(one, enumerate(groups)))


def localise(ctx, variant, wide, depth, prefix):
    """descend into a subtree whose digest differs until a single history shows the difference"""
    for _ in range(depth + 2):
        m = common.coq_eval('c20loc', IMPORTS, [f'trace_x {gops(prefix)}'])[0]
        m_last = list(m[-1])
        imp, _ = impl_trace(variant, prefix)
        if imp[-1] != m_last:
            ctx.disagree(f'collection.{variant}', {'kind': 'coll', 'variant': variant, 'ops': prefix},
                         imp[-1], m_last, 'observation after the last operation differs')
            return True
        if depth == 0:
            break
        w = World(variant)
        used, _ = run_prefix(w, prefix)
        kids = alphabet(wide, used)
        vals = common.coq_eval('c20loc', IMPORTS, [f'explore_from {str(wide).lower()} {depth - 1} {gops(prefix + [o])}'
                                                   for o in kids])
        nxt = None
        for o, mv in zip(kids, vals):
            iv = impl_explore((variant, wide, depth - 1, prefix + [o]))
            if (iv[0], iv[1]) != tuple(mv):
                nxt = o
                break
        if nxt is None:
            break
        prefix = prefix + [nxt]
        depth -= 1
    ctx.disagree(f'collection.{variant}', {'kind': 'coll', 'variant': variant, 'ops': prefix, 'subtree_depth': depth},
                 'digest', 'digest', 'subtree digests differ (not localised)')
    return False


def random_history(rng, n):
    ops = []
    for _ in range(n):
        r = rng.random()
        if r < 0.35:
            ops.append(('add', rng.randrange(9)))
        elif r < 0.45:
            ops.append(('pop', None))
        elif r < 0.55:
            ops.append(('popi', rng.choice([0, 1, 2, -1, -2, 3, 7, -7])))
        elif r < 0.65:
            ops.append(('popn', rng.randrange(5)))
        elif r < 0.70:
            ops.append(('iaddy',))
        elif r < 0.73:
            ops.append(('iaddx',))
        elif r < 0.80:
            ops.append(('iaddseq', tuple(rng.randrange(9) for _ in range(rng.randrange(0, 4)))))
        elif r < 0.86:
            ops.append(('pluso', rng.randrange(9)))
        elif r < 0.90:
            ops.append(('plusy',))
        elif r < 0.92:
            ops.append(('plusx',))
        elif r < 0.94:
            ops.append(('plusseq', tuple(rng.randrange(9) for _ in range(rng.randrange(0, 4)))))
        elif r < 0.97:
            ops.append(('newseq', tuple(rng.randrange(9) for _ in range(rng.randrange(0, 4)))))
        else:
            ops.append(('rot',))
    return ops


# the inputs of the defects fixed in /repo (eb065d9): `+` and copy()
COLL_CORPUS = [
    [('add', 0), ('add', 1), ('pluso', 2), ('popn', 0), ('rot',), ('popn', 1), ('plusy',)],
    [('add', 0), ('rot',), ('add', 1), ('plusy',), ('pop', None), ('rot',), ('pop', None)],
    [('add', 0), ('add', 5), ('popi', 0), ('add', 8), ('add', 2), ('popn', 2), ('iaddx',), ('popn', 0)],
    [('iaddseq', (6, 0)), ('iaddseq', (0, 6)), ('iaddseq', (7,)), ('iaddseq', ()), ('plusseq', (1, 7)), ('add', 7)],
    [('newseq', (0, 1, 2, 3)), ('popi', -3), ('popi', -5), ('popi', 4), ('popn', 7), ('newseq', (5, 7)), ('newseq', ()),
     ('newseq', (4, 8, 2)), ('popn', 2), ('plusx',), ('popi', -1), ('newseq', (0, 0))],
]


def run_collections(ctx):
    variants = ['noc', 'model']
    nd, wd = ctx.budget((5, 3), (6, 4))
    plen_n, plen_w = ctx.budget((1, 1), (2, 2))
    jobs = []          # (wide, depth, prefix)
    for wide, depth, plen in ((False, nd, plen_n), (True, wd, plen_w)):
        jobs.append((wide, plen - 1 if plen > 0 else 0, []))      # the nodes above the prefixes
        for p in prefixes(wide, plen):
            jobs.append((wide, depth - plen, p))
    terms = [f'explore_from {str(w).lower()} {d} {gops(p)}' for (w, d, p) in jobs]
    # model (threads running coqc) and implementation (processes) side by side
    model_vals = None
    nproc = min(8, os.cpu_count() or 2)
    # the worker processes are forked before the coqc threads are started
    with multiprocessing.get_context('fork').Pool(nproc) as pool, \
            concurrent.futures.ThreadPoolExecutor(max_workers=1) as tex:
        fut = None
        if ctx.model_ok:
            groups = [[t] for t in terms]
            fut = tex.submit(coq_parallel, 'c20t', groups)
        impl_vals = {v: pool.map(impl_explore, [(v, w, d, p) for (w, d, p) in jobs], chunksize=1)
                     for v in variants}
        if fut is not None:
            try:
                model_vals = [g[0] for g in fut.result()]
            except RuntimeError as ex:
                ctx.broken.append({'kind': 'model-eval', 'error': str(ex)[:1500]})
    for v in variants:
        located = 0
        for ji, (w, d, p) in enumerate(jobs):
            dg, n, bad = impl_vals[v][ji]
            ctx.count(f'coll_nodes:{v}:{"wide" if w else "narrow"}', n)
            ctx.evaluations += n
            ctx.case({'coll': v, 'wide': w, 'depth': d, 'prefix': p})
            for site, kind, detail in bad:
                ctx.violation(site, kind, f'[{v}] after history {detail}',
                              case={'kind': 'coll', 'variant': v, 'ops': detail},
                              predicate='name->index = enumerate(objects); a + b fresh, operands unchanged')
            if model_vals is not None:
                ctx.corr_cases += n
                if (dg, n) != tuple(model_vals[ji]):
                    if located < 2:        # descend to a single history for the first ones only
                        located += 1
                        localise(ctx, v, w, d, list(p))
                    else:
                        ctx.disagree(f'collection.{v}', {'kind': 'coll', 'variant': v, 'ops': list(p), 'subtree_depth': d},
                                     'digest', 'digest', 'subtree digests differ')
    ctx.sample({'collections': {'narrow_depth': nd, 'wide_depth': wd, 'subtrees': len(jobs),
                                'first_subtree': terms[1] if len(terms) > 1 else terms[0]}})
    # explicit histories: corpus + random, compared observation by observation
    hist = [list(h) for h in COLL_CORPUS]
    for _ in range(ctx.budget(120, 1500)):
        hist.append(random_history(ctx.rng, ctx.rng.randrange(1, 15)))
    compare_histories(ctx, hist, variants)


def compare_histories(ctx, hist, variants):
    vals = None
    if ctx.model_ok:
        try:
            vals = common.coq_eval('c20h', IMPORTS, [f'trace_x {gops(h)}' for h in hist])
        except RuntimeError as ex:
            ctx.broken.append({'kind': 'model-eval', 'error': str(ex)[:1500]})
    for hi, h in enumerate(hist):
        for o in h:
            ctx.count('hist_op:' + o[0])
        for v in variants:
            imp, bad = impl_trace(v, h)
            ctx.case({'hist': h, 'variant': v})
            for site, kind, detail in bad[:1]:
                ctx.violation(site, kind, f'[{v}] after history {detail}',
                              case={'kind': 'coll', 'variant': v, 'ops': h},
                              predicate='name->index = enumerate(objects); a + b fresh, operands unchanged')
            if vals is not None:
                ctx.corr_cases += 1
                m = [list(s) for s in vals[hi]]
                if m != imp:
                    step = next((i for i, (a, b) in enumerate(zip(m, imp)) if a != b), None)
                    ctx.disagree(f'collection.{v}', {'kind': 'coll', 'variant': v, 'ops': h},
                                 imp[step] if step is not None else imp, m[step] if step is not None else m,
                                 f'observation after step {step} differs')


# ============================================================== dict hash / PDFSet
def gdict(items):
    return '[' + '; '.join(f'({zlit(k)}, {zlit(v)})' for k, v in items) + ']'


def py_dict(items, flavour=0):
    """items: [(key index, value code)]; value = code / 2 (float) or the equal int"""
    d = {}
    for k, c in items:
        v = c / 2
        if flavour and c % 2 == 0:
            v = c // 2          # 2 == 2.0: equal and same hash
        d[f'p{k}'] = v
    return d


def run_hash(ctx):
    from skyllh.core.py import make_dict_hash
    from skyllh.core.pdf import PDFSet, PDF, PDFAxes, PDFAxis
    from skyllh.core.config import Config
    rng = ctx.rng

    class P(PDF):
        def __init__(self, pid, axes):
            self.pid = pid
            self._ax = axes

        @property
        def axes(self):
            return self._ax

        def assert_is_valid_for_trial_data(self, *a, **k):
            pass

        def get_pd(self, *a, **k):
            pass

    class NotAPDF:
        pid = -1
    axes = [PDFAxes([PDFAxis('a', 0, 1)]), PDFAxes([PDFAxis('a', 0, 2)])]

    # ---- all orderings of 1..4-entry dictionaries
    base_sets = []
    for n in (1, 2, 3, 4):
        combos = list(itertools.combinations(range(5), n))
        for keys in combos:
            for _ in range(ctx.budget(2, 12)):
                base_sets.append(tuple((k, rng.randrange(-6, 12)) for k in keys))
    # deterministic corpus: -1.0 / -2.0 (fixed defect 3d907c5: hash(-1) == hash(-2)), 0.0, equal values under different names
    base_sets = [((0, -2),), ((0, -4),), ((0, -2), (1, -4)), ((0, -4), (1, -2)), ((0, 0), (1, 0)), ((0, 3), (1, 3), (2, 3)),
                 ((0, -2), (1, -2), (2, -4), (3, -4))] + base_sets
    base_sets = list(dict.fromkeys(base_sets))
    terms, impl = [], []
    for bs in base_sets:
        perms = list(itertools.permutations(bs))
        keys = []
        for pi, pm in enumerate(perms):
            keys.append(make_dict_hash(py_dict(pm, flavour=pi % 2)))
            ctx.case({'dict': pm})
        ctx.count(f'dict_entries:{len(bs)}', len(perms))
        if len(set(keys)) != 1:
            ctx.violation('make_dict_hash', 'depends-on-insertion-order',
                          'equal dictionaries filled in different orders give different keys',
                          case={'kind': 'hash', 'items': list(bs)}, impl=keys[:4],
                          predicate='d == d2 -> make_dict_hash(d) == make_dict_hash(d2)')
        impl.append(keys)
        terms.append('map key_of [' + '; '.join(gdict(pm) for pm in perms) + ']')
    # beyond the quantifier of the property (1..4 entries): sampled orderings of 5..7-entry dictionaries
    for n in (5, 6, 7):
        for rep in range(ctx.budget(3, 12)):
            bs = [(k, (rep * 5 + k * 3) % 9 - 3) for k in range(n)]
            ks = set()
            orders = [list(bs), list(reversed(bs)), bs[1:] + bs[:1], bs[::2] + bs[1::2]]
            for _ in range(ctx.budget(8, 40)):
                o = list(bs)
                rng.shuffle(o)
                orders.append(o)
            for oi, o in enumerate(orders):
                ks.add(make_dict_hash(py_dict(o, flavour=oi % 2)))
                ctx.evaluations += 1
            ctx.count(f'dict_entries:{n}(sampled)', len(orders))
            if len(ks) != 1:
                ctx.violation('make_dict_hash', 'depends-on-insertion-order',
                              f'equal {n}-entry dictionaries filled in different orders give different keys',
                              case={'kind': 'hash', 'items': bs}, impl=sorted(ks)[:4],
                              predicate='d == d2 -> make_dict_hash(d) == make_dict_hash(d2)')
    # the impl-side equality pattern also without the model: different small dictionaries, different keys
    seen = {}
    for bs, ik in zip(base_sets, impl):
        canon = frozenset(bs)
        if ik[0] in seen and seen[ik[0]] != canon:
            ctx.violation('make_dict_hash', 'distinct-dictionaries-same-key',
                          'two different dictionaries get the same key (PDFSet.add_pdf would reject the second)',
                          case={'kind': 'hash', 'items': list(bs), 'items2': sorted(seen[ik[0]])}, impl=ik[0])
        seen[ik[0]] = canon
    # None == {} ; non-dict raises
    if make_dict_hash(None) != make_dict_hash({}):
        ctx.violation('make_dict_hash', 'none-differs-from-empty', 'make_dict_hash(None) != make_dict_hash({})',
                      case={'kind': 'hash', 'items': []})
    try:
        make_dict_hash([('a', 1)])
        nd = 'returned'
    except TypeError:
        nd = 'TypeError'
    terms.append('(res_code (fun z => z) (make_dict_hash H_test DOther), '
                 'res_code (fun z => 0) (make_dict_hash H_test DNone), key_of [])')
    vals = None
    if ctx.model_ok:
        try:
            vals = common.coq_eval('c20k', IMPORTS, terms)
        except RuntimeError as ex:
            ctx.broken.append({'kind': 'model-eval', 'error': str(ex)[:1500]})
    if vals is not None:
        # equality pattern of the keys: within one dictionary and across dictionaries
        reps_i, reps_m = [], []
        for bs, ik, mk in zip(base_sets, impl, vals[:-1]):
            ctx.corr_cases += len(ik)
            pat_i = [k == ik[0] for k in ik]
            pat_m = [k == mk[0] for k in mk]
            if pat_i != pat_m:
                ctx.disagree('make_dict_hash', {'kind': 'hash', 'items': list(bs)}, pat_i, pat_m)
            reps_i.append(ik[0])
            reps_m.append(mk[0])
        same_i = {(a, b) for a in range(len(reps_i)) for b in range(a) if reps_i[a] == reps_i[b]}
        same_m = {(a, b) for a in range(len(reps_m)) for b in range(a) if reps_m[a] == reps_m[b]}
        if same_m - same_i:
            a, b = sorted(same_m - same_i)[0]
            ctx.disagree('make_dict_hash', {'kind': 'hash', 'items': list(base_sets[a]), 'items2': list(base_sets[b])},
                         'different keys', 'same key')
        for a, b in sorted(same_i - same_m)[:3]:
            ctx.violation('make_dict_hash', 'distinct-dictionaries-same-key',
                          'two different dictionaries get the same key (PDFSet.add_pdf would reject the second)',
                          case={'kind': 'hash', 'items': list(base_sets[a]), 'items2': list(base_sets[b])},
                          impl=reps_i[a], predicate='d != d2 -> make_dict_hash(d) != make_dict_hash(d2) (small numeric values)')
        t = vals[-1]
        if (nd, 0) != ('TypeError' if t[0] == -3 else 'returned', t[1]) or t[2] < 0:
            ctx.disagree('make_dict_hash', {'kind': 'hash', 'items': 'non-dict / None'}, nd, list(t))

    # ---- PDFSet histories
    def gp(p):
        pid, ispdf, ax = p
        return f'(mkpdf {pid} {str(ispdf).lower()} {ax})'

    def garg(g):
        if g[0] == 'dict':
            return f'(GDict {gdict(g[1])})'
        return 'GOther'

    cases = []
    n_cases = ctx.budget(60, 600)
    # corpus of the fixed defect 4cb0b3a: stored under one order, looked up under the other
    cases.append([('add', (1, True, 0), ('dict', ((0, 4), (1, 6)))), ('get', ('dict', ((1, 6), (0, 4)))),
                  ('has', ('dict', ((1, 6), (0, 4)))), ('add', (2, True, 0), ('dict', ((1, 6), (0, 4)))),
                  ('getk', ((1, 6), (0, 4)))])
    cases.append([('add', (1, True, 0), ('dict', ((0, -2),))), ('add', (2, True, 0), ('dict', ((0, -4),))),
                  ('get', ('dict', ((0, -2),))), ('get', ('dict', ((0, -4),))), ('getk', ((0, -4),)), ('has', ('dict', ((0, -6),)))])
    while len(cases) < n_cases:
        pool = [tuple((k, rng.randrange(-4, 6)) for k in rng.sample(range(4), rng.randrange(1, 5)))
                for _ in range(rng.randrange(1, 4))]
        ops = []
        pid = 0
        for _ in range(rng.randrange(2, 9)):
            bs = list(rng.choice(pool))
            rng.shuffle(bs)
            bs = tuple(bs)
            r = rng.random()
            if r < 0.4:
                pid += 1
                ispdf = rng.random() > 0.08
                ax = 0 if rng.random() > 0.15 else 1
                g = ('dict', bs) if rng.random() > 0.06 else ('other',)
                ops.append(('add', (pid, ispdf, ax), g))
            elif r < 0.65:
                ops.append(('get', ('dict', bs) if rng.random() > 0.06 else ('other',)))
            elif r < 0.8:
                ops.append(('getk', bs))
            elif r < 0.9:
                ops.append(('has', ('dict', bs) if rng.random() > 0.06 else ('other',)))
            else:
                ops.append(('hask', bs))
        cases.append(ops)
    terms, impl = [], []
    cfg = Config()
    for ops in cases:
        s = PDFSet(param_grid_set=None, cfg=cfg)
        out = []
        stored = {}            # oracle: frozenset(items) -> pid
        q = []
        for fl, o in enumerate(ops):
            ctx.count('pdfset_op:' + o[0])
            try:
                if o[0] == 'add':
                    pid, ispdf, ax = o[1]
                    p = P(pid, axes[ax]) if ispdf else NotAPDF()
                    g = py_dict(o[2][1], fl % 2) if o[2][0] == 'dict' else 'gamma=2'
                    s.add_pdf(p, g)
                    out.append(0)
                    stored[frozenset(o[2][1])] = pid
                    q.append(f'QAdd {gp(o[1])} {garg(o[2])}')
                    continue
                if o[0] == 'get':
                    g = py_dict(o[1][1], fl % 2) if o[1][0] == 'dict' else 2.5
                    r = s.get_pdf(g).pid
                    if o[1][0] == 'dict' and stored.get(frozenset(o[1][1])) != r:
                        ctx.violation('PDFSet.get_pdf', 'wrong-pdf', 'returned a PDF stored under other grid values',
                                      case={'kind': 'pdfset', 'ops': ops}, impl=r)
                    out.append(r)
                elif o[0] == 'getk':
                    out.append(s.get_pdf(s.make_key(py_dict(o[1], fl % 2))).pid)
                elif o[0] == 'has':
                    g = py_dict(o[1][1], fl % 2) if o[1][0] == 'dict' else 2.5
                    out.append(int(g in s))
                elif o[0] == 'hask':
                    out.append(int(s.make_key(py_dict(o[1], fl % 2)) in s))
            except Exception as ex:
                out.append(-errcode(ex))
                if o[0] == 'get' and o[1][0] == 'dict' and frozenset(o[1][1]) in stored:
                    ctx.violation('PDFSet.get_pdf', 'lookup-depends-on-fill-order',
                                  'a stored PDF is not found under an equal dictionary',
                                  case={'kind': 'pdfset', 'ops': ops}, impl=type(ex).__name__,
                                  predicate='get_pdf(d2) finds what add_pdf(p, d) stored when d == d2')
            if o[0] == 'add':
                q.append(f'QAdd {gp(o[1])} {garg(o[2])}')
            elif o[0] == 'get':
                q.append(f'QGet {garg(o[1])}')
            elif o[0] == 'getk':
                q.append(f'QGetK {gdict(o[1])}')
            elif o[0] == 'has':
                q.append(f'QHas {garg(o[1])}')
            else:
                q.append(f'QHasK {gdict(o[1])}')
        out += [-7] + [p.pid for p in s.values()]
        impl.append(out)
        terms.append('pdfset_trace [' + '; '.join(q) + ']')
        ctx.case({'pdfset': ops})
    ctx.sample({'pdfset_ops': cases[0]})
    if ctx.model_ok:
        try:
            vals = common.coq_eval('c20p', IMPORTS, terms)
            for ops, a, b in zip(cases, impl, vals):
                ctx.corr_cases += 1
                if list(b) != a:
                    ctx.disagree('PDFSet', {'kind': 'pdfset', 'ops': ops}, a, list(b))
        except RuntimeError as ex:
            ctx.broken.append({'kind': 'model-eval', 'error': str(ex)[:1500]})


# ============================================================== stages
def seqs_upto(vals, n):
    out = [[]]
    for k in range(1, n + 1):
        out += [list(t) for t in itertools.product(vals, repeat=k)]
    return out


def bits_and(s, m):
    """every bit of m is set in s; Python ints are two's complement with an infinite sign extension:
    bits 0..95 explicitly, all higher bits equal the sign"""
    return all((s >> b) & 1 for b in range(96) if (m >> b) & 1) and (m >= 0 or s < 0)


def bits_or(s, m):
    return any((s >> b) & 1 for b in range(96) if (m >> b) & 1) or (m < 0 and s < 0)


JOINT_NAMES = ['aa', 'zz', 'dec', 'mm', 'b1', 'ra', 'run', 'time']      # index = model code; deliberately not sorted by use


def run_stages(ctx):
    from skyllh.core.datafields import DataFieldStages as DFS, DataFields
    rng = ctx.rng

    def rb(f):
        try:
            r = f()
            if not isinstance(r, bool):
                return -9
            return int(r)
        except Exception as ex:
            return -errcode(ex)
    L = ctx.budget(2, 3)
    impl_int = [[(rb(lambda: DFS.and_check(s, m)), rb(lambda: DFS.or_check(s, m))) for m in range(16)]
                for s in range(16)]
    seqs = seqs_upto(list(range(16)), L)
    impl_seq = []
    for s in range(16):
        row = []
        for i, ms in enumerate(seqs):
            arg = ms if i % 2 == 0 else tuple(ms)
            row.append((rb(lambda: DFS.and_check(s, arg)), rb(lambda: DFS.or_check(s, arg))))
        impl_seq.append(row)
    # predicates
    for s in range(16):
        for m in range(16):
            ctx.case({'stage': s, 'mask': m})
            a, o = impl_int[s][m]
            if a != int(bits_and(s, m)):
                ctx.violation('DataFieldStages.and_check', 'not-bitwise-all', f'and_check({s}, {m}) = {a}',
                              case={'kind': 'stage', 'stage': s, 'stages': m}, impl=a,
                              predicate='and_check(s, m) <-> every bit of m is set in s')
            if o != int(bits_or(s, m)):
                ctx.violation('DataFieldStages.or_check', 'not-bitwise-any', f'or_check({s}, {m}) = {o}',
                              case={'kind': 'stage', 'stage': s, 'stages': m}, impl=o,
                              predicate='or_check(s, m) <-> some bit of m is set in s')
        for ms, (a, o) in zip(seqs, impl_seq[s]):
            ctx.evaluations += 1
            if a != int(all(bits_and(s, m) for m in ms)):
                ctx.violation('DataFieldStages.and_check', 'sequence-not-all', f'and_check({s}, {ms}) = {a}',
                              case={'kind': 'stage', 'stage': s, 'stages': ms}, impl=a)
            if o != int(any(bits_or(s, m) for m in ms)):
                ctx.violation('DataFieldStages.or_check', 'sequence-not-any', f'or_check({s}, {ms}) = {o}',
                              case={'kind': 'stage', 'stage': s, 'stages': ms}, impl=o)
    ctx.count('stage_pairs', 256)
    ctx.count('stage_sequences', 16 * len(seqs))
    # big / negative integers, longer sequences, get_joint_names
    big = []
    for _ in range(ctx.budget(300, 3000)):
        w = rng.choice([4, 8, 31, 32, 63, 64, 65, 70])
        s = rng.getrandbits(w) * rng.choice([1, 1, 1, -1])
        r = rng.random()
        if r < 0.3:
            m = s & rng.getrandbits(w)            # subset of s: and_check true
        elif r < 0.4:
            m = ~s & rng.getrandbits(w)           # disjoint
        else:
            m = rng.getrandbits(w) * rng.choice([1, 1, -1])
        if rng.random() < 0.6:
            arg = ('int', m)
        else:
            arg = ('seq', [m] + [rng.choice([s & rng.getrandbits(w), rng.getrandbits(rng.choice([3, w]))])
                                 for _ in range(rng.randrange(0, 4))])
        big.append((s, arg))
    impl_big, terms_big = [], []
    for s, arg in big:
        a = arg[1]
        ctx.case({'stage': s, 'arg': arg})
        ctx.count('stage_big:' + arg[0])
        ra, ro = rb(lambda: DFS.and_check(s, a)), rb(lambda: DFS.or_check(s, a))
        impl_big.append((ra, ro))
        ms = [a] if arg[0] == 'int' else a
        if ra != int(all(bits_and(s, m) for m in ms)):
            ctx.violation('DataFieldStages.and_check', 'not-bitwise-all', f'stage {s} arg {a}: {ra}',
                          case={'kind': 'stage', 'stage': s, 'stages': a}, impl=(ra, ro))
        if ro != int(any(bits_or(s, m) for m in ms)):
            ctx.violation('DataFieldStages.or_check', 'not-bitwise-any', f'stage {s} arg {a}: {ro}',
                          case={'kind': 'stage', 'stage': s, 'stages': a}, impl=(ra, ro))
        g = f'(SInt {zlit(a)})' if arg[0] == 'int' else f'(SSeq {zlist(a)})'
        terms_big.append(f'(resb (and_check {zlit(s)} {g}), resb (or_check {zlit(s)} {g}))')
    # get_joint_names
    jn, terms_jn, impl_jn = [], [], []
    for _ in range(ctx.budget(40, 400)):
        # declaration order is NOT the sorted order of the names
        fields = [(i, rng.randrange(16)) for i in rng.sample(range(8), rng.randrange(0, 8))]
        if _ == 0:
            fields = [(7, 4), (2, 4), (5, 12), (0, 1), (3, 4)]       # names time, dec, ra, aa, ... declared unsorted
        arg = ('int', rng.randrange(16)) if rng.random() < 0.5 else ('seq', [rng.randrange(16) for _ in range(rng.randrange(0, 3))])
        if _ == 0:
            arg = ('int', 4)
        jn.append((fields, arg))
        d = {JOINT_NAMES[i]: st for i, st in fields}
        r = DataFields.get_joint_names(d, arg[1])
        impl_jn.append([JOINT_NAMES.index(n) for n in r])
        ms = [arg[1]] if arg[0] == 'int' else arg[1]
        if impl_jn[-1] != [i for i, st in fields if any(bits_or(st, m) for m in ms)]:
            ctx.violation('DataFields.get_joint_names', 'wrong-fields-or-order', f'{fields} {arg}',
                          case={'kind': 'joint', 'fields': fields, 'stages': arg[1]}, impl=impl_jn[-1])
        g = f'(SInt {zlit(arg[1])})' if arg[0] == 'int' else f'(SSeq {zlist(arg[1])})'
        terms_jn.append(f'joint_names {gdict(fields)} {g}')
        ctx.case({'joint': fields, 'arg': arg})
    ctx.sample({'stage_big': [(s, a) for s, a in big[:3]]})
    if not ctx.model_ok:
        return
    try:
        vals = common.coq_eval('c20s', IMPORTS, ['int_table 16', f'seq_table 16 {L}'] + terms_big + terms_jn)
    except RuntimeError as ex:
        ctx.broken.append({'kind': 'model-eval', 'error': str(ex)[:1500]})
        return
    mt = [[tuple(p) for p in row] for row in vals[0]]
    ms_ = [[tuple(p) for p in row] for row in vals[1]]
    ctx.corr_cases += 256 + 16 * len(seqs)
    for s in range(16):
        for m in range(16):
            if mt[s][m] != impl_int[s][m]:
                ctx.disagree('DataFieldStages', {'kind': 'stage', 'stage': s, 'stages': m}, impl_int[s][m], mt[s][m])
        for i, sq in enumerate(seqs):
            if ms_[s][i] != impl_seq[s][i]:
                ctx.disagree('DataFieldStages', {'kind': 'stage', 'stage': s, 'stages': sq}, impl_seq[s][i], ms_[s][i])
    for (s, arg), iv, mv in zip(big, impl_big, vals[2:2 + len(big)]):
        ctx.corr_cases += 1
        if tuple(mv) != iv:
            ctx.disagree('DataFieldStages', {'kind': 'stage', 'stage': s, 'stages': arg[1]}, iv, tuple(mv))
    for (fields, arg), iv, mv in zip(jn, impl_jn, vals[2 + len(big):]):
        ctx.corr_cases += 1
        mm = list(mv[1]) if isinstance(mv, tuple) and mv[0] == 'Ok' else list(mv)
        if mm != iv:
            ctx.disagree('DataFields.get_joint_names', {'kind': 'joint', 'fields': fields, 'stages': arg[1]}, iv, mm)


# ============================================================== configuration
KEYCODE = {'multiproc': 1, 'ncpu': 11, 'debugging': 2, 'log_format': 21, 'enable_tracing': 22, 'project': 3,
           'working_directory': 31, 'repository': 4, 'base_path': 41, 'download_from_origin': 42, 'units': 5,
           'internal': 51, 'defaults': 52, 'fluxes': 53, 'angle': 54, 'energy': 55, 'length': 56, 'time': 57,
           'datafields': 6, 'caching': 7, 'pdf': 71, 'MultiDimGridPDF': 72}


class Codes:
    """python keys / atoms <-> integer codes of the model"""

    def __init__(self):
        self.keys = dict(KEYCODE)
        self.atoms = {}

    def key(self, k):
        if k not in self.keys:
            self.keys[k] = 100 + len(self.keys)
        return self.keys[k]

    def atom(self, v):
        if v is False:
            return 0
        if v is True:
            return 1
        ident = (type(v).__name__, str(v))
        if ident not in self.atoms:
            self.atoms[ident] = 1000 + len(self.atoms)
        return self.atoms[ident]

    def tree(self, v):
        if isinstance(v, dict):
            return ('TNode', [(self.key(k), self.tree(x)) for k, x in v.items()])
        return ('TAtom', self.atom(v))


def dict_ids(d, acc=None):
    acc = {} if acc is None else acc
    if isinstance(d, dict) and id(d) not in acc:
        acc[id(d)] = d
        for x in d.values():
            dict_ids(x, acc)
    return acc


class CfgWorld:
    """the real Config class with config._BASECONFIG replaced by users[0] (same content)"""

    def __init__(self, codes):
        self.codes = codes
        self.users = []
        self.insts = []
        self.gops = []         # Gallina wop terms
        self.rcs = []
        self.yaml_files = {}

    # -- user dictionaries (the model builds them with the same steps)
    def user_new(self):
        self.users.append({})
        self.gops.append('WUserNew')
        self.rcs.append(0)
        return len(self.users) - 1

    def _walk(self, d, path):
        for k in path:
            d = d[k]
        return d

    def _do(self, f):
        try:
            f()
            self.rcs.append(0)
        except Exception as ex:
            self.rcs.append(-errcode(ex))

    def user_set(self, u, path, k, v):
        self.gops.append(f'WUserSet {u} {zlist([self.codes.key(x) for x in path])} {self.codes.key(k)} {self.codes.atom(v)}')
        self._do(lambda: self._walk(self.users[u], path).__setitem__(k, v))

    def user_link(self, u, path, k, u2):
        self.gops.append(f'WUserLink {u} {zlist([self.codes.key(x) for x in path])} {self.codes.key(k)} {u2}')
        self._do(lambda: self._walk(self.users[u], path).__setitem__(k, self.users[u2]))

    def user_literal(self, d):
        """build a (nested) dict literal step by step; returns the user index of its root"""
        u = self.user_new()
        for k, v in d.items():
            if isinstance(v, dict):
                c = self.user_literal(v)
                self.user_link(u, [], k, c)
            else:
                self.user_set(u, [], k, v)
        return u

    # -- Config
    def new(self):
        from skyllh.core import config
        self.gops.append('WNew')

        def f():
            self.insts.append(config.Config())
        self._do(f)

    def from_dict(self, u):
        from skyllh.core import config
        self.gops.append(f'WFromDict {u}')

        def f():
            self.insts.append(config.Config.from_dict(self.users[u]))
        self._do(f)

    def from_yaml(self, u):
        """Config.from_yaml of a file holding users[u]: loading creates fresh dictionaries, which the model
        reads as the deep copy of the file content (same step as from_dict)"""
        import tempfile
        import yaml
        from skyllh.core import config
        self.gops.append(f'WFromDict {u}')

        def f():
            # ONE file per user dictionary: a second from_yaml reads the same path (a memo on the path would
            # hand the same nested dictionaries to both instances)
            if u not in self.yaml_files:
                with tempfile.NamedTemporaryFile('w', suffix='.yaml', delete=False) as fh:
                    yaml.safe_dump(self.users[u], fh, sort_keys=False)
                self.yaml_files[u] = fh.name
            self.insts.append(config.Config.from_yaml(self.yaml_files[u]))
        self._do(f)

    def cleanup(self):
        for fn in self.yaml_files.values():
            try:
                os.unlink(fn)
            except OSError:
                pass
        self.yaml_files = {}

    def mutate(self, i, e):
        """e = (method, args) ; returns nothing, records the Gallina step"""
        from astropy import units
        c = self.insts[i]
        cd = self.codes
        kind = e[0]
        if kind == 'enable':
            g, f = 'MEnable', lambda: c.enable_tracing()
        elif kind == 'disable':
            g, f = 'MDisable', lambda: c.disable_tracing()
        elif kind == 'tracing':
            g, f = f'(MSetTracing {cd.atom(e[1])})', lambda: c.set_enable_tracing(e[1])
        elif kind == 'ncpu':
            g, f = f'(MSetNcpu {cd.atom(e[1])})', lambda: c.set_ncpu(e[1])
        elif kind == 'units':
            args = e[1]           # dict name -> value (unit or not)

            def ga(n):
                if n not in args:
                    return 'None'
                v = args[n]
                return f'(Some ({str(isinstance(v, units.UnitBase)).lower()}, {cd.atom(v)}))'
            g = f"(MSetUnits {ga('angle_unit')} {ga('energy_unit')} {ga('length_unit')} {ga('time_unit')})"
            f = lambda: c.set_internal_units(**args)
        elif kind == 'wd':
            try:
                cur = c['project']['working_directory']
                absv = cd.atom(os.path.abspath(e[1] if e[1] is not None else cur))
            except Exception:
                absv = 0
            g, f = f'(MSetWd {absv})', lambda: c.set_wd(e[1])
        elif kind == 'item':
            path, k, v = e[1], e[2], e[3]
            g = f'(MSetItem {zlist([cd.key(x) for x in path])} {cd.key(k)} {cd.atom(v)})'
            f = lambda: self._walk(c, path).__setitem__(k, v)
        elif kind == 'delitem':
            path, k = e[1], e[2]
            g = f'(MDelItem {zlist([cd.key(x) for x in path])} {cd.key(k)})'
            if e[3] == 'pop':
                f = lambda: self._walk(c, path).pop(k)
            else:
                f = lambda: self._walk(c, path).__delitem__(k)
        else:
            raise ValueError(e)
        self.gops.append(f'WMut {i} {g}')
        import sys
        saved = list(sys.path)
        try:
            self._do(f)
        finally:
            sys.path[:] = saved

    # -- observation
    def observe(self):
        cd = self.codes
        it = [('Ok', cd.tree(c)) for c in self.insts]
        ut = [('Ok', cd.tree(u)) for u in self.users]
        ri = [set(dict_ids(c)) for c in self.insts]
        ru = [set(dict_ids(u)) for u in self.users]
        ii = [(a, b) for a in range(len(ri)) for b in range(len(ri)) if a < b and ri[a] & ri[b]]
        iu = [(a, b) for a in range(len(ri)) for b in range(len(ru)) if ri[a] & ru[b]]
        return (list(self.rcs), it, ut, ii, iu)

    def snapshot_values(self):
        import copy
        return ([copy.deepcopy(dict(c)) for c in self.insts], [copy.deepcopy(u) for u in self.users])


def cfg_edits():
    from astropy import units
    return [
        ('enable',), ('disable',), ('tracing', True), ('tracing', 'yes'), ('ncpu', 4),
        ('units', {'angle_unit': units.deg}),
        ('units', {'energy_unit': units.TeV, 'time_unit': 'not a unit', 'length_unit': units.m}),
        ('units', {'length_unit': units.m, 'time_unit': units.day}),
        ('wd', '/tmp/c20-wd'), ('wd', None),
        ('item', ['debugging'], 'log_format', 'x'), ('item', ['datafields'], 'run', 3),
        ('item', ['caching', 'pdf'], 'MultiDimGridPDF', True), ('item', [], 'newkey', 5),
        ('item', ['units', 'defaults', 'fluxes'], 'energy', units.TeV),
        ('delitem', ['datafields'], 'run', 'pop'), ('delitem', ['caching', 'pdf'], 'no_such_key', 'del'),
    ]


def cfg_user_dicts():
    from astropy import units
    return [
        {'debugging': {'enable_tracing': True, 'log_format': 'u'}, 'project': {'working_directory': '/u/wd'}},
        {'units': {'internal': {'angle': units.deg, 'energy': units.GeV, 'length': units.m, 'time': units.s},
                   'defaults': {'fluxes': {'energy': units.TeV}}}, 'multiproc': {'ncpu': 2}, 'extra': {'deep': {'x': 1}}},
        {'debugging': {}, 'project': 'not a dict', 'caching': {'pdf': {'MultiDimGridPDF': True}}},
    ]


def cfg_scenario(ctx, codes, base, constr, udict, e1, e2):
    """build two instances, edit the first, edit the second, edit the user dict and the base, make a third"""
    from skyllh.core import config
    w = CfgWorld(codes)
    w.user_literal(base)                 # users[0] = _BASECONFIG
    u = w.user_literal(udict)
    bad = []
    saved_base = config._BASECONFIG
    config._BASECONFIG = w.users[0]
    try:
        for c in constr:
            if c == 'new':
                w.new()
            elif c == 'yaml':
                w.from_yaml(u)
            else:
                w.from_dict(u)
        steps = [lambda: w.mutate(0, e1), lambda: w.mutate(1, e2),
                 lambda: w.user_set(u, ['debugging'], 'enable_tracing', 'EDITED-BY-USER'),
                 lambda: w.user_set(0, ['multiproc'], 'ncpu', 99),
                 lambda: w.mutate(1, e1), lambda: w.new()]
        targets = [('inst', 0), ('inst', 1), ('user', u), ('user', 0), ('inst', 1), None]
        for stp, tgt in zip(steps, targets):
            if len(w.insts) < 2:
                break
            si, su = w.snapshot_values()
            stp()
            ai, au = w.snapshot_values()
            for j in range(len(si)):
                if tgt != ('inst', j) and si[j] != ai[j]:
                    bad.append(('Config', 'edit-visible-in-other-instance', f'instance {j} changed by a step on {tgt}'))
            for j in range(len(su)):
                reach = tgt is not None and tgt[0] == 'user' and id(w.users[j]) in dict_ids(w.users[tgt[1]])
                holder = tgt is not None and tgt[0] == 'user' and id(w.users[tgt[1]]) in dict_ids(w.users[j])
                if tgt != ('user', j) and not reach and not holder and su[j] != au[j]:
                    which = '_BASECONFIG' if j == 0 else f'user dictionary {j}'
                    bad.append(('Config', 'edit-visible-in-base-or-user-dict', f'{which} changed by a step on {tgt}'))
        obs = w.observe()
        if obs[3]:
            bad.append(('Config', 'instances-share-mutable-state', f'instances {obs[3]} share a dictionary'))
        roots = {0, u}
        if any(b in roots or True for (a, b) in obs[4]):
            if obs[4]:
                bad.append(('Config', 'instance-shares-with-base-or-user-dict', f'(instance, dict) pairs {obs[4][:4]}'))
        if len(w.insts) == 3:
            # the third instance is a copy of the (edited) base, whatever was done to the others
            if dict(w.insts[2]) != w.users[0]:
                bad.append(('Config', 'new-instance-differs-from-base', 'Config() != _BASECONFIG'))
    finally:
        config._BASECONFIG = saved_base
        w.cleanup()
    return w, obs, bad


def canon_cfg(v):
    rcs, it, ut, ii, iu = v if len(v) == 5 else (v[0][0][0][0], v[0][0][0][1], v[0][0][1], v[0][1], v[1])

    def ct(t):
        if isinstance(t, tuple) and t[0] == 'TNode':
            return ('TNode', [(k, ct(x)) for k, x in t[1]])
        return t

    def cr(r):
        return (r[0], ct(r[1])) if isinstance(r, tuple) and r[0] == 'Ok' else r
    return (list(rcs), [cr(r) for r in it], [cr(r) for r in ut], [tuple(p) for p in ii], [tuple(p) for p in iu])


def run_config(ctx):
    import copy
    from skyllh.core import config
    codes = Codes()
    base = copy.deepcopy(config._BASECONFIG)
    edits = cfg_edits()
    udicts = cfg_user_dicts()
    constrs = [('new', 'new'), ('from', 'from'), ('new', 'from'), ('from', 'new')]
    if not ctx.thorough():
        constrs = [('from', 'from'), ('new', 'from')]
    constrs += [('yaml', 'yaml'), ('yaml', 'from'), ('new', 'yaml')]
    scen = []
    for ci, constr in enumerate(constrs):
        for a, e1 in enumerate(edits):
            for b, e2 in enumerate(edits):
                if ctx.thorough():
                    us = range(len(udicts))
                else:
                    us = [(a + b + ci) % len(udicts)]
                if 'yaml' in constr:
                    if not ctx.thorough() and b != (a * 7 + 3) % len(edits):
                        continue
                    us = [0, 2] if ctx.thorough() else [(0, 2)[(a + ci) % 2]]     # YAML-safe values only
                for ui in us:
                    scen.append((constr, ui, a, b))
    terms, impl, keep = [], [], []
    for constr, ui, a, b in scen:
        w, obs, bad = cfg_scenario(ctx, codes, base, constr, udicts[ui], edits[a], edits[b])
        case = {'kind': 'cfg', 'constr': constr, 'user': ui, 'edit1': a, 'edit2': b}
        ctx.case(case)
        ctx.count('cfg_constr:' + '+'.join(constr))
        ctx.count('cfg_edit:' + edits[a][0])
        for site, kind, detail in bad[:2]:
            ctx.violation(site, kind, detail, case=case,
                          predicate='no step on one Config / dictionary is visible in another instance')
        terms.append('wtrace 40 [' + '; '.join(w.gops) + ']')
        impl.append(obs)
        keep.append(case)
    ctx.sample({'cfg_scenario': scen[0], 'steps': terms[0][:400]})
    if not ctx.model_ok:
        return
    try:
        vals = common.coq_eval('c20c', IMPORTS, terms)
    except RuntimeError as ex:
        ctx.broken.append({'kind': 'model-eval', 'error': str(ex)[:1500]})
        return
    for case, iv, mv in zip(keep, impl, vals):
        ctx.corr_cases += 1
        try:
            m = canon_cfg(mv)
        except Exception as ex:
            m = ('unparsed', str(ex), repr(mv)[:300])
        i2 = (iv[0], iv[1], iv[2], iv[3], iv[4])
        if m != i2:
            part = next((n for n, (x, y) in enumerate(zip(m, i2)) if x != y), None)
            ctx.disagree('Config', case, repr(i2[part])[:600] if part is not None else None,
                         repr(m[part])[:600] if part is not None else repr(m)[:600],
                         f'component {part} of (result codes, instance trees, user trees, inst-inst sharing, inst-dict sharing) differs')


# ============================================================== DatasetCollection
DS_TABLE = {0: (0, 'CBase'), 1: (1, 'CBase'), 2: (2, 'CBase'), 3: (3, 'CBase'), 4: (1, 'CDerived'), 5: (2, 'CForeign')}


def run_datasets(ctx):
    from skyllh.core.dataset import Dataset, DatasetCollection
    from skyllh.core.config import Config
    rng = ctx.rng
    cfg = Config()

    class SubDataset(Dataset):
        pass

    class NotADataset:
        def __init__(self, name):
            self.name = name

    def mk(k):
        n, c = DS_TABLE[k]
        if c == 'CForeign':
            o = NotADataset(f'd{n}')
        else:
            o = (Dataset if c == 'CBase' else SubDataset)(
                cfg=cfg, name=f'd{n}', exp_pathfilenames=None, mc_pathfilenames=None, livetime=1.0,
                default_sub_path_fmt='x', version=1)
        o.oid = k
        return o

    def gobj_ds(k):
        n, c = DS_TABLE[k]
        return f'(mkobj {k} {n} {c})'
    cases = [[('add', (0,)), ('add', (1, 0)), ('get', 1), ('remove', 0), ('add', (0, 5, 2)), ('add', (4,)), ('get', 2)]]
    for _ in range(ctx.budget(80, 800)):
        ops = []
        for _ in range(rng.randrange(1, 10)):
            r = rng.random()
            if r < 0.5:
                ops.append(('add', tuple(rng.randrange(6) for _ in range(rng.choice([1, 1, 1, 2, 3])))))
            elif r < 0.7:
                ops.append(('remove', rng.randrange(4)))
            else:
                ops.append(('get', rng.randrange(4)))
        cases.append(ops)
    terms, impl = [], []
    for ops in cases:
        objs = {k: mk(k) for k in DS_TABLE}
        c = DatasetCollection('c')
        out, q = [], []
        for i, o in enumerate(ops):
            ctx.count('dataset_op:' + o[0])
            try:
                if o[0] == 'add':
                    arg = [objs[k] for k in o[1]]
                    if len(arg) == 1 and i % 2 == 0:
                        c += arg[0]                    # a single dataset through +=
                    else:
                        c.add_datasets(tuple(arg) if i % 3 == 0 else arg)
                    out.append(0)
                elif o[0] == 'remove':
                    c.remove_dataset(f'd{o[1]}')
                    out.append(0)
                else:
                    got = c.get_dataset(f'd{o[1]}')
                    out.append(got.oid)
                    if got.name != f'd{o[1]}' or c[f'd{o[1]}'] is not got:
                        ctx.violation('DatasetCollection.get_dataset', 'wrong-dataset', f'get_dataset(d{o[1]}) returned {got.name}',
                                      case={'kind': 'dataset', 'ops': ops})
            except Exception as ex:
                out.append(-errcode(ex))
            if any(d.name != k for k, d in c._datasets.items()) or c.dataset_names != sorted(c._datasets.keys()):
                ctx.violation('DatasetCollection', 'key-differs-from-dataset-name', f'after {ops[:i + 1]}',
                              case={'kind': 'dataset', 'ops': ops},
                              predicate='every dataset is stored under its own name')
            if o[0] == 'add':
                q.append('DsAdd [' + '; '.join(gobj_ds(k) for k in o[1]) + ']')
            elif o[0] == 'remove':
                q.append(f'DsRemove {o[1]}')
            else:
                q.append(f'DsGet {o[1]}')
        out += [-7] + [int(k[1:]) for k in c._datasets.keys()] + [-7] + [d.oid for d in c._datasets.values()]
        impl.append(out)
        terms.append('ds_trace [' + '; '.join(q) + ']')
        ctx.case({'dataset': ops})
    if not ctx.model_ok:
        return
    try:
        vals = common.coq_eval('c20d', IMPORTS, terms)
    except RuntimeError as ex:
        ctx.broken.append({'kind': 'model-eval', 'error': str(ex)[:1500]})
        return
    for ops, a, b in zip(cases, impl, vals):
        ctx.corr_cases += 1
        if list(b) != a:
            ctx.disagree('DatasetCollection', {'kind': 'dataset', 'ops': ops}, a, list(b))


# ============================================================== history probes (no model: "the result is a
# function of the current state / inputs only", see tools/HARDENING.md)
def run_probes(ctx):
    import traceback
    for part in (probe_collections, probe_keys, probe_stages, probe_config, probe_datasets):
        try:
            part(ctx)
        except Exception as ex:
            # a probe only performs legal operations: an exception escaping from the implementation is a
            # misbehaviour of its own (and must not crash the check)
            tb = traceback.extract_tb(ex.__traceback__)
            where = next((f'{os.path.basename(fr.filename)}:{fr.name}' for fr in reversed(tb) if 'skyllh' in fr.filename), '?')
            ctx.violation(part.__name__, f'legal-operation-raised-{type(ex).__name__}',
                          f'{type(ex).__name__}: {ex} (raised in {where})',
                          case={'kind': 'probe', 'part': part.__name__})


def _coll_obs(c, names):
    """every public observable of a named collection (errors as type names)"""
    def rc(f):
        try:
            return f()
        except Exception as ex:
            return type(ex).__name__
    out = [len(c), [id(o) for o in c.objects], [id(o) for o in c], list(c.name_list), str(c) is not None]
    for n in names:
        out.append((rc(lambda: c.get_index_by_name(n)), rc(lambda: id(c[n])), n in c))
    for i in range(-3, 4):
        out.append(rc(lambda: id(c[i])))
    for o in list(c.objects)[:3]:
        out.append(rc(lambda: c.index(o)))
    return out


def probe_collections(ctx):
    from skyllh.core.py import NamedObjectCollection, ObjectCollection
    from skyllh.core.model import Model, ModelCollection
    rng = ctx.rng

    class Base:
        name = None

        def __init__(self, k):
            self.name = f'n{k}'

    class MBase(Model):
        def __init__(self, k):
            super().__init__(name=f'n{k}')
    names = [f'n{k}' for k in range(6)] + ['zz']
    for label, mk, newc in (('NamedObjectCollection', Base, lambda objs=None: NamedObjectCollection(objs, obj_type=Base)),
                            ('ModelCollection', MBase, lambda objs=None: ModelCollection(objs, model_type=MBase))):
        def bad(site, kind, detail):
            ctx.violation(f'{label}.{site}', kind, detail, case={'kind': 'probe', 'part': 'collections', 'class': label},
                          predicate='the collection is a function of its own operation history only')

        def twin_eq(c, want, where):
            """compare with a freshly built twin holding the expected objects (read twice: repeat)"""
            t = newc()
            for o in want:
                t.add(o)
            a, b, r = _coll_obs(c, names), _coll_obs(c, names), _coll_obs(t, names)
            if a != b:
                bad('observables', 'repeat-differs', where)
            if a != r:
                bad('observables', 'differs-from-fresh-twin', where)
        objs = [mk(k) for k in range(6)]
        # --- construction from a list the caller keeps and mutates afterwards
        for n in range(0, 4):
            lst = objs[:n]
            snap = list(lst)
            c = newc(lst)
            if lst != snap:
                bad('__init__', 'modifies-caller-list', f'n={n}')
            if c.objects is lst:
                bad('__init__', 'aliases-caller-list', f'n={n}')
            lst.append(objs[5])
            lst[:1] = []
            twin_eq(c, snap, f'constructor list mutated afterwards (n={n})')
            ctx.case({'probe': 'ctor-alias', 'class': label, 'n': n})
        # --- sequence / collection operands are inputs and are not kept
        for opname in ('add', 'iadd', 'plus'):
            x, y = newc(objs[:2]), newc(objs[2:4])
            seq = [objs[4], objs[5]]
            for other, want_add in ((seq, list(seq)), (y, list(y.objects))):
                before_other = list(other) if isinstance(other, list) else _coll_obs(other, names)
                xb = list(x.objects)
                if opname == 'add':
                    x.add(other)
                    res, want = x, xb + want_add
                elif opname == 'iadd':
                    x += other
                    res, want = x, xb + want_add
                else:
                    res, want = x + other, xb + want_add
                    twin_eq(x, xb, f'left operand after x + {type(other).__name__}')
                after_other = list(other) if isinstance(other, list) else _coll_obs(other, names)
                if before_other != after_other:
                    bad(opname, 'modifies-right-operand', type(other).__name__)
                twin_eq(res, want, f'{opname} {type(other).__name__}')
                # mutate the operand afterwards: the result must not follow
                if isinstance(other, list):
                    other.clear()
                else:
                    other.pop()
                twin_eq(res, want, f'{opname}: right operand mutated afterwards')
                x = newc(objs[:2])
                ctx.case({'probe': 'operand-input', 'class': label, 'op': opname})
        # --- the same collection on both sides
        x = newc(objs[:3])
        r = x + x
        twin_eq(x, objs[:3], 'x after x + x')
        twin_eq(r, objs[:3] + objs[:3], 'x + x')
        x += x
        twin_eq(x, objs[:3] + objs[:3], 'x += x')
        # --- pop with every in-range / out-of-range / negative index against a list oracle, all observables
        #     read before the mutation as well
        for n in range(0, 5):
            for idx in list(range(-n - 2, n + 2)) + [None, 'name']:
                c = newc(objs[:n])
                want = objs[:n]
                _coll_obs(c, names)
                try:
                    if idx is None:
                        exp = want[-1] if want else IndexError
                        key = None
                    elif idx == 'name':
                        key = f'n{n // 2}'
                        exp = want[n // 2] if n > 0 else KeyError
                    else:
                        key = idx
                        exp = want[idx] if -n <= idx < n else IndexError
                    got = c.pop(key) if key is not None else c.pop()
                except Exception as ex:
                    got = type(ex)
                if got is not exp:
                    bad('pop', 'wrong-object-or-error', f'n={n} index={idx}')
                if not isinstance(got, type):
                    want = [o for o in want if o is not got]
                twin_eq(c, want, f'after pop({idx}) on {n} objects')
                ctx.case({'probe': 'pop', 'class': label, 'n': n, 'idx': idx})
        # --- two instances built before first use, used alternately, observables read before every mutation
        for rep in range(ctx.budget(6, 40)):
            a, b = newc(), newc()
            wa, wb = [], []
            for step in range(12):
                for c, w, other in ((a, wa, b), (b, wb, a)):
                    _coll_obs(c, names)
                    _coll_obs(other, names)
                    r = rng.random()
                    if r < 0.5 or not w:
                        o = rng.choice([o for o in objs if o not in w] or objs)
                        if o in w:
                            continue
                        c.add(o)
                        w.append(o)
                    elif r < 0.8:
                        i = rng.randrange(-len(w), len(w))
                        got = c.pop(i) if rng.random() < 0.5 else c.pop(w[i].name)
                        if got is not w[i]:
                            bad('pop', 'wrong-object-or-error', f'alternating instances, index {i}')
                        del w[i]
                    else:
                        nl = c.name_list
                        nl.append('intruder')          # returned values are owned by the caller
                        cp = c.copy()
                        cp.add(rng.choice([o for o in objs if o not in w] or [mk(9)])) if len(w) < 6 else None
                    twin_eq(c, w, 'alternating instances (own history)')
                twin_eq(a, wa, 'alternating instances: first instance after a step on the second')
            ctx.case({'probe': 'two-instances', 'class': label, 'rep': rep})
    # plain ObjectCollection: constructor / operand aliasing
    lst = [1, 2, 3]
    oc = ObjectCollection(lst, obj_type=int)
    lst.append(4)
    oc2 = oc + [5]
    if list(oc.objects) != [1, 2, 3] or list(oc2.objects) != [1, 2, 3, 5] or oc.objects is lst:
        ctx.violation('ObjectCollection.__init__', 'aliases-caller-list', 'list mutated afterwards shows in the collection',
                      case={'kind': 'probe', 'part': 'collections', 'class': 'ObjectCollection'})


def probe_keys(ctx):
    from skyllh.core.py import make_dict_hash
    from skyllh.core.pdf import PDFSet, PDF, PDFAxes, PDFAxis
    from skyllh.core.config import Config

    class P(PDF):
        def __init__(self, pid, axes):
            self.pid = pid
            self._ax = axes

        @property
        def axes(self):
            return self._ax

        def assert_is_valid_for_trial_data(self, *a, **k):
            pass

        def get_pd(self, *a, **k):
            pass
    case = {'kind': 'probe', 'part': 'keys'}
    # make_dict_hash: a function of the CURRENT content; the argument is an input
    d = {'a': 1.0, 'b': 2.0}
    h1, h1b = make_dict_hash(d), make_dict_hash(d)
    make_dict_hash({'zz': 5})
    if h1 != h1b or h1 != make_dict_hash(d) or d != {'a': 1.0, 'b': 2.0}:
        ctx.violation('make_dict_hash', 'repeat-differs-or-modifies-argument', 'same dictionary hashed three times', case=case)
    d['a'] = 3.0
    if make_dict_hash(d) != make_dict_hash({'b': 2.0, 'a': 3.0}) or make_dict_hash(d) == h1:
        ctx.violation('make_dict_hash', 'stale-after-dictionary-mutation',
                      'hash of a mutated dictionary differs from the hash of a fresh equal one', case=case)
    del d['b']
    if make_dict_hash(d) != make_dict_hash({'a': 3.0}):
        ctx.violation('make_dict_hash', 'stale-after-dictionary-mutation', 'after del', case=case)
    for _ in range(50):       # short-lived dictionaries (re-used ids)
        t = {'k': _}
        if make_dict_hash(t) != make_dict_hash({'k': _}):
            ctx.violation('make_dict_hash', 'stale-after-dictionary-mutation', 'short-lived dictionaries', case=case)
    # PDFSet: two instances built before first use, alternately; key dictionaries mutated afterwards
    ax = PDFAxes([PDFAxis('a', 0, 1)])
    cfg = Config()
    s1, s2 = PDFSet(param_grid_set=None, cfg=cfg), PDFSet(param_grid_set=None, cfg=cfg)
    p1, p2, p3 = P(1, ax), P(2, ax), P(3, ax)
    g = {'gamma': 2.0, 'e': 1.0}
    s1.add_pdf(p1, g)
    if g != {'gamma': 2.0, 'e': 1.0}:
        ctx.violation('PDFSet.add_pdf', 'modifies-gridparams-argument', str(g), case=case)
    if (g in s2) or len(s2.pdf_keys) != 0 or list(s2.values()):
        ctx.violation('PDFSet', 'state-shared-between-instances', 'a PDF added to one set is visible in another', case=case)
    try:
        s2.add_pdf(p2, g)
        ok = s1.get_pdf(g) is p1 and s2.get_pdf(g) is p2 and s1.get_pdf(dict(reversed(list(g.items())))) is p1
    except Exception:
        ok = False
    if not ok:
        ctx.violation('PDFSet', 'state-shared-between-instances', 'two sets used alternately with the same key', case=case)
    g['gamma'] = 3.0          # the caller re-uses and mutates the dictionary object used as key
    try:
        ok = (s1.get_pdf({'gamma': 2.0, 'e': 1.0}) is p1 and s1.get_pdf({'e': 1.0, 'gamma': 2.0}) is p1
              and (g not in s1) and ({'gamma': 2.0, 'e': 1.0} in s1))
        s1.add_pdf(p3, g)
        ok = ok and s1.get_pdf(g) is p3 and s1.get_pdf({'gamma': 3.0, 'e': 1.0}) is p3 \
            and s1.get_pdf({'gamma': 2.0, 'e': 1.0}) is p1 and s2.get_pdf({'gamma': 2.0, 'e': 1.0}) is p2 \
            and ({'gamma': 3.0, 'e': 1.0} not in s2)
    except Exception:
        ok = False
    if not ok:
        ctx.violation('PDFSet.get_pdf', 'lookup-follows-mutated-key-dictionary',
                      'lookup after the dictionary object used in add_pdf was mutated', case=case)
    k1 = s1.pdf_keys
    k1.append(0)
    r1, r2 = s1.get_pdf(g), s1.get_pdf(g)
    if len(s1.pdf_keys) != 2 or r1 is not r2 or s1.make_key(g) != s1.make_key(dict(g)) or g != {'gamma': 3.0, 'e': 1.0}:
        ctx.violation('PDFSet', 'repeat-differs-or-returned-list-aliased', 'pdf_keys / get_pdf / make_key repeated', case=case)
    ctx.case({'probe': 'keys'})


def probe_stages(ctx):
    import numpy as np
    from skyllh.core.datafields import DataFieldStages as DFS, DataFields
    case = {'kind': 'probe', 'part': 'stages'}
    seqs = [[0], [0, 0], [3], [3, 12], [15, 0], [5, 10], [1, 2, 4, 8], [], [6, 6], [0, 7, 0]]
    for s in range(16):
        for ms in seqs:
            want = (all(bits_and(s, m) for m in ms), any(bits_or(s, m) for m in ms))
            for flavour in ('list', 'tuple', 'ndarray', 'npint-elems', 'npint-stage'):
                if flavour == 'ndarray' and not ms:
                    continue
                arg = {'list': list(ms), 'tuple': tuple(ms), 'ndarray': np.array(ms, dtype=np.int64),
                       'npint-elems': [np.int64(m) for m in ms], 'npint-stage': list(ms)}[flavour]
                st = np.int64(s) if flavour == 'npint-stage' else s
                snap = arg.copy() if isinstance(arg, np.ndarray) else list(arg)
                got = []
                for _ in range(2):             # repeat with the SAME argument object, interleaved with other calls
                    got.append((bool(DFS.and_check(st, arg)), bool(DFS.or_check(st, arg))))
                    DFS.and_check(15 - s, [1, 2])
                    DFS.or_check(s, 5)
                same = np.array_equal(arg, snap) if isinstance(arg, np.ndarray) else list(arg) == snap
                if not same:
                    ctx.violation('DataFieldStages.and_check', 'modifies-stages-argument', f'{flavour} {ms}', case=case)
                if got[0] != got[1]:
                    ctx.violation('DataFieldStages.and_check', 'repeat-differs', f'stage {s} {flavour} {ms}', case=case)
                if got[0] != want:
                    ctx.violation('DataFieldStages.and_check', 'sequence-not-all' if got[0][0] != want[0] else 'sequence-not-any',
                                  f'stage {s} {flavour} {ms}: {got[0]}', case=dict(case, stage=s, stages=ms, flavour=flavour))
                ctx.evaluations += 1
        for m in (0, 3, 5, 12, 15):            # int masks incl. 0 and multi-bit, numpy stage
            if (bool(DFS.and_check(np.int64(s), m)), bool(DFS.or_check(np.int64(s), m))) != (bits_and(s, m), bits_or(s, m)):
                ctx.violation('DataFieldStages.and_check', 'not-bitwise-all', f'numpy stage {s} mask {m}', case=case)
    fields = {'time': 1, 'dec': 6, 'c': 0, 'ra': 8, 'ang_err': 2}
    snap = dict(fields)
    r1 = DataFields.get_joint_names(fields, [2, 8])
    r1.append('x')
    r2 = DataFields.get_joint_names(fields, (2, 8))
    if r2 != ['dec', 'ra', 'ang_err']:
        ctx.violation('DataFields.get_joint_names', 'wrong-fields-or-order', f'{r2}: not the declaration order', case=case)
    # the stage constants are distinct single bits
    consts = [DFS.DATAPREPARATION_EXP, DFS.DATAPREPARATION_MC, DFS.ANALYSIS_EXP, DFS.ANALYSIS_MC]
    for i, a in enumerate(consts):
        for j, b in enumerate(consts):
            if not isinstance(a, int) or a <= 0 or a & (a - 1) or bool(DFS.or_check(a, b)) != (i == j) \
                    or bool(DFS.and_check(a, b)) != (i == j):
                ctx.violation('DataFieldStages', 'stage-constants-not-distinct-single-bits', f'{consts}', case=case)
    if fields != snap or list(fields) != list(snap) or DataFields.get_joint_names(fields, 0) != []:
        ctx.violation('DataFields.get_joint_names', 'modifies-argument-or-returned-list-aliased', str(r2), case=case)
    ctx.case({'probe': 'stages'})


CONFIG_MEMBERS = ['disable_tracing', 'enable_tracing', 'from_dict', 'from_yaml', 'get_wd', 'is_tracing_enabled',
                  'set_enable_tracing', 'set_internal_units', 'set_ncpu', 'set_wd', 'to_internal_time_unit', 'wd_filename']
CONFIG_DUNDERS_OK = {'__module__', '__qualname__', '__doc__', '__init__', '__dict__', '__weakref__', '__firstlineno__',
                     '__static_attributes__', '__annotations__', '__orig_bases__', '__parameters__'}


def usnap_yaml():
    return {'debugging': {'enable_tracing': True, 'log_format': 'y'}, 'extra': {'deep': {'x': 1}},
            'project': {'working_directory': '/y'}}


def probe_config(ctx):
    import copy
    import sys
    from astropy import units
    from skyllh.core import config
    case = {'kind': 'probe', 'part': 'config'}
    pristine = copy.deepcopy(config._BASECONFIG)
    saved_path = list(sys.path)

    def observe(c):
        def rc(f):
            try:
                return f()
            except Exception as ex:
                return type(ex).__name__
        return [copy.deepcopy(dict(c)), rc(lambda: c.is_tracing_enabled), rc(c.get_wd), rc(lambda: c.wd_filename('f.txt')),
                rc(lambda: c.to_internal_time_unit(units.day))]
    edits = [lambda c: c.enable_tracing(), lambda c: c.set_ncpu(3), lambda c: c.set_wd('/tmp/c20-a'),
             lambda c: c.set_internal_units(time_unit=units.day, angle_unit=units.deg),
             lambda c: c['project'].__setitem__('working_directory', '/tmp/c20-b'),
             lambda c: c['units']['internal'].__setitem__('time', units.h),
             lambda c: c.set_enable_tracing(False), lambda c: c['datafields'].__setitem__('run', 15),
             lambda c: c.set_wd(None), lambda c: c.disable_tracing()]
    try:
        # template pollution: instances created before / between / after the edits of another instance
        before = config.Config()
        a = config.Config()
        done = []
        for i, e in enumerate(edits):
            observe(a)                        # every observable read BEFORE the mutation
            ob = observe(before)
            e(a)
            done.append(e)
            twin = config.Config()            # a fresh instance made after the edits ...
            if dict(twin) != pristine or config._BASECONFIG != pristine:
                ctx.violation('Config.__init__', 'template-polluted-by-other-instance',
                              f'Config() differs from the base configuration after edit {i} of another instance', case=case)
            if observe(before) != ob:
                ctx.violation('Config', 'edit-visible-in-other-instance', f'edit {i} changed an instance created before', case=case)
            for d in done:                    # ... replays the history: a must equal its fresh twin
                d(twin)
            o1, o2, ot = observe(a), observe(a), observe(twin)
            if o1 != o2:
                ctx.violation('Config', 'repeat-differs', f'observables read twice after edit {i}', case=case)
            if o1 != ot:
                ctx.violation('Config', 'differs-from-fresh-twin', f'after edit {i}: observables differ from a fresh instance '
                              'with the same edit history', case=case)
            if set(dict_ids(a)) & (set(dict_ids(twin)) | set(dict_ids(before)) | set(dict_ids(config._BASECONFIG))):
                ctx.violation('Config', 'instances-share-mutable-state', f'after edit {i}', case=case)
            ctx.case({'probe': 'config-edit', 'i': i})
        # from_dict: nested user dictionaries mutated afterwards; the argument is an input
        user = {'debugging': {'enable_tracing': True}, 'extra': {'deep': {'x': [1, 2]}}, 'project': {'working_directory': '/u'}}
        usnap = copy.deepcopy(user)
        c1 = config.Config.from_dict(user)
        if user != usnap:
            ctx.violation('Config.from_dict', 'modifies-user-dictionary', '', case=case)
        o1 = observe(c1)
        user['debugging']['enable_tracing'] = False
        user['extra']['deep']['x'].append(3)
        user['extra']['deep']['y'] = 1
        del user['project']['working_directory']
        c2 = config.Config.from_dict(usnap)
        if observe(c1) != o1 or observe(c1) != observe(c2):
            ctx.violation('Config.from_dict', 'follows-user-dictionary-mutated-afterwards', '', case=case)
        c1['extra']['deep']['x'].append(9)
        c1.disable_tracing()
        fresh = config.Config()
        if user['extra']['deep']['x'] != [1, 2, 3] or usnap['extra']['deep']['x'] != [1, 2] or dict(fresh) != pristine \
                or c2['extra']['deep']['x'] != [1, 2] or c2.is_tracing_enabled is not True:
            ctx.violation('Config.from_dict', 'edit-visible-in-user-dictionary-or-other-instance', '', case=case)
        ctx.case({'probe': 'config-from-dict'})
        # from_yaml: two instances from ONE file, edits of one, a third one afterwards
        import tempfile
        import yaml
        with tempfile.NamedTemporaryFile('w', suffix='.yaml', delete=False) as fh:
            yaml.safe_dump(usnap_yaml(), fh, sort_keys=False)
        try:
            y1 = config.Config.from_yaml(fh.name)
            y2 = config.Config.from_yaml(fh.name)
            oy = observe(y2)
            ref = observe(config.Config.from_dict(usnap_yaml()))
            if observe(y1) != ref or oy != ref:
                ctx.violation('Config.from_yaml', 'content-differs-from-from_dict-of-the-file-content', '', case=case)
            for e in edits:
                e(y1)
            y1['debugging']['log_format'] = 'edited'
            y1['extra']['deep']['x'] = 'edited'
            y3 = config.Config.from_yaml(fh.name)
            if observe(y2) != oy or observe(y3) != ref:
                ctx.violation('Config.from_yaml', 'edit-visible-in-other-instance-from-the-same-file',
                              'an edit of one instance shows in another instance loaded from the same YAML file', case=case)
            if set(dict_ids(y1)) & (set(dict_ids(y2)) | set(dict_ids(y3))) or set(dict_ids(y2)) & set(dict_ids(y3)):
                ctx.violation('Config.from_yaml', 'instances-share-mutable-state', 'instances from one YAML file share a dictionary', case=case)
            if dict(config.Config.from_yaml(None)) != pristine:
                ctx.violation('Config.from_yaml', 'template-polluted-by-other-instance', 'from_yaml(None) != base configuration', case=case)
        finally:
            os.unlink(fh.name)
        ctx.case({'probe': 'config-from-yaml'})
        # hidden per-instance state and the list of public members this check knows (fail when it is stale)
        for c in (a, before, c1, y1):
            if vars(c):
                ctx.violation('Config', 'hidden-instance-attributes', f'{sorted(vars(c))}: state outside the dictionary content',
                              case=case)
        members = sorted(n for n in vars(config.Config) if not n.startswith('__'))
        dunders = sorted(n for n in vars(config.Config) if n.startswith('__') and n not in CONFIG_DUNDERS_OK)
        if members != CONFIG_MEMBERS or dunders:
            ctx.violation('Config', 'public-member-not-covered-by-the-check',
                          f'Config defines {sorted(set(members) ^ set(CONFIG_MEMBERS)) + dunders}: the list of mutators / accessors of '
                          'harness/c20.py (CONFIG_MEMBERS, cfg_edits, probe_config, model cmut) must be extended first', case=case)
        # what IS promised for copies: copy.deepcopy(cfg) and any copy method Config itself defines give an
        # independent instance (copy.copy(cfg) / dict.copy() are Python's shallow copies the user asks for: not checked)
        src = config.Config()
        src.set_ncpu(7)
        osrc = observe(src)
        copies = [('copy.deepcopy', copy.deepcopy(src))]
        for meth in ('copy', '__copy__', '__deepcopy__'):
            if meth in vars(config.Config):            # only methods defined by Config itself
                copies.append((f'Config.{meth}', getattr(src, meth)() if meth != '__deepcopy__' else src.__deepcopy__({})))
        for label, cp in copies:
            if observe(cp)[0] != osrc[0]:
                ctx.violation(label, 'copy-differs-from-original', 'the copy does not have the content of the original', case=case)
            if set(dict_ids(cp)) & (set(dict_ids(src)) | set(dict_ids(config._BASECONFIG))):
                ctx.violation(label, 'instances-share-mutable-state', 'the copy shares a dictionary with the original', case=case)
            for e in edits:
                e(cp)
            if observe(src) != osrc:
                ctx.violation(label, 'edit-visible-in-other-instance', 'an edit of the copy shows in the original', case=case)
        ctx.case({'probe': 'config-deepcopy'})
        if dict(config.Config()) != pristine:
            ctx.violation('Config.__init__', 'template-polluted-by-other-instance', 'after the copy probe', case=case)
    finally:
        sys.path[:] = saved_path


def probe_datasets(ctx):
    from skyllh.core.dataset import Dataset, DatasetCollection
    from skyllh.core.config import Config
    case = {'kind': 'probe', 'part': 'datasets'}
    cfg = Config()

    def ds(n):
        return Dataset(cfg=cfg, name=n, exp_pathfilenames=None, mc_pathfilenames=None, livetime=1.0,
                       default_sub_path_fmt='x', version=1)
    a, b = DatasetCollection('a'), DatasetCollection('b')
    d1, d2, d3 = ds('d1'), ds('d2'), ds('d1')
    lst = [d1, d2]
    a.add_datasets(lst)
    if lst != [d1, d2] or b.dataset_names != [] or a.dataset_names != ['d1', 'd2']:
        ctx.violation('DatasetCollection', 'state-shared-between-instances-or-argument-modified', 'after add_datasets', case=case)
    lst.clear()
    try:
        b += d3                                   # same name as d1, other collection: must be accepted
        ok = b.get_dataset('d1') is d3 and a.get_dataset('d1') is d1 and a['d2'] is d2 and a.dataset_names == ['d1', 'd2']
        nl = a.dataset_names
        nl.append('x')
        got = a.get_datasets(['d2', 'd1'])
        got.clear()
        a.remove_dataset('d1')
        ok = ok and a.dataset_names == ['d2'] and b.dataset_names == ['d1'] and b.get_dataset('d1') is d3
    except Exception:
        ok = False
    if not ok:
        ctx.violation('DatasetCollection', 'state-shared-between-instances', 'two collections used alternately', case=case)
    ctx.case({'probe': 'datasets'})


# ============================================================== Extension: ModelCollection.cast
def run_cast(ctx):
    """ModelCollection.cast on the real class after a history on x, y, z, against M_Coll.mc_cast"""
    from skyllh.core.model import ModelCollection
    rng = ctx.rng
    cases = [([('add', 0), ('add', 1)], ('x',)), ([], ('none',)), ([('add', 0)], ('obj', 2)), ([('add', 0)], ('obj', 7)),
             ([('add', 1)], ('seq', (2, 0))), ([], ('seq', ())), ([('add', 1)], ('seq', (2, 7))), ([], ('other', 5)),
             ([('add', 0), ('popn', 0)], ('x',)), ([('add', 3)], ('other', 'name')), ([], ('seq', (5, 6))), ([('add', 0)], ('tuple', (1, 2)))]
    for _ in range(ctx.budget(60, 600)):
        h = random_history(rng, rng.randrange(0, 6))
        r = rng.random()
        if r < 0.2:
            k = ('x',)
        elif r < 0.3:
            k = ('none',)
        elif r < 0.5:
            k = ('obj', rng.randrange(9))
        elif r < 0.85:
            k = (rng.choice(['seq', 'tuple']), tuple(rng.randrange(9) for _ in range(rng.randrange(0, 4))))
        else:
            k = ('other', rng.choice([5, 2.5, 'abc']))
        cases.append((h, k))
    terms, impl = [], []
    for h, k in cases:
        impl.append(cast_impl(ctx, h, k))
        ctx.case({'cast': k, 'hist': h})
        ctx.count('cast:' + k[0])
        gk = {'x': 'KX', 'none': 'KNone', 'other': 'KOther'}.get(k[0])
        if k[0] == 'obj':
            gk = f'(KObj {gobj(k[1])})'
        elif k[0] in ('seq', 'tuple'):
            gk = '(KSeq [' + '; '.join(gobj(j) for j in k[1]) + '])'
        terms.append(f'cast_trace {gops(h)} {gk}')
    if not ctx.model_ok:
        return
    try:
        vals = common.coq_eval('c20x', IMPORTS, terms)
    except RuntimeError as ex:
        ctx.broken.append({'kind': 'model-eval', 'error': str(ex)[:1500]})
        return
    for (h, k), a, b in zip(cases, impl, vals):
        ctx.corr_cases += 1
        if list(b) != a:
            ctx.disagree('ModelCollection.cast', {'kind': 'cast', 'ops': h, 'arg': k}, a, list(b))


def cast_impl(ctx, h, k):
    """run one case on the implementation; the independent predicate is evaluated here"""
    from skyllh.core.model import ModelCollection
    w = World('model')
    run_prefix(w, h)
    x = w.v[0]
    before = w._contents(x)
    xobjs = list(x.objects)
    case = {'kind': 'cast', 'ops': h, 'arg': k}
    if k[0] == 'x':
        arg, want = x, 'same'
    elif k[0] == 'none':
        arg, want = None, []
    elif k[0] == 'obj':
        arg = w.objs[k[1]]
        want = [arg] if OBJ_TABLE[k[1]][1] != 'CForeign' else TypeError
    elif k[0] in ('seq', 'tuple'):
        lst = [w.objs[j] for j in k[1]]
        arg = lst if k[0] == 'seq' else tuple(lst)
        want = list(lst) if all(OBJ_TABLE[j][1] != 'CForeign' for j in k[1]) else TypeError
    else:
        arg, want = k[1], TypeError
    try:
        c = ModelCollection.cast(arg)
        if want is TypeError:
            ctx.violation('ModelCollection.cast', 'accepts-a-non-model', f'cast({k}) returned a collection', case=case)
        elif want == 'same':
            if c is not x:
                ctx.violation('ModelCollection.cast', 'collection-not-returned-as-is', 'cast(collection) is not the collection', case=case)
        else:
            if c is x or c._objects is x._objects or (isinstance(arg, list) and c._objects is arg) \
                    or len(c.objects) != len(want) or any(p is not q for p, q in zip(c.objects, want)) \
                    or c.name_list != [o.name for o in want if True][:len(c.name_list)] and len({o.name for o in want}) == len(want):
                ctx.violation('ModelCollection.cast', 'wrong-objects-or-not-a-new-collection', f'cast({k})', case=case)
        out = [1 if c is x else 2] + w.obs_coll(c) + [-8] + w.obs_coll(x)
    except Exception as ex:
        if want is not TypeError or not isinstance(ex, TypeError):
            ctx.violation('ModelCollection.cast', f'rejects-a-legal-argument-{type(ex).__name__}', f'cast({k})', case=case)
        out = [-errcode(ex)]
    if w._contents(x) != before or any(p is not q for p, q in zip(x.objects, xobjs)):
        ctx.violation('ModelCollection.cast', 'modifies-an-existing-collection', f'cast({k})', case=case)
    return out


# ============================================================== driver
def run(ctx):
    import time
    for name, part in (('probes', run_probes), ('stages', run_stages), ('hash', run_hash), ('datasets', run_datasets), ('cast', run_cast),
                       ('collections', run_collections), ('config', run_config)):
        t = time.time()
        part(ctx)
        ctx.notes.append(f'{name}: {time.time() - t:.1f}s (started {t - ctx.t0:.1f}s after the check began)')
    if not ctx.model_ok:
        ctx.notes.append('model did not build: implementation-only predicates were evaluated')


def replay_stage(ctx, c):
    from skyllh.core.datafields import DataFieldStages as DFS
    s_, a = c['stage'], c['stages']
    ms = [a] if isinstance(a, int) else list(a)
    try:
        got = (int(DFS.and_check(s_, a)), int(DFS.or_check(s_, a)))
    except Exception as ex:
        got = (-errcode(ex), -errcode(ex))
    ctx.case(c)
    if True:
        want = (int(all(bits_and(s_, m) for m in ms)), int(any(bits_or(s_, m) for m in ms)))
        if got[0] != want[0]:
            ctx.violation('DataFieldStages.and_check', 'not-bitwise-all' if isinstance(a, int) else 'sequence-not-all',
                          f'and_check({s_}, {a}) = {got[0]}', case=c, impl=got)
        if got[1] != want[1]:
            ctx.violation('DataFieldStages.or_check', 'not-bitwise-any' if isinstance(a, int) else 'sequence-not-any',
                          f'or_check({s_}, {a}) = {got[1]}', case=c, impl=got)
    if ctx.model_ok:
        g = f'(SInt {zlit(a)})' if isinstance(a, int) else f'(SSeq {zlist(ms)})'
        mv = common.coq_eval('c20r', IMPORTS, [f'(resb (and_check {zlit(s_)} {g}), resb (or_check {zlit(s_)} {g}))'])[0]
        ctx.corr_cases += 1
        if tuple(mv) != got:
            ctx.disagree('DataFieldStages', c, got, tuple(mv))


def replay(ctx, rp):
    c = rp.get('case') or {}
    kind = c.get('kind')
    if kind == 'coll' and 'ops' in c:
        ops = [tuple(tuple(x) if isinstance(x, list) else x for x in o) for o in c['ops']]
        compare_histories(ctx, [ops], [c.get('variant', 'noc')])
        return
    if kind == 'stage' and 'stage' in c:
        return replay_stage(ctx, c)
    if kind in ('hash', 'pdfset'):
        return run_hash(ctx)
    if kind == 'joint':
        return run_stages(ctx)
    if kind == 'cfg':
        return run_config(ctx)
    if kind == 'dataset':
        return run_datasets(ctx)
    if kind == 'probe':
        return run_probes(ctx)
    if kind == 'cast':
        ops = [tuple(tuple(x) if isinstance(x, list) else x for x in o) for o in c.get('ops', [])]
        k = tuple(tuple(x) if isinstance(x, list) else x for x in c['arg'])
        a = cast_impl(ctx, ops, k)
        ctx.case(c)
        if ctx.model_ok:
            gk = {'x': 'KX', 'none': 'KNone', 'other': 'KOther'}.get(k[0])
            if k[0] == 'obj':
                gk = f'(KObj {gobj(k[1])})'
            elif k[0] in ('seq', 'tuple'):
                gk = '(KSeq [' + '; '.join(gobj(j) for j in k[1]) + '])'
            b = common.coq_eval('c20xr', IMPORTS, [f'cast_trace {gops(ops)} {gk}'])[0]
            ctx.corr_cases += 1
            if list(b) != a:
                ctx.disagree('ModelCollection.cast', c, a, list(b))
        return
    ctx.notes.append('replay: no single input in the file (broken obligation); re-running the full check')
    run(ctx)
