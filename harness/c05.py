"""C05 — event selection keeps exactly the qualifying pairs with a valid index map.

Correspondence: the real skyllh event selection classes (All, DecBand, RABand,
SpatialBox, PsiFunc, AngErrOfPsi, `&`) on a real SourceHypoGroupManager /
PointLikeSource list, and the real TrialDataManager.initialize_trial, against
coq/model/M_Select.v evaluated by vm_compute.  The model is parametric in the
(source, event) criterion of each atomic method; the harness supplies the
criterion as a literal boolean matrix computed by an independent float oracle
(written from the documentation, see `crit_*`), so that the compared outputs
(selected events, pair table, original indices, error kinds) are discrete and
compared exactly.  Float-fragile decisions (RA distance / psi within 1e-9 of
the threshold) are rejected at generation time and counted.

Predicates (failing-input search): on every implementation result the property
is evaluated directly against the oracle: selected = original-order filter,
pairs = exactly the qualifying pairs, strictly ascending by (source, event),
indices into the returned events, original indices map back; after
initialize_trial every pair points at an event that qualifies for its source."""
import math

import numpy as np

from harness import common

GEN_MODULES = ['select']
MODEL_TARGETS = ['model/M_Select.vo', 'model/M_SelectNum.vo', 'model/M_SelectTdm.vo', 'spec/S_Select.vo']
PROOF_TARGETS = ['proofs/P_Select.vo', 'proofs/P_SelectNum.vo', 'proofs/P_SelectTdm.vo']
LEVEL = 'proof'
RULE = ('1..200 sources (incl. 127/128/129/200 around the 128-source batching boundary; poles, RA 0 / 2pi) x 0..2000 events '
        '(near sources, exactly on declination band edges, poles, RA wrap-around, none / all selected), opening angles in '
        '(0, pi], every method (All, DecBand, RABand, SpatialBox, PsiFunc, AngErrOfPsi) and intersections of 2-3 methods '
        'in every order, with / without an index field in TrialDataManager.initialize_trial, plus a malformed stream '
        '(hand-given incoming tables: partial, unsorted, duplicated, negative, out of range; PsiFunc with != 1 source); '
        'a case is one (sources, events, method tree, sort flag) and is non-trivial when it has >= 1 source; distinct by hash')
TRUSTED = [
    'Coq 8.16.1 kernel incl. vm_compute (no native_compute)',
    'theorems closed under the global context (no axioms); C05_tdm_sort / C05_tdm_nosel have the premise '
    '"argsort returns a permutation of 0..n-1" (contract of np.argsort)',
    'translator/py2coq.py: per-element reading of the numpy expressions of event_selection.py, trialdata.py, '
    'utils/coords.py (kernels of G_select.v), pinned by the K_* lemmas of P_Select.v / P_SelectNum.v',
    'hand model M_Select.v of the numpy plumbing (np.any, boolean column selection, np.argwhere row-major order, '
    'fancy-index assignment, np.take, scipy csr_matrix duplicate handling, slicing of the 128-source batches), '
    'validated on every run by this correspondence',
    'the criteria enter the discrete model as boolean matrices: the translated formulas (M_SelectNum.v over G_select.v) '
    'extracted to OCaml (ExtrOcamlBasic only) and run on IEEE doubles by ocaml/c05/driver.ml + ocaml/common/numf.ml '
    '(hand-written float record, trusted); theorems about the formulas are at the real-number reading (P_SelectNum.v), '
    'float rounding near a threshold is outside the theorems (such cases are rejected by the generator and counted)',
    'the independent float oracle of the predicates (crit_dec / crit_ra / crit_angerr / vincenty in harness/c05.py)',
    'events are identified by their index; DataFieldRecordArray row selection / sort_by_field are read as list operations',
]

IMPORTS = ('From Coq Require Import ZArith List. Import ListNotations. Open Scope Z_scope.\n'
           'From Sky Require Import Result PyList G_select M_Select M_SelectTdm.\n')

PI = math.pi
TWO_PI = 2 * math.pi
HALF_PI = math.pi / 2
FRAG = 1e-9
FRAG_PSI = 1e-7

_shg_cache = {}


# ------------------------------------------------------------------ oracle

def dec_band(sdec, delta):
    return max(-HALF_PI, sdec - delta), min(sdec + delta, HALF_PI)


def crit_dec(src, ev, delta):
    """declination within delta of the source's (open interval; the same float expressions as the
    documented band edges dec -/+ delta, so the comparison is exact).  An event at a pole is inside
    the band of a source whose band reaches the pole."""
    lo, hi = src[1] - delta, src[1] + delta
    return (lo < ev[1] < hi), math.inf


def dra_half(sdec, delta):
    lo, hi = dec_band(sdec, delta)
    cosfact = min(math.cos(lo), math.cos(hi))
    return min(TWO_PI, abs(delta / cosfact))


def crit_ra(src, ev, delta):
    """distance in right ascension on the circle smaller than the half width"""
    d = math.fmod(abs(ev[0] - src[0]), TWO_PI)
    d = min(d, TWO_PI - d)
    h = dra_half(src[1], delta)
    return d < h, abs(d - h)


def crit_box(src, ev, delta):
    a, ma = crit_ra(src, ev, delta)
    b, mb = crit_dec(src, ev, delta)
    return (a and b), (ma if b else math.inf)


def vincenty(ra1, dec1, ra2, dec2):
    dl = ra2 - ra1
    num = math.hypot(math.cos(dec2) * math.sin(dl),
                     math.cos(dec1) * math.sin(dec2) - math.sin(dec1) * math.cos(dec2) * math.cos(dl))
    den = math.sin(dec1) * math.sin(dec2) + math.cos(dec1) * math.cos(dec2) * math.cos(dl)
    return math.atan2(num, den)


def crit_angerr(src, ev, a, b, floor):
    psi = vincenty(src[0], src[1], ev[0], ev[1])
    f = a * psi + b
    m = min(abs(ev[2] - f), abs(psi - floor))
    return (ev[2] >= f) or (psi < floor), m * (FRAG / FRAG_PSI)


def crit_psifunc(src, ev, coef):
    return ev[3] < coef * ev[2], math.inf


def atom_crit(spec, src, ev):
    k = spec[0]
    if k == 'all':
        return True, math.inf
    if k == 'dec':
        return crit_dec(src, ev, spec[1])
    if k == 'ra':
        return crit_ra(src, ev, spec[1])
    if k == 'box':
        return crit_box(src, ev, spec[1])
    if k == 'angerr':
        return crit_angerr(src, ev, spec[1], spec[2], spec[3])
    if k == 'psifunc':
        return crit_psifunc(src, ev, spec[1])
    raise ValueError(k)


def atoms(spec):
    if spec[0] == 'and':
        return atoms(spec[1]) + atoms(spec[2])
    return [spec]


def crit_matrices(spec, srcs, evs):
    """{id(atom): matrix} for every atomic method of the tree, and the smallest margin"""
    out = []
    margin = math.inf
    frag_events = set()
    for at in atoms(spec):
        M = []
        for s in srcs:
            row = []
            for j, e in enumerate(evs):
                c, m = atom_crit(at, s, e)
                row.append(bool(c))
                if m < FRAG:
                    frag_events.add(j)
                margin = min(margin, m)
            M.append(row)
        out.append(M)
    return out, margin, frag_events


def conj(mats):
    ns = len(mats[0])
    ne = len(mats[0][0]) if ns else 0
    return [[all(M[k][j] for M in mats) for j in range(ne)] for k in range(ns)]


def expected(crit, ns, ne):
    orig = [j for j in range(ne) if any(crit[k][j] for k in range(ns))]
    pairs = [(k, b) for k in range(ns) for b, j in enumerate(orig) if crit[k][j]]
    return orig, pairs


# ------------------------------------------------------------------ implementation

def build_shg(srcs):
    from skyllh.core.config import Config
    from skyllh.core.source_hypo_grouping import SourceHypoGroupManager, SourceHypoGroup
    from skyllh.core.source_model import PointLikeSource
    from skyllh.core.flux_model import SteadyPointlikeFFM, PowerLawEnergyFluxProfile
    from skyllh.core.detsigyield import DetSigYieldBuilder
    if 'cfg' not in _shg_cache:
        cfg = Config()

        class _B(DetSigYieldBuilder):
            def construct_detsigyield(self, *a, **k):
                return None
        fm = SteadyPointlikeFFM(Phi0=1, energy_profile=PowerLawEnergyFluxProfile(E0=1e3, gamma=2, cfg=cfg), cfg=cfg)
        _shg_cache['cfg'] = (cfg, fm, _B(cfg=cfg))
    cfg, fm, b = _shg_cache['cfg']
    sources = [PointLikeSource(ra=s[0], dec=s[1]) for s in srcs]
    # one, two or three source hypothesis groups (deterministic in the number of sources): the source
    # index of the methods / the manager is the position in the concatenation of the groups
    n = len(sources)
    if n >= 3 and n % 2 == 1:
        cuts = [1, 1 + (n - 1) // 2]
    elif n >= 2 and n % 4 == 0:
        cuts = [n // 2]
    else:
        cuts = []
    parts = [sources[a:b_] for a, b_ in zip([0] + cuts, cuts + [n])]
    return SourceHypoGroupManager([SourceHypoGroup(sources=part, fluxmodel=fm, detsigyield_builders=b)
                                   for part in parts])


def mk_events(evs):
    from skyllh.core.storage import DataFieldRecordArray
    arr = np.empty((len(evs),), dtype=[('ra', np.float64), ('dec', np.float64), ('ang_err', np.float64),
                                       ('psi', np.float64), ('time', np.float64), ('id', np.int64)])
    for i, e in enumerate(evs):
        arr[i] = (e[0], e[1], e[2], e[3], e[4], i)
    return DataFieldRecordArray(arr)


def build_method(spec, shg):
    from skyllh.core import event_selection as es
    k = spec[0]
    if k == 'all':
        return es.AllEventSelectionMethod(shg)
    if k == 'dec':
        return es.DecBandEventSectionMethod(shg, spec[1])
    if k == 'ra':
        return es.RABandEventSectionMethod(shg, spec[1])
    if k == 'box':
        return es.SpatialBoxEventSelectionMethod(shg, spec[1])
    if k == 'angerr':
        a, b = spec[1], spec[2]
        return es.AngErrOfPsiEventSelectionMethod(shg, func=lambda psi: a * psi + b, psi_floor=spec[3])
    if k == 'psifunc':
        c = spec[1]
        return es.PsiFuncEventSelectionMethod(shg, psi_name='psi', func=lambda ang_err: c * ang_err,
                                              axis_name_list=['ang_err'])
    if k == 'and':
        return build_method(spec[1], shg) & build_method(spec[2], shg)
    raise ValueError(k)


CLS = {'all': 'AllEventSelectionMethod', 'dec': 'DecBandEventSectionMethod', 'ra': 'RABandEventSectionMethod',
       'box': 'SpatialBoxEventSelectionMethod', 'angerr': 'AngErrOfPsiEventSelectionMethod',
       'psifunc': 'PsiFuncEventSelectionMethod'}


def shape(spec):
    if spec[0] == 'and':
        return '(' + shape(spec[1]) + '&' + shape(spec[2]) + ')'
    return spec[0]


def site_of(spec):
    if spec[0] == 'and':
        return 'IntersectionEventSelectionMethod.select_events[' + shape(spec) + ']'
    return CLS[spec[0]] + '.select_events'


def ints(a):
    return [int(x) for x in np.asarray(a).tolist()]


FIELDS = ('ra', 'dec', 'ang_err', 'psi', 'time')


def rows_equal(arr, ids, evs):
    """every column of every stored row is the column value of the original row with that id"""
    try:
        return (len(arr) == len(ids)
                and all(0 <= j < len(evs) and all(float(arr[f][b]) == evs[j][c] for c, f in enumerate(FIELDS))
                        for b, j in enumerate(ids)))
    except Exception:  # noqa: BLE001
        return False


def run_select(spec, srcs, evs, inc=None):
    """-> ['Ok', ids, pairs, orig] | ['Err', name]; also checks the call without ret_original_evt_idxs"""
    try:
        shg = build_shg(srcs)
        meth = build_method(spec, shg)
        events = mk_events(evs)
        kw = {}
        if inc is not None:
            kw['src_evt_idxs'] = (np.array([p[0] for p in inc], dtype=np.int64), np.array([p[1] for p in inc], dtype=np.int64))
        (sel, (si, ei), org) = meth.select_events(events, ret_original_evt_idxs=True, **kw)
        res = ['Ok', ints(sel['id']), list(zip(ints(si), ints(ei))), ints(org)]
        (sel2, (si2, ei2)) = meth.select_events(mk_events(evs), **kw)
        res2 = [ints(sel2['id']), list(zip(ints(si2), ints(ei2)))]
        same = (res2 == [res[1], res[2]])
        # the selected rows carry the data of the original rows
        rows_ok = rows_equal(sel, res[1], evs)
        return res, same, rows_ok
    except Exception as ex:  # noqa: BLE001
        return ['Err', type(ex).__name__], True, True


TDM_EXTRA = {}      # side observations of the last run_tdm: all columns, the stored index field, n_sources


def run_tdm(spec, srcs, evs, sort):
    from skyllh.core.trialdata import TrialDataManager
    try:
        shg = build_shg(srcs)
        meth = build_method(spec, shg) if spec is not None else None
        tdm = TrialDataManager(index_field_name='time' if sort else None)
        tdm.initialize_trial(shg, None, mk_events(evs), evt_sel_method=meth)
        (si, ei) = tdm.src_evt_idxs
        ids = ints(tdm.events['id'])
        TDM_EXTRA['rows_ok'] = rows_equal(tdm.events, ids, evs)
        TDM_EXTRA['times'] = [float(x) for x in tdm.events['time']]
        TDM_EXTRA['n_sources'] = int(tdm.n_sources)
        return ['Ok', ids, list(zip(ints(si), ints(ei)))]
    except Exception as ex:  # noqa: BLE001
        TDM_EXTRA.clear()
        return ['Err', type(ex).__name__]


# ------------------------------------------------------------------ model terms

def blit(b):
    return 'true' if b else 'false'


def mlit(M):
    return '[' + '; '.join('[' + '; '.join(blit(x) for x in row) + ']' for row in M) + ']'


def meth_term(spec, mats):
    """Gallina term of the method tree; consumes one matrix per atom (same order as atoms())"""
    k = spec[0]
    if k == 'and':
        a = meth_term(spec[1], mats)
        b = meth_term(spec[2], mats)
        return f'(MAnd {a} {b})'
    M = mats.pop(0)
    if k == 'all':
        return 'MAll'
    if k == 'dec':
        return f'(MBand KDec (lookup {mlit(M)}))'
    if k == 'ra':
        return f'(MBand KRA (lookup {mlit(M)}))'
    if k == 'box':
        Mra, Mrab, Mdec = M
        return f'(MBox sb_batch_size (lookup {mlit(Mra)}) (lookup {mlit(Mrab)}) (lookup {mlit(Mdec)}))'
    if k == 'angerr':
        return f'(MPair (lookup {mlit(M)}))'
    if k == 'psifunc':
        return f'(MPsi (lookup1 {mlit(M)[1:-1] if len(M) == 1 else "[]"}))'
    raise ValueError(k)


_EXE = {'path': None}


def hexf(x):
    return float(x).hex()


def ocaml_requests(spec, srcs, evs):
    """request lines for the extracted criteria (ocaml/c05/driver.ml), one or three per atom"""
    tail = [str(len(srcs)), str(len(evs))]
    for s_ in srcs:
        tail += [hexf(s_[0]), hexf(s_[1])]
    for e in evs:
        tail += [hexf(e[0]), hexf(e[1]), hexf(e[2]), hexf(e[3])]
    tail = ' '.join(tail)
    lines = []
    for at in atoms(spec):
        k = at[0]
        if k == 'dec':
            lines.append(f'dec {hexf(at[1])} {tail}')
        elif k == 'ra':
            lines.append(f'raband {hexf(at[1])} {tail}')
        elif k == 'box':
            lines += [f'boxra {hexf(at[1])} {tail}', f'boxrab {hexf(at[1])} {tail}', f'boxdec {hexf(at[1])} {tail}']
        elif k == 'angerr':
            lines.append(f'angerr {hexf(at[1])} {hexf(at[2])} {hexf(at[3])} {tail}')
        elif k == 'psifunc':
            lines.append(f'psifunc {hexf(at[1])} {tail}')
    return lines


def parse_mat(line, nrows):
    if line.strip() == 'ERR':
        raise RuntimeError('criteria driver answered ERR')
    rows = line.split(',') if nrows else []
    if nrows and len(rows) != nrows:
        raise RuntimeError('criteria driver: wrong number of rows')
    return [[ch == '1' for ch in r.strip()] for r in rows]


def model_mats(spec, srcs, evs):
    """criterion matrices for the model term.  With the extracted criteria available they are
    the translated formulas of G_select.v executed on IEEE doubles (M_SelectNum.v); otherwise
    the Python oracle (fallback, noted by the caller).  SpatialBox gets its unbatched RA mask,
    its batched RA mask and its declination mask separately."""
    ns = len(srcs)
    if _EXE['path']:
        out = common.ocaml_run(_EXE['path'], ocaml_requests(spec, srcs, evs))
        res, i = [], 0
        for at in atoms(spec):
            if at[0] == 'all':
                res.append([[True] * len(evs) for _ in srcs])
            elif at[0] == 'box':
                res.append((parse_mat(out[i], ns), parse_mat(out[i + 1], ns), parse_mat(out[i + 2], ns)))
                i += 3
            elif at[0] == 'psifunc':
                res.append(parse_mat(out[i], 1))
                i += 1
            else:
                res.append(parse_mat(out[i], ns))
                i += 1
        return res
    out = []
    for at in atoms(spec):
        if at[0] == 'box':
            ra = [[crit_ra(s, e, at[1])[0] for e in evs] for s in srcs]
            out.append((ra, ra, [[crit_dec(s, e, at[1])[0] for e in evs] for s in srcs]))
        elif at[0] == 'psifunc':
            out.append([[atom_crit(at, (0.0, 0.0), e)[0] for e in evs]])
        else:
            out.append([[atom_crit(at, s, e)[0] for e in evs] for s in srcs])
    return out


def zrange(n):
    return '[' + '; '.join(str(i) for i in range(n)) + ']'


def term_select(spec, srcs, evs, inc=None):
    m = meth_term(spec, model_mats(spec, srcs, evs))
    i = 'None' if inc is None else '(Some ' + common.zpairs(inc) + ')'
    return f'sel_out (run (S:=Z) (E:=Z) {m} {zrange(len(srcs))} {zrange(len(evs))} {i})'


def term_tdm(spec, srcs, evs, sort, perm):
    m = 'None' if spec is None else '(Some ' + meth_term(spec, model_mats(spec, srcs, evs)) + ')'
    return (f'tdm_init (S:=Z) (E:=Z) (fun _ => {common.zlist(perm)}) {m} {zrange(len(srcs))} {zrange(len(evs))} '
            f'{blit(sort)}')


def canon_model(v, kind):
    if isinstance(v, tuple) and v[0] == 'Err':
        return ['Err', v[1]]
    assert isinstance(v, tuple) and v[0] == 'Ok', v
    x = v[1]
    if kind == 'tdmstate':
        (evk, tb, nsrc, idx) = x
        tb = [tuple(p) for p in tb[1]] if isinstance(tb, tuple) and tb[0] == 'Some' else None
        return ['Ok', list(evk), tb, nsrc, bool(idx)]
    if kind == 'select':
        (ids, tbl, org) = x if len(x) == 3 else (x[0][0], x[0][1], x[1])
        return ['Ok', list(ids), [tuple(p) for p in tbl], list(org)]
    (ids, tbl) = x
    return ['Ok', list(ids), [tuple(p) for p in tbl]]


ERRMAP = {'IndexError': 'IndexError', 'ValueError': 'ValueError', 'TypeError': 'TypeError', 'KeyError': 'KeyError'}


# ------------------------------------------------------------------ predicates

def check_select(ctx, spec, srcs, evs, impl, same, rows_ok, crit, case):
    """the property itself on the implementation's result, against the oracle"""
    site = site_of(spec)
    ns, ne = len(srcs), len(evs)
    if impl[0] != 'Ok':
        ctx.violation(site, 'raises-' + impl[1], 'raises on a legal input', case=case, impl=impl,
                      predicate='select_events returns')
        return
    orig_x, pairs_x = expected(crit, ns, ne)
    _, ids, pairs, org = impl
    if ids != orig_x:
        ctx.violation(site, 'wrong-events', 'selected events differ from the original-order filter of "qualifies for >= 1 source"',
                      case=case, impl=impl, model={'events': orig_x}, predicate='selected = [j | exists k, crit k j]')
    if org != ids:
        ctx.violation(site, 'wrong-original-indices', 'original_evt_idxs do not map the returned events back',
                      case=case, impl=impl, predicate='events[original_evt_idxs] == selected events')
    if not rows_ok:
        ctx.violation(site, 'wrong-event-rows', 'returned rows differ from the original rows', case=case, impl=impl)
    if any(not (0 <= k < ns and 0 <= b < len(ids)) for k, b in pairs):
        ctx.violation(site, 'index-out-of-range', 'a pair does not point into the sources / returned events',
                      case=case, impl=impl, predicate='0 <= evt_idx < n_selected')
    elif any(not crit[k][ids[b]] for k, b in pairs if ids[b] < ne):
        ctx.violation(site, 'pair-not-qualifying', 'a listed pair does not satisfy the criterion', case=case, impl=impl,
                      predicate='(k, b) listed -> crit k (orig b)')
    if len(set(pairs)) != len(pairs):
        ctx.violation(site, 'duplicate-pairs', 'a pair is listed twice', case=case, impl=impl)
    if any(a[0] > b[0] for a, b in zip(pairs, pairs[1:])):
        ctx.violation(site, 'not-grouped-by-source', 'pairs not grouped by ascending source', case=case, impl=impl)
    if ids == orig_x and sorted(pairs) != pairs_x:
        ctx.violation(site, 'wrong-pairs', 'pair table differs from the set of qualifying pairs', case=case, impl=impl,
                      model={'pairs': pairs_x[:50]}, predicate='(k, b) listed <-> crit k (orig b)')
    if not same:
        ctx.violation(site, 'ret-flag-changes-result', 'result without ret_original_evt_idxs differs', case=case, impl=impl)


def check_tdm(ctx, spec, srcs, evs, sort, impl, crit, case, extra=None):
    site = 'TrialDataManager.initialize_trial'
    ns, ne = len(srcs), len(evs)
    if impl[0] != 'Ok':
        ctx.violation(site, 'raises-' + impl[1], 'raises on a legal input', case=case, impl=impl)
        return
    _, ids, pairs = impl
    orig_x, pairs_x = expected(crit, ns, ne)
    if sorted(ids) != orig_x:
        ctx.violation(site, 'wrong-events', 'stored events are not the qualifying events', case=case, impl=impl)
        return
    if sort and any(evs[a][4] > evs[b][4] for a, b in zip(ids, ids[1:])):
        ctx.violation(site, 'not-sorted', 'events not sorted by the index field', case=case, impl=impl)
    if extra is not None:
        if not extra.get('rows_ok', True):
            ctx.violation(site, 'wrong-event-rows', 'a column of the stored events differs from the original row '
                          '(columns permuted differently)', case=case, impl=impl)
        tm = extra.get('times', [])
        if sort and any(a > b for a, b in zip(tm, tm[1:])):
            ctx.violation(site, 'not-sorted', 'the stored index field column is not ascending', case=case, impl=impl)
        if extra.get('n_sources', ns) != ns:
            ctx.violation(site, 'wrong-n-sources', 'n_sources of the manager differs from the source manager',
                          case=case, impl=extra.get('n_sources'))
    if not sort and ids != orig_x:
        ctx.violation(site, 'order-changed', 'events reordered without an index field', case=case, impl=impl)
    if any(not (0 <= k < ns and 0 <= b < len(ids)) for k, b in pairs):
        ctx.violation(site, 'index-out-of-range', 'a pair does not point into the stored events', case=case, impl=impl)
        return
    if any(not crit[k][ids[b]] for k, b in pairs):
        ctx.violation(site, 'pairs-point-to-wrong-events', 'after initialize_trial a pair points at an event that does not '
                      'qualify for its source', case=case, impl=impl, predicate='(k, b) stored -> crit k (events[b])')
    if len(set(pairs)) != len(pairs):
        ctx.violation(site, 'duplicate-pairs', 'a pair is stored twice', case=case, impl=impl)
    if any(a[0] > b[0] for a, b in zip(pairs, pairs[1:])):
        ctx.violation(site, 'not-grouped-by-source', 'pairs not grouped by ascending source', case=case, impl=impl)
    want = sorted((k, ids.index(j)) for k in range(ns) for j in orig_x if crit[k][j])
    if sorted(pairs) != want:
        ctx.violation(site, 'wrong-pairs', 'stored pair table differs from the set of qualifying pairs', case=case, impl=impl,
                      predicate='(k, b) stored <-> crit k (events[b])')


# ------------------------------------------------------------------ generators

DELTAS = [1e-3, 0.05, 0.2, 0.5, 1.0, HALF_PI, 3.0, PI]


def gen_sources(rng, ns):
    srcs = []
    for _ in range(ns):
        r = rng.random()
        if r < 0.08:
            dec = HALF_PI
        elif r < 0.16:
            dec = -HALF_PI
        elif r < 0.26:
            dec = rng.choice([-1, 1]) * (HALF_PI - rng.choice([1e-6, 1e-3, 0.04]))
        else:
            dec = math.asin(rng.uniform(-1, 1))
        r = rng.random()
        if r < 0.1:
            ra = 0.0
        elif r < 0.2:
            ra = TWO_PI - rng.choice([1e-9, 1e-4, 0.01])
        elif r < 0.25:
            ra = rng.choice([1e-9, 1e-4])
        elif r < 0.31:
            ra = rng.uniform(0, TWO_PI) + rng.choice([-1, 1, 2]) * TWO_PI     # unnormalised source RA
        else:
            ra = rng.uniform(0, TWO_PI)
        srcs.append((ra, dec))
    return srcs


def gen_event(rng, srcs, delta, regime):
    s = rng.choice(srcs)
    if regime == 'edge':
        lo, hi = s[1] - delta, s[1] + delta          # the floats the code compares with (before clipping)
        dec = rng.choice([lo, hi, max(-HALF_PI, lo), min(hi, HALF_PI)])
        dec = min(HALF_PI, max(-HALF_PI, dec))
        ra = (s[0] + rng.uniform(-1, 1) * min(delta, 0.5)) % TWO_PI
    elif regime == 'near':
        dec = min(HALF_PI, max(-HALF_PI, s[1] + rng.uniform(-1.3, 1.3) * delta))
        w = min(PI, 1.3 * dra_half(s[1], delta))
        ra = (s[0] + rng.uniform(-w, w)) % TWO_PI
    elif regime == 'pole':
        dec = rng.choice([HALF_PI, -HALF_PI, HALF_PI - 1e-7, -HALF_PI + 1e-7])
        ra = rng.uniform(0, TWO_PI)
    elif regime == 'wrap':
        dec = min(HALF_PI, max(-HALF_PI, s[1] + rng.uniform(-1, 1) * delta))
        ra = rng.choice([0.0, 1e-9, TWO_PI - 1e-9, TWO_PI - 1e-3, 1e-3, PI, s[0], (s[0] + PI) % TWO_PI, TWO_PI])
    elif regime == 'unnorm':
        # right ascension outside [0, 2 pi): the same direction given with extra whole turns, or far away
        dec = min(HALF_PI, max(-HALF_PI, s[1] + rng.uniform(-1.2, 1.2) * delta))
        w = min(PI, 1.3 * dra_half(s[1], delta))
        ra = s[0] + rng.uniform(-w, w) + rng.choice([-2, -1, 1, 2, 3]) * TWO_PI
    else:
        dec = math.asin(rng.uniform(-1, 1))
        ra = rng.uniform(0, TWO_PI)
    ang_err = rng.choice([0.001, 0.01, 0.05, 0.2, 1.0]) * rng.uniform(0.5, 1.5)
    psi = vincenty(srcs[0][0], srcs[0][1], ra, dec)
    return [ra, dec, ang_err, psi, 0.0]


def gen_events(rng, srcs, delta, ne, mix):
    evs = []
    regs = ['edge', 'near', 'pole', 'wrap', 'far', 'unnorm']
    for _ in range(ne):
        evs.append(gen_event(rng, srcs, delta, rng.choices(regs, weights=tuple(mix) + (1.2,))[0]))
    times = list(range(ne))
    rng.shuffle(times)
    for e, t in zip(evs, times):
        e[4] = 58000.0 + t / 8.0
    return evs


def gen_spec(rng, ns, delta, depth=0):
    kinds = ['all', 'dec', 'ra', 'box', 'angerr'] + (['psifunc'] if ns == 1 else [])
    r = rng.random()
    if depth < 2 and r < (0.55 if depth == 0 else 0.3):
        return ['and', gen_spec(rng, ns, delta, depth + 1), gen_spec(rng, ns, delta, depth + 1)]
    k = rng.choice(kinds)
    d = delta if rng.random() < 0.7 else rng.choice(DELTAS)
    if k == 'all':
        return ['all']
    if k in ('dec', 'ra', 'box'):
        return [k, d]
    if k == 'angerr':
        return ['angerr', rng.choice([0.0, 0.1, 0.5]), rng.choice([0.0, 0.02, 0.3]), rng.choice([0.0, math.radians(5), 0.5])]
    return ['psifunc', rng.choice([0.5, 3.0, 20.0])]


def gen_case(ctx, rng, ns=None, ne=None, spec=None, delta=None, mix=None):
    ns = ns or rng.choice([1, 1, 2, 2, 3, 5, 8, 12])
    delta = delta or rng.choice(DELTAS)
    srcs = gen_sources(rng, ns)
    if ne is None:
        ne = rng.choice([0, 1, 2, 5, 10, 20, 40])
    mix = mix or rng.choice([(3, 5, 1, 2, 2), (1, 1, 1, 1, 8), (6, 2, 1, 1, 0), (0, 8, 0, 2, 1)])
    spec = spec or gen_spec(rng, ns, delta)
    evs = gen_events(rng, srcs, delta, ne, mix)
    # re-draw events whose decision is float-fragile
    for _ in range(20):
        _, margin, frag = crit_matrices(spec, srcs, evs)
        if not frag:
            break
        ctx.count('rejected_fragile_events', len(frag))
        for j in frag:
            t = evs[j][4]
            evs[j] = gen_event(rng, srcs, delta, 'far')
            evs[j][4] = t
    else:
        return None
    return {'srcs': srcs, 'evs': evs, 'spec': spec, 'sort': rng.random() < 0.5}


def corpus_cases():
    """inputs of the defects fixed in /repo (known_findings `fixed`): they must keep passing"""
    srcs2 = [(1.0, 0.2), (1.1, -0.3)]
    evs = [[1.0, 0.25, 0.01, 0.05, 58003.0], [1.1, -0.25, 0.01, 0.9, 58001.0], [4.0, 0.21, 0.5, 3.0, 58002.0],
           [1.05, 0.9, 0.3, 0.7, 58000.0], [1.0, -0.31, 0.02, 0.5, 58004.0]]
    one = [(1.0, 0.2)]
    unn = [[7.0, 0.0, 0.01, 0.3, 58001.0], [-6.0, 0.0, 0.01, 0.1, 58000.0], [0.45, 0.0, 0.5, 0.05, 58003.0],
           [6.7, 0.0, 0.01, 0.02, 58002.0], [0.45 - 2 * TWO_PI, 0.01, 0.01, 0.05, 58004.0], [13.0, 0.0, 0.3, 0.4, 58005.0]]
    pol = [[1.0, HALF_PI, 0.1, 0.1, 58002.0], [1.0, HALF_PI - 0.05, 0.1, 0.1, 58000.0], [1.0, -HALF_PI, 0.1, 0.1, 58001.0],
           [4.0, HALF_PI - 0.2, 0.1, 0.1, 58003.0]]
    return [
        # 86ce939: band / box methods ignored the incoming table when chained (>= 2 sources)
        {'srcs': srcs2, 'evs': evs, 'spec': ['and', ['box', 0.2], ['dec', 1.0]], 'sort': True},
        {'srcs': srcs2, 'evs': evs, 'spec': ['and', ['dec', 0.2], ['ra', 3.0]], 'sort': False},
        {'srcs': srcs2, 'evs': evs, 'spec': ['and', ['ra', 0.2], ['box', 1.0]], 'sort': True},
        # 7ac8a53: PsiFunc returned event indices into the original events
        {'srcs': one, 'evs': evs, 'spec': ['psifunc', 20.0], 'sort': True},
        {'srcs': one, 'evs': evs, 'spec': ['and', ['psifunc', 20.0], ['dec', 1.0]], 'sort': False},
        # afff0ae: initialize_trial with index field + selection (argsort [1,2,0]-like permutations)
        {'srcs': srcs2, 'evs': evs, 'spec': ['dec', 0.2], 'sort': True},
        {'srcs': srcs2, 'evs': evs, 'spec': ['angerr', 0.1, 0.02, 0.3], 'sort': True},
        # f511812: SpatialBox selected events more than 2 pi away in (unnormalised) right ascension
        {'srcs': [(0.4, 0.0)], 'evs': unn, 'spec': ['box', 0.1], 'sort': True},
        {'srcs': [(0.4, 0.0), (0.4 + TWO_PI, 0.05)], 'evs': unn, 'spec': ['and', ['ra', 0.1], ['box', 0.1]], 'sort': False},
        {'srcs': [(0.4 - TWO_PI, 0.0)], 'evs': unn, 'spec': ['and', ['box', 0.1], ['angerr', 0.1, 0.02, 0.3]], 'sort': True},
        # a53f3be: an event exactly at a polar source was dropped by DecBand / SpatialBox
        {'srcs': [(1.0, HALF_PI), (2.0, -HALF_PI)], 'evs': pol, 'spec': ['dec', 0.1], 'sort': True},
        {'srcs': [(1.0, HALF_PI), (2.0, -HALF_PI)], 'evs': pol, 'spec': ['box', 0.1], 'sort': False},
        {'srcs': [(1.0, HALF_PI - 0.05)], 'evs': pol, 'spec': ['and', ['dec', 0.1], ['ra', 0.1]], 'sort': True},
    ]


def corpus_files():
    """further regression inputs: corpus/C05/*.json, each a list of cases {srcs, evs, spec, sort}"""
    import glob
    import json
    import os
    out = []
    for f in sorted(glob.glob(os.path.join(common.VERIF, 'corpus', 'C05', '*.json'))):
        try:
            with open(f) as fh:
                for c in json.load(fh):
                    out.append({'srcs': [tuple(x) for x in c['srcs']], 'evs': [list(e) for e in c['evs']],
                                'spec': c['spec'], 'sort': bool(c.get('sort'))})
        except (OSError, ValueError, KeyError, TypeError):
            continue
    return out


def gen_incoming(rng, ns, ne, kind):
    if ne == 0 or ns == 0:
        return []
    n = rng.randint(0, min(12, ns * ne))
    t = [(rng.randrange(ns), rng.randrange(ne)) for _ in range(n)]
    if kind == 'dup' and t:
        t += [rng.choice(t)]
    if kind == 'negative':
        t.append((rng.choice([-1, -ns, 0]), rng.choice([-1, -ne])))
    if kind == 'range':
        t.insert(rng.randint(0, len(t)), rng.choice([(ns, 0), (0, ne), (-ns - 1, 0), (0, -ne - 1)]))
    return t


# ------------------------------------------------------------------ history probes
# Metamorphic probes on the REAL objects (no model needed): the result of select_events /
# initialize_trial is a function of the current sources, parameters and arguments only.
# Every observation on a re-used object is compared with a freshly constructed twin.

def has_kind(spec, k):
    return any(a[0] == k for a in atoms(spec))


def perturb(spec, rng):
    """same tree, other parameters"""
    k = spec[0]
    if k == 'and':
        return ['and', perturb(spec[1], rng), perturb(spec[2], rng)]
    if k in ('dec', 'ra', 'box'):
        return [k, rng.choice([d for d in DELTAS if d != spec[1]])]
    if k == 'angerr':
        return ['angerr', rng.choice([x for x in (0.0, 0.1, 0.5) if x != spec[1]]), spec[2] + 0.01,
                rng.choice([x for x in (0.0, 0.2, 0.5) if x != spec[3]])]
    if k == 'psifunc':
        return ['psifunc', rng.choice([x for x in (0.5, 3.0, 20.0) if x != spec[1]])]
    return list(spec)


def retune(meth, spec2):
    """apply the parameters of spec2 through the public setters of the (nested) instance"""
    k = spec2[0]
    if k == 'and':
        retune(meth.evt_sel_method1, spec2[1])
        retune(meth.evt_sel_method2, spec2[2])
    elif k in ('dec', 'ra', 'box'):
        meth.delta_angle = spec2[1]
    elif k == 'angerr':
        a, b = spec2[1], spec2[2]
        meth.func = lambda psi: a * psi + b
        meth.psi_floor = spec2[3]
    elif k == 'psifunc':
        c = spec2[1]
        meth.func = lambda ang_err: c * ang_err


def raw_select(meth, events, inc=None):
    kw = {} if inc is None else {'src_evt_idxs': inc}
    (sel, (si, ei), org) = meth.select_events(events, ret_original_evt_idxs=True, **kw)
    return sel, si, ei, org


def canon_raw(raw):
    sel, si, ei, org = raw
    return ['Ok', ints(sel['id']), list(zip(ints(si), ints(ei))), ints(org)]


def observe(meth, events, inc=None):
    try:
        raw = raw_select(meth, events, inc)
        return canon_raw(raw), raw
    except Exception as ex:  # noqa: BLE001
        return ['Err', type(ex).__name__], None


def snap(ev):
    return {n: ev[n].tobytes() for n in ev.field_name_list}


def result_arrays(raw):
    sel, si, ei, org = raw
    return [('events.' + n, sel[n]) for n in sel.field_name_list] + [('src_idxs', si), ('evt_idxs', ei), ('org_idxs', org)]


def history_select(ctx, rng, c):
    srcs = [tuple(x) for x in c['srcs']]
    evs1 = [list(e) for e in c['evs']]
    spec = c['spec']
    site = site_of(spec) + '[history]'
    ns = len(srcs)
    one_src = has_kind(spec, 'psifunc')
    srcs2 = gen_sources(rng, 1 if one_src else rng.choice([n for n in (1, 2, 3, 5) if n != ns] + [ns]))
    srcs3 = [((s_[0] + 0.3) % TWO_PI, max(-HALF_PI, min(HALF_PI, -s_[1] * 0.9))) for s_ in srcs]   # edited positions
    evs2 = gen_events(rng, srcs2, 0.3, rng.choice([3, 7, 15]), (2, 5, 1, 2, 2))
    spec2 = perturb(spec, rng)
    case = {'srcs': srcs, 'evs': evs1, 'spec': spec, 'history': {'srcs2': srcs2, 'srcs3': srcs3, 'evs2': evs2, 'spec2': spec2}}

    def fresh(sp, sr, ev, inc=None):
        return run_select(sp, sr, ev, inc=inc)[0]

    def bad(kind, detail, got, want):
        ctx.violation(site, kind, detail, case=case, impl=got, model=want,
                      predicate='re-used instance == freshly constructed instance')

    ctx.count('history_select')
    shg1 = build_shg(srcs)
    m = build_method(spec, shg1)
    E1, E2 = mk_events(evs1), mk_events(evs2)
    s1, s2 = snap(E1), snap(E2)
    want1 = fresh(spec, srcs, evs1)
    want2 = fresh(spec, srcs, evs2) if ns == len(srcs) else None
    # repeat, same ndarray arguments handed to consecutive calls
    r1, raw1 = observe(m, E1)
    if r1 != want1:
        bad('first-call-differs', 'first call on a new instance differs from another new instance', r1, want1)
    keep = [(n, a, a.copy()) for n, a in result_arrays(raw1)] if raw1 else []
    r1b, raw1b = observe(m, E1)
    if r1b != r1:
        bad('repeat-differs', 'second identical call differs from the first', r1b, r1)
    # interleave another events array, then the first again
    r2, raw2 = observe(m, E2)
    if r2 != want2:
        bad('interleave-differs', 'call with other events differs from a new instance', r2, want2)
    # returned values are owned by the caller (checked right after the foreign call and again below)
    def check_keep():
        for n, a, cp in keep:
            if a.tobytes() != cp.tobytes():
                bad('result-overwritten', f'{n} returned by an earlier call was changed by a later call', n, None)
    check_keep()
    r1c, _ = observe(m, E1)
    if r1c != r1:
        bad('interleave-differs', 'result changed after a call with other events', r1c, r1)
    check_keep()
    if raw1 and raw1b:
        inputs1 = [E1[n] for n in E1.field_name_list] + [E1.indices]
        for n1, a in result_arrays(raw1):
            for n2, b in result_arrays(raw1b):
                if (a.size and b.size and np.shares_memory(a, b)
                        and not any(np.shares_memory(a, x) for x in inputs1)):
                    bad('result-aliased', f'{n1} of one call shares memory with {n2} of the next call (not an input)',
                        [n1, n2], None)
    if raw1 and raw2:
        for n1, a in result_arrays(raw1):
            for n2, b in result_arrays(raw2):
                if a.size and b.size and np.shares_memory(a, b):
                    bad('result-aliased', f'{n1} of one call shares memory with {n2} of a call on other events', [n1, n2], None)
    # the caller scribbles on what it was given back (only arrays that are not the inputs themselves)
    if raw1b:
        inputs = [E1[n] for n in E1.field_name_list] + [E1.indices]
        for n, a in result_arrays(raw1b):
            if a.size and a.flags.writeable and not any(np.shares_memory(a, x) for x in inputs):
                a[...] = 0 if a.dtype.kind in 'iu' else 0.125
        r1d, _ = observe(m, E1)
        if r1d != r1:
            bad('result-aliased-to-state', 'writing into returned arrays changed a later result', r1d, r1)
    # arguments are inputs
    if snap(E1) != s1 or snap(E2) != s2:
        bad('argument-modified', 'the events argument was modified by select_events', None, None)
    if r1[0] == 'Ok' and ns * len(evs1) > 0:
        full = (np.repeat(np.arange(ns), len(evs1)), np.tile(np.arange(len(evs1)), ns))
        keep_inc = (full[0].copy(), full[1].copy())
        ri, _ = observe(m, E1, inc=full)
        wi = fresh(spec, srcs, evs1, inc=list(zip(ints(keep_inc[0]), ints(keep_inc[1]))))
        if ri != wi:
            bad('incoming-table-differs', 'call with an incoming table differs from a new instance', ri, wi)
        if full[0].tobytes() != keep_inc[0].tobytes() or full[1].tobytes() != keep_inc[1].tobytes():
            bad('argument-modified', 'the src_evt_idxs argument was modified by select_events', None, None)
        rj, _ = observe(m, E1)
        if rj != r1:
            bad('interleave-differs', 'result changed after a call with an incoming table', rj, r1)
    # mutate-then-observe: parameter setters (observables were read before), and back
    retune(m, spec2)
    rs, _ = observe(m, E1)
    ws = fresh(spec2, srcs, evs1)
    if rs != ws:
        bad('stale-after-setter', 'after the parameter setters the result differs from a new instance with these parameters', rs, ws)
    retune(m, spec)
    rs, _ = observe(m, E1)
    if rs != r1:
        bad('stale-after-setter', 'after setting the parameters back the result differs', rs, r1)
    # change_shg_mgr: new manager with other sources / other number of sources
    m.change_shg_mgr(build_shg(srcs2))
    rc, _ = observe(m, E1)
    wc = fresh(spec, srcs2, evs1)
    if rc != wc:
        bad('stale-after-change_shg_mgr', 'after change_shg_mgr(new manager) the result differs from a new instance', rc, wc)
    rc, _ = observe(m, E2)
    wc = fresh(spec, srcs2, evs2)
    if rc != wc:
        bad('stale-after-change_shg_mgr', 'after change_shg_mgr(new manager) the result differs from a new instance', rc, wc)
    # same manager, sources edited in place, change_shg_mgr(same manager)
    m.change_shg_mgr(shg1)
    rc, _ = observe(m, E1)
    if rc != r1:
        bad('stale-after-change_shg_mgr', 'after changing back to the first manager the result differs', rc, r1)
    for src, (ra, dec) in zip(shg1.source_list, srcs3):
        src.ra = ra
        src.dec = dec
    m.change_shg_mgr(shg1)
    rc, _ = observe(m, E1)
    wc = fresh(spec, srcs3, evs1)
    if rc != wc:
        bad('stale-after-edited-sources', 'after editing the sources and change_shg_mgr(same manager) the result differs '
            'from a new instance', rc, wc)
    # two instances built before first use, called alternately
    shgA, shgB = build_shg(srcs), build_shg(srcs2)
    mA, mB = build_method(spec, shgA), build_method(spec2, shgB)
    for which, ev, evl in (('A', E1, evs1), ('B', E1, evs1), ('A', E2, evs2), ('B', E2, evs2), ('A', E1, evs1)):
        got, _ = observe(mA if which == 'A' else mB, ev)
        want = fresh(spec, srcs, evl) if which == 'A' else fresh(spec2, srcs2, evl)
        if got != want:
            bad('instances-interfere', f'instance {which} called alternately with another instance differs from a new instance',
                got, want)
    if snap(E1) != s1 or snap(E2) != s2:
        bad('argument-modified', 'the events argument was modified by select_events', None, None)


def trial_op_term(spec, srcs, evl):
    """`TTrial` operation for the state-machine model: an event is represented by the rank of its
    index-field value (unique), the criterion matrices get their columns permuted accordingly, so
    that M_SelectTdm.zargsort on the keys is np.argsort on the index field"""
    ne = len(evl)
    inv = ints(np.argsort(np.array([e[4] for e in evl], dtype=np.float64)))      # inv[rank] = event
    tau = [0] * ne
    for r, j in enumerate(inv):
        tau[j] = r
    if spec is None:
        mterm = '(@None (meth Z Z))'
    else:
        def pc(M):
            return [[row[j] for j in inv] for row in M]
        mats = [tuple(pc(M) for M in x) if isinstance(x, tuple) else pc(x) for x in model_mats(spec, srcs, evl)]
        mterm = '(Some ' + meth_term(spec, mats) + ')'
    return f'(TTrial (S:=Z) (E:=Z) {mterm} {zrange(len(srcs))} {common.zlist(tau)})', tau


def history_tdm(ctx, rng, c, terms=None, checks=None):
    from skyllh.core.trialdata import TrialDataManager
    srcs = [tuple(x) for x in c['srcs']]
    evs1 = [list(e) for e in c['evs']]
    spec = c['spec']
    site = 'TrialDataManager.initialize_trial[history]'
    one_src = has_kind(spec, 'psifunc')
    srcs2 = gen_sources(rng, 1 if one_src else rng.choice([1, 2, 4]))
    evs2 = gen_events(rng, srcs2, 0.3, rng.choice([4, 9]), (2, 5, 1, 2, 2))
    spec2 = perturb(spec, rng)
    case = {'srcs': srcs, 'evs': evs1, 'spec': spec, 'history_tdm': {'srcs2': srcs2, 'evs2': evs2, 'spec2': spec2}}
    ctx.count('history_tdm')
    shg1, shg2 = build_shg(srcs), build_shg(srcs2)
    m1, m2 = build_method(spec, shg1), build_method(spec2, shg2)
    trials = [(m1, spec, shg1, srcs, evs1), (None, None, shg1, srcs, evs2), (m2, spec2, shg2, srcs2, evs1),
              (None, None, shg2, srcs2, evs1), (m1, spec, shg1, srcs, evs1), (None, None, shg1, srcs, evs1)]
    prefixes = (1, 3, 5) if ctx.thorough() else (1, 5)
    for sort0 in (True, False):
        tdm = TrialDataManager(index_field_name='time' if sort0 else None)
        sort = sort0
        kept = None
        ops = []
        for i, (m, sp, shg, sr, evl) in enumerate(trials):
            if i == 3:                       # the index field is changed between trials
                sort = not sort
                tdm.index_field_name = 'time' if sort else None
                ops.append(f'(TSetIndex (S:=Z) (E:=Z) {blit(sort)})')
            ev = mk_events(evl)
            before = snap(ev)
            try:
                tdm.initialize_trial(shg, None, ev, evt_sel_method=m)
                (si, ei) = tdm.src_evt_idxs
                got = ['Ok', ints(tdm.events['id']), list(zip(ints(si), ints(ei)))]
            except Exception as ex:  # noqa: BLE001
                got, si, ei = ['Err', type(ex).__name__], None, None
            want = run_tdm(sp, sr, evl, sort)
            if got != want:
                ctx.violation(site, 'reused-manager-differs', f'trial {i} on a re-used TrialDataManager differs from a new one',
                              case=dict(case, trial=i, sort=sort), impl=got, model=want,
                              predicate='re-used TrialDataManager == new TrialDataManager')
            # the state-machine model M_SelectTdm.tdm_run on the same history
            if terms is not None and ctx.model_ok:
                op, tau = trial_op_term(sp, sr, evl)
                ops.append(op)
                if i in prefixes:
                    terms.append(f'tstate_out (tdm_run (S:=Z) (E:=Z) zargsort (tdm_new {blit(sort0)}) [' + '; '.join(ops) + '])')
                    st = (['Ok', [tau[j] for j in got[1]], got[2], int(tdm.n_sources), bool(tdm.index_field_name is not None)]
                          if got[0] == 'Ok' else got)
                    checks.append(('tdmstate', site + '[state-machine]', dict(case, trial=i, sort0=sort0), st))
                    ctx.count('history_tdm_model_states')
            if kept is not None and (kept[0].tobytes() != kept[2] or kept[1].tobytes() != kept[3]):
                ctx.violation(site, 'result-overwritten', 'src_evt_idxs of the previous trial were changed by the next trial',
                              case=dict(case, trial=i, sort=sort))
            kept = (si, ei, si.tobytes(), ei.tobytes()) if si is not None else None
            after = snap(ev)
            if got[0] == 'Ok' and tdm.events is not ev and after != before:
                ctx.violation(site, 'argument-modified', 'the events argument was modified although a selection was stored',
                              case=dict(case, trial=i, sort=sort))
            if got[0] == 'Ok' and tdm.events is ev and sorted(ints(ev['id'])) != list(range(len(evl))):
                ctx.violation(site, 'argument-rows-lost', 'rows of the events argument were lost or duplicated',
                              case=dict(case, trial=i, sort=sort))


def history_analysis(ctx, rng, c):
    """Analysis.change_shg_mgr has to hand the new source manager to every selection method and every
    trial data manager: afterwards a trial (as Analysis.initialize_trial runs it) equals a trial on new
    objects built for the new sources"""
    import types
    from skyllh.core.analysis import Analysis
    from skyllh.core.trialdata import TrialDataManager
    srcs = [tuple(x) for x in c['srcs']]
    evs = [list(e) for e in c['evs']]
    spec = c['spec']
    srcs2 = gen_sources(rng, 1 if has_kind(spec, 'psifunc') else rng.choice([n for n in (1, 2, 3, 4) if n != len(srcs)]))
    if has_kind(spec, 'psifunc'):
        srcs2 = [((srcs[0][0] + 0.5) % TWO_PI, -srcs[0][1])]
    site = 'Analysis.change_shg_mgr[history]'
    case = {'srcs': srcs, 'evs': evs, 'spec': spec, 'analysis': {'srcs2': srcs2}}
    ctx.count('history_analysis')
    shg1, shg2 = build_shg(srcs), build_shg(srcs2)
    m = build_method(spec, shg1)
    tdm, tdm0 = TrialDataManager(index_field_name='time'), TrialDataManager()
    ana = types.SimpleNamespace(_event_selection_method_list=[m, None], _tdm_list=[tdm, tdm0], _pmm=None,
                                _detsigyield_service=None, _src_detsigyield_weights_service=None,
                                _bkg_generator=None, _sig_generator=None)
    tdm.initialize_trial(shg1, None, mk_events(evs), evt_sel_method=m)
    tdm0.initialize_trial(shg1, None, mk_events(evs), evt_sel_method=None)
    Analysis.change_shg_mgr(ana, shg_mgr=shg2)
    for (t, meth, sp, sort) in ((tdm, m, spec, True), (tdm0, None, None, False)):
        try:
            t.initialize_trial(shg_mgr=shg2, pmm=None, events=mk_events(evs), evt_sel_method=meth)
            (si, ei) = t.src_evt_idxs
            got = ['Ok', ints(t.events['id']), list(zip(ints(si), ints(ei)))]
        except Exception as ex:  # noqa: BLE001
            got = ['Err', type(ex).__name__]
        want = run_tdm(sp, srcs2, evs, sort)
        if got != want:
            ctx.violation(site, 'trial-uses-old-sources', 'after Analysis.change_shg_mgr a trial differs from a trial on objects '
                          'built for the new sources', case=case, impl=got, model=want,
                          predicate='selection method and trial data manager follow the new source manager')


def history_probes(ctx, rng, c, terms=None, checks=None):
    try:
        history_select(ctx, rng, c)
        history_tdm(ctx, rng, c, terms, checks)
        history_analysis(ctx, rng, c)
    except Exception as ex:  # noqa: BLE001
        ctx.violation(site_of(c['spec']) + '[history]', 'probe-raises-' + type(ex).__name__,
                      f'a history probe raised: {ex}', case={'srcs': c['srcs'], 'evs': c['evs'], 'spec': c['spec']})


# ------------------------------------------------------------------ extension: angular_separation(psi_floor)

ANGSEP_TOL = 1e-6     # 2 asin(sqrt(x)) is ill-conditioned near x = 1 (antipodal points): ~sqrt(eps) per ulp of x


def angsep_rows(rng, n):
    rows = []
    for _ in range(n):
        k = rng.random()
        ra1 = rng.uniform(0, TWO_PI)
        dec1 = math.asin(rng.uniform(-1, 1))
        if k < 0.15:                      # same point / tiny offset
            ra2, dec2 = ra1 + rng.choice([0.0, 1e-9, 1e-6]), dec1
        elif k < 0.3:                     # across the RA seam / whole turns away
            ra1 = rng.choice([0.0, 1e-4, TWO_PI - 1e-4])
            ra2, dec2 = ra1 + rng.choice([-1e-3, 1e-3, TWO_PI, -TWO_PI, 3.0]), dec1 + rng.uniform(-0.01, 0.01)
        elif k < 0.4:                     # poles
            dec1 = rng.choice([HALF_PI, -HALF_PI])
            ra2, dec2 = rng.uniform(0, TWO_PI), rng.choice([HALF_PI, -HALF_PI, 0.3])
        elif k < 0.5:                     # nearly antipodal
            ra2, dec2 = ra1 + PI + rng.choice([0.0, 1e-5, -1e-3]), -dec1
        else:
            ra2, dec2 = rng.uniform(-TWO_PI, 2 * TWO_PI), math.asin(rng.uniform(-1, 1))
        dec2 = min(HALF_PI, max(-HALF_PI, dec2))
        rows.append((ra1, dec1, ra2, dec2))
    return rows


def angsep_case(ctx, rows, floor, site='angular_separation'):
    """real angular_separation(psi_floor=floor) vs the extracted model (M_SelectNum.angsep_floor_list on doubles)
    vs an independent oracle (Vincenty formula, max with the floor)"""
    from skyllh.core.utils.coords import angular_separation
    case = {'angsep': {'rows': [list(r) for r in rows], 'floor': floor}}
    ctx.count('angsep:' + ('none' if floor is None else 'nan' if floor != floor else 'floor'))
    a = [np.array([r[i] for r in rows], dtype=np.float64) for i in range(4)]
    keep = [x.copy() for x in a]
    try:
        got = angular_separation(a[0], a[1], a[2], a[3], psi_floor=floor)
        impl = [float(x) for x in got]
    except Exception as ex:  # noqa: BLE001
        ctx.violation(site, 'raises-' + type(ex).__name__, 'angular_separation raises', case=case)
        return
    if any(x.tobytes() != k.tobytes() for x, k in zip(a, keep)):
        ctx.violation(site, 'argument-modified', 'angular_separation modified an argument array', case=case)
    plain = [float(x) for x in angular_separation(a[0], a[1], a[2], a[3])]
    finite = floor is not None and floor == floor
    for i, (r, v) in enumerate(zip(rows, impl)):
        if any(x != x for x in r):
            continue
        want = vincenty(r[0], r[1], r[2], r[3])
        if finite:
            want = max(floor, want)
            if v < floor or (v != floor and v != plain[i]):
                ctx.violation(site, 'floor-not-applied', 'result is below psi_floor or neither the floor nor the separation',
                              case=dict(case, row=i), impl=v, model=[floor, plain[i]],
                              predicate='psi_floor <= result and result in {psi_floor, psi}')
        if not (abs(v - want) <= ANGSEP_TOL):
            ctx.violation(site, 'wrong-separation', 'differs from max(psi_floor, great-circle distance)',
                          case=dict(case, row=i), impl=v, model=want, predicate='result = max(floor, distance)')
    if _EXE['path']:
        line = 'angsepf ' + ('none' if floor is None else ('nan' if floor != floor else hexf(floor))) + ' ' \
               + ' '.join(hexf(x) for r in rows for x in r)
        out = common.ocaml_run(_EXE['path'], [line])
        mod = [float('nan') if w == 'nan' else float.fromhex(w) for w in out[0].split()] if out and out[0] != 'ERR' else None
        ctx.corr_cases += 1
        ok = mod is not None and len(mod) == len(impl) and all(
            (x != x and y != y) or abs(x - y) <= ANGSEP_TOL for x, y in zip(impl, mod))
        if not ok:
            ctx.disagree(site, case, impl[:20], (mod or ['ERR'])[:20])


def angsep_stream(ctx, rng):
    floors = [None, 0.0, 0.01, 0.5, math.radians(5), 3.0, 3.5, -0.1]
    for i in range(ctx.budget(40, 600)):
        rows = angsep_rows(rng, rng.choice([1, 3, 10, 40]))
        angsep_case(ctx, rows, floors[i % len(floors)])
    # deterministic corpus: seam, poles, antipodal, floor above / below, and a malformed stream (NaN)
    fixed = [(0.0, 0.0, 0.0, 0.0), (1e-4, 0.1, TWO_PI - 1e-4, 0.1), (0.3, HALF_PI, 2.0, HALF_PI), (0.3, HALF_PI, 2.0, -HALF_PI),
             (1.0, 0.2, 1.0 + PI, -0.2), (7.0, 0.0, 0.4, 0.0), (-6.0, 0.0, 0.4, 0.0), (1.0, 0.5, 1.2, 0.4)]
    for fl in (None, 0.0, 0.25, 1.0, 4.0):
        angsep_case(ctx, fixed, fl)
    nan = float('nan')
    angsep_case(ctx, fixed + [(nan, 0.0, 1.0, 0.0), (1.0, nan, 1.0, 0.0)], 0.2)
    angsep_case(ctx, fixed, nan)
    angsep_case(ctx, [], 0.3)


# ------------------------------------------------------------------ driver

def one_case(ctx, c, terms, checks, with_model=True):
    srcs = [tuple(s) for s in c['srcs']]
    evs = [list(e) for e in c['evs']]
    spec = c['spec']
    ns, ne = len(srcs), len(evs)
    mats, margin, frag = crit_matrices(spec, srcs, evs)
    crit = conj(mats) if ns else []
    ctx.count('method:' + shape(spec) if len(shape(spec)) < 24 else 'method:deep-chain')
    ctx.count('ns:' + (str(ns) if ns <= 12 else ('<=128' if ns <= 128 else '>128')))
    ctx.count('ne:' + ('0' if ne == 0 else '<=10' if ne <= 10 else '<=100' if ne <= 100 else '>100'))
    orig_x, pairs_x = expected(crit, ns, ne)
    ctx.count('selected:' + ('none' if not orig_x else 'all' if len(orig_x) == ne else 'some'))
    case = {'srcs': srcs, 'evs': evs, 'spec': spec, 'sort': c.get('sort', False)}
    impl, same, rows_ok = run_select(spec, srcs, evs)
    check_select(ctx, spec, srcs, evs, impl, same, rows_ok, crit, case)
    if with_model:
        terms.append(term_select(spec, srcs, evs))
        checks.append(('select', site_of(spec), case, impl))
    # the trial data manager: with this method, with / without index field; and without a method
    for sort in ([c.get('sort', False)] if not c.get('both') else [False, True]):
        ti = run_tdm(spec, srcs, evs, sort)
        case_t = dict(case, sort=sort, tdm=True)
        check_tdm(ctx, spec, srcs, evs, sort, ti, crit, case_t, extra=dict(TDM_EXTRA))
        ctx.count('tdm:sort' if sort else 'tdm:nosort')
        if with_model:
            perm = ints(np.argsort(np.array([evs[j][4] for j in orig_x], dtype=np.float64)))
            terms.append(term_tdm(spec, srcs, evs, sort, perm))
            checks.append(('tdm', 'TrialDataManager.initialize_trial', case_t, ti))
    if c.get('nosel'):
        for sort in (False, True):
            ti = run_tdm(None, srcs, evs, sort)
            allc = [[True] * ne for _ in range(ns)]
            case_t = dict(case, spec=None, sort=sort, tdm=True)
            check_tdm(ctx, ['all'], srcs, evs, sort, ti, allc, case_t, extra=dict(TDM_EXTRA))
            ctx.count('tdm:no-method')
            if with_model:
                perm = ints(np.argsort(np.array([e[4] for e in evs], dtype=np.float64)))
                terms.append(term_tdm(None, srcs, evs, sort, perm))
                checks.append(('tdm', 'TrialDataManager.initialize_trial', case_t, ti))


def malformed_case(ctx, rng, terms, checks):
    """hand-given incoming tables and illegal configurations: model vs implementation only"""
    ns = rng.choice([1, 2, 3])
    specs = [['all'], ['dec', 0.5], ['ra', 0.5], ['box', 0.5], ['angerr', 0.1, 0.02, 0.3],
             ['and', ['dec', 1.0], ['angerr', 0.1, 0.02, 0.3]], ['and', ['all'], ['box', 1.0]]]
    if ns == 1:     # PsiFunc ignores a hand-given table (model: MPsi does too); only chains reach it in practice
        specs += [['psifunc', 3.0], ['psifunc', 20.0], ['and', ['psifunc', 20.0], ['dec', 1.0]]]
    c = gen_case(ctx, rng, ns=ns, ne=rng.choice([1, 3, 6]), spec=rng.choice(specs))
    if c is None:
        return
    srcs = [tuple(s) for s in c['srcs']]
    evs = c['evs']
    kind = rng.choice(['partial', 'dup', 'negative', 'range', 'psifunc-ns'])
    ctx.count('malformed:' + kind)
    if kind == 'psifunc-ns':
        srcs = gen_sources(rng, rng.choice([2, 3]))
        spec = rng.choice([['psifunc', 3.0], ['and', ['dec', 1.0], ['psifunc', 3.0]]])
        impl, _, _ = run_select(spec, srcs, evs)
        terms.append(term_select(spec, srcs, evs))
        checks.append(('select', site_of(spec) + '[malformed]', {'srcs': srcs, 'evs': evs, 'spec': spec, 'malformed': kind}, impl))
        return
    inc = gen_incoming(rng, len(srcs), len(evs), kind)
    impl, _, _ = run_select(c['spec'], srcs, evs, inc=inc)
    terms.append(term_select(c['spec'], srcs, evs, inc=inc))
    checks.append(('select', site_of(c['spec']) + '[incoming]',
                   {'srcs': srcs, 'evs': evs, 'spec': c['spec'], 'inc': inc, 'malformed': kind}, impl))


def compare(ctx, checks, vals):
    for (kind, site, case, impl), v in zip(checks, vals):
        ctx.corr_cases += 1
        try:
            m = canon_model(v, kind)
        except Exception as ex:  # noqa: BLE001
            m = ['unparsed', repr(v)[:200], str(ex)]
        imp = list(impl)
        if imp[0] == 'Ok' and imp[2] is not None:
            imp[2] = [tuple(p) for p in imp[2]]
        if m != imp:
            ctx.disagree(site, case, imp, m)


def eval_and_compare(ctx, name, terms, checks):
    if not terms:
        return
    if not ctx.model_ok:
        ctx.notes.append('model did not build: implementation-only predicates were evaluated')
        return
    try:
        # slices evaluated concurrently (coq_eval itself only parallelises above 400 terms)
        import concurrent.futures
        step = 48 if len(terms) <= 800 else 200
        slices = [(i, terms[i:i + step]) for i in range(0, len(terms), step)]
        with concurrent.futures.ThreadPoolExecutor(max_workers=8) as ex:
            parts = list(ex.map(lambda t: common.coq_eval(f'{name}_{t[0]}', IMPORTS, t[1], timeout=900), slices))
        vals = [v for part in parts for v in part]
        compare(ctx, checks, vals)
    except RuntimeError as ex:
        ctx.broken.append({'kind': 'model-eval', 'error': str(ex)[:1500]})


def setup_criteria(ctx):
    _EXE['path'] = common.ocaml_build(ctx, 'c05') if ctx.model_ok else None
    if not _EXE['path']:
        ctx.notes.append('extracted criteria not available: criterion matrices of the model terms come from the Python oracle')


def run(ctx):
    rng = ctx.rng
    setup_criteria(ctx)
    terms, checks = [], []
    cases = [dict(c, both=True, nosel=True) for c in corpus_cases() + corpus_files()]
    ctx.count('corpus_cases', len(cases))
    # every regime the property names, at least once
    fixed = []
    for ns in ([1, 2, 127, 128, 129, 200] if not ctx.thorough() else [1, 2, 3, 64, 127, 128, 129, 130, 200, 256, 257]):
        for k in (['box', 'ra', 'dec'] if ns > 12 else ['box']):
            fixed.append(dict(ns=ns, ne=(12 if ns > 12 else 25), spec=[k, rng.choice([0.05, 0.2, 1.0])]))
        if ns > 12:
            fixed.append(dict(ns=ns, ne=8, spec=['and', ['dec', 0.5], ['box', 1.0]]))
            fixed.append(dict(ns=ns, ne=8, spec=['and', ['box', 1.0], ['angerr', 0.1, 0.02, 0.3]]))
    for d in DELTAS:
        fixed.append(dict(ns=3, ne=20, spec=['box', d], delta=d))
        fixed.append(dict(ns=2, ne=15, spec=['and', ['ra', d], ['dec', d]], delta=d))
    fixed.append(dict(ns=1, ne=20, spec=['and', ['box', 1.0], ['psifunc', 3.0]]))
    fixed.append(dict(ns=1, ne=20, spec=['and', ['psifunc', 3.0], ['angerr', 0.1, 0.02, 0.3]]))
    fixed.append(dict(ns=4, ne=30, spec=['box', 1e-3], mix=(0, 0, 0, 0, 1)))       # none selected
    fixed.append(dict(ns=4, ne=30, spec=['box', PI]))                               # all selected
    fixed.append(dict(ns=3, ne=0, spec=['and', ['box', 0.2], ['angerr', 0.1, 0.02, 0.3]]))
    for f in fixed:
        c = gen_case(ctx, rng, **f)
        if c is not None:
            cases.append(dict(c, both=(f['ns'] <= 12), nosel=(f['ns'] <= 3)))
    n_cases = ctx.budget(110, 3500)
    while len(cases) < n_cases:
        c = gen_case(ctx, rng)
        if c is not None:
            cases.append(c)
    n_hist = ctx.budget(45, 500)
    for c in cases:
        ctx.case({'srcs': c['srcs'], 'evs': c['evs'], 'spec': c['spec'], 'sort': c.get('sort')})
        one_case(ctx, c, terms, checks)
        if n_hist > 0 and len(c['srcs']) <= 12 and len(c['evs']) >= 1:
            n_hist -= 1
            history_probes(ctx, rng, c, terms, checks)
    for c in cases[-3:]:
        ctx.sample({'n_sources': len(c['srcs']), 'n_events': len(c['evs']), 'method': shape(c['spec']),
                    'sources': [list(s) for s in c['srcs'][:3]], 'events_ra_dec': [e[:2] for e in c['evs'][:3]]})
    for _ in range(ctx.budget(30, 600)):
        malformed_case(ctx, rng, terms, checks)
    angsep_stream(ctx, rng)
    eval_and_compare(ctx, 'c05', terms, checks)
    # large inputs: predicates on the implementation only (the list model would be slow, not different)
    for i in range(ctx.budget(8, 120)):
        ns = rng.choice([20, 100, 128, 129, 200])
        ne = rng.choice([200, 500, 1000, 2000])
        spec = rng.choice([['box', 0.1], ['and', ['box', 0.2], ['angerr', 0.1, 0.02, 0.3]], ['and', ['dec', 0.1], ['ra', 0.3]],
                           ['ra', 0.05], ['and', ['all'], ['dec', 0.05]]])
        c = gen_case(ctx, rng, ns=ns, ne=ne, spec=spec, delta=spec[1] if spec[0] != 'and' else 0.2)
        if c is None:
            continue
        ctx.case({'big': i, 'ns': ns, 'ne': ne, 'spec': spec})
        ctx.count('big_cases')
        one_case(ctx, c, [], [], with_model=False)


def replay(ctx, rp):
    c = rp.get('case') or {}
    if c.get('angsep'):
        setup_criteria(ctx)
        ctx.case(c)
        angsep_case(ctx, [tuple(r) for r in c['angsep']['rows']], c['angsep']['floor'])
        return
    if not c.get('srcs'):
        ctx.notes.append('replay file has no concrete input (broken obligation): re-running the full check')
        return run(ctx)
    terms, checks = [], []
    setup_criteria(ctx)
    srcs = [tuple(s) for s in c['srcs']]
    evs = [list(e) for e in c['evs']]
    if c.get('angsep'):
        ctx.case(c)
        angsep_case(ctx, [tuple(r) for r in c['angsep']['rows']], c['angsep']['floor'])
        return
    if 'inc' in c or c.get('malformed'):
        inc = [tuple(p) for p in c['inc']] if c.get('inc') is not None else None
        impl, _, _ = run_select(c['spec'], srcs, evs, inc=inc)
        terms.append(term_select(c['spec'], srcs, evs, inc=inc))
        checks.append(('select', site_of(c['spec']) + '[incoming]', c, impl))
    elif c.get('spec') is None:
        one_case(ctx, {'srcs': srcs, 'evs': evs, 'spec': ['all'], 'nosel': True, 'both': True}, terms, checks)
    else:
        small = len(srcs) * max(1, len(evs)) <= 8000
        ctx.case(c)
        one_case(ctx, {'srcs': srcs, 'evs': evs, 'spec': c['spec'], 'sort': c.get('sort', False), 'both': True},
                 terms, checks, with_model=small)
    eval_and_compare(ctx, 'c05r', terms, checks)
