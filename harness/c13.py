"""C13 — flux models: integrals, units, parameter updates and copies are consistent.

Correspondence: the real skyllh flux profile / FactorizedFluxModel classes
against coq/model/M_Flux.v extracted to OCaml and executed on IEEE doubles
(ocaml/c13), on generated objects + op sequences (set_params / property
setters / move / copy) + observations (__call__, get_integral, cdf, get_param,
object state).  Floats are compared with a tolerance derived from the case.

Predicates (failing-input search, independent of the model): get_integral vs
scipy quad of __call__, additivity, unit invariance, product form, history
probes (every observable read before the first op and after every op, compared
with a freshly constructed twin; repeated reads), argument arrays unchanged,
copy independence — evaluated on the real objects."""
import math
import warnings

import numpy as np

from harness import common

GEN_MODULES = ['flux']
MODEL_TARGETS = ['model/M_Flux.vo']
PROOF_TARGETS = ['proofs/P_Flux.vo', 'proofs/P_FluxInt.vo', 'proofs/P_FluxObj.vo', 'proofs/P_FluxStore.vo',
                 'proofs/P_FluxDeep.vo', 'proofs/P_FluxRv.vo']
LEVEL = 'proof'
RULE = ('all profile classes (unity/power-law/cut-off/log-parabola/function energy; unity/box/gaussian time; '
        'unity/point spatial) and FactorizedFluxModel with random parameters (gamma = 1, 1 +- 1e-3..1e-12, generic), '
        'intervals inside / across / outside the support, argument units {GeV,TeV,PeV} x {s,day,yr}, op sequences '
        '(set_params / setter / move / copy / copy(newparams)) of length 0..4; a case is non-trivial when distinct by '
        '(objects, ops, observations) hash')
TRUSTED = [
    'Coq 8.16.1 kernel incl. vm_compute (no native_compute)',
    'axioms printed by Print Assumptions: the standard-library real-number axioms (ClassicalDedekindReals.sig_not_dec, '
    'sig_forall_dec, functional_extensionality_dep) and Classical_Prop.classic (Coquelicot)',
    'Section hypothesis (premise of the Gaussian theorems): erf is differentiable with derivative 2/sqrt(pi) exp(-x^2)',
    'translator/py2coq.py: per-element reading of the numpy formulas of flux_model.py / math.py (102 kernels of G_flux.v, '
    'each pinned by one K_ lemma)',
    'hand model M_Flux.v of class dispatch, setter / set_params plumbing, constructors, deepcopy as allocation in an '
    'explicit store; validated by this correspondence',
    'OCaml extraction (ExtrOcamlBasic only) and the hand-written float record / driver ocaml/c13/driver.ml',
    'theorems are about the real-number reading; float rounding (cancellation near gamma = 1, erf tails) is outside them',
    'unit conversion modelled as a factor table (astropy unit.to = quotient of factors)',
    'numerically integrated profiles (cut-off, log-parabola, function-based): scipy quad is an oracle; its contract (returns the '
    'Riemann integral of an integrable integrand) is a premise of C13_numeric_int / C13_numeric_additive',
    'not modelled: angle units, None as ra/dec, NaN parameter values, EpeakFunctionEnergyProfile, photospline profile',
]

NAMES = ['E0', 'gamma', 'Ecut', 'alpha', 'beta', 't_start', 't_stop', 't0', 'tw', 'sigma_t', 'ra', 'dec', 'Phi0']
EFAC = [1.0, 1e3, 1e6]
TFAC = [1.0, 86400.0, 31557600.0]
_env = {}


def env():
    if not _env:
        from astropy import units as u
        from skyllh.core.config import Config
        from skyllh.core import flux_model as fm

        class FamEnergyFluxProfile(fm.FunctionEnergyFluxProfile):
            """stub: FunctionEnergyFluxProfile is abstract (math_function_str)"""
            @property
            def math_function_str(self):
                return 'f(E)'
        _env.update(u=u, cfg=Config(), fm=fm, Fam=FamEnergyFluxProfile,
                    EU=[u.GeV, u.TeV, u.PeV], TU=[u.s, u.day, u.yr])
    return _env


def fam(k, a, b):
    if k == 0:
        return lambda E: a * np.power(E, -b)
    if k == 1:
        return lambda E: a * np.exp(-E / b)
    return lambda E: a + b * E


def uarg(units, code):
    return None if code < 0 else units[code]


def exc_kind(ex):
    n = type(ex).__name__
    return n if n in ('IndexError', 'KeyError', 'TypeError', 'ValueError', 'AttributeError') else 'Other:' + n


# ------------------------------------------------------------------ implementation runner

def build_obj(e, store, o):
    fm, cfg = e['fm'], e['cfg']
    k = o[0]
    if k == 'UE':
        return fm.UnityEnergyFluxProfile(energy_unit=e['EU'][o[1]], cfg=cfg)
    if k == 'PL':
        return fm.PowerLawEnergyFluxProfile(E0=o[2], gamma=o[3], energy_unit=e['EU'][o[1]], cfg=cfg)
    if k == 'CO':
        return fm.CutoffPowerLawEnergyFluxProfile(E0=o[2], gamma=o[3], Ecut=o[4], energy_unit=e['EU'][o[1]], cfg=cfg)
    if k == 'LP':
        return fm.LogParabolaPowerLawEnergyFluxProfile(E0=o[2], alpha=o[3], beta=o[4], energy_unit=e['EU'][o[1]], cfg=cfg)
    if k == 'FN':
        return e['Fam'](fam(o[2], o[3], o[4]), energy_unit=e['EU'][o[1]], cfg=cfg)
    if k == 'UT':
        p = fm.UnityTimeFluxProfile(time_unit=e['TU'][o[1]], cfg=cfg)
        p.t_start, p.t_stop = o[2], o[3]
        return p
    if k == 'BX':
        return fm.BoxTimeFluxProfile(t0=o[2], tw=o[3], time_unit=e['TU'][o[1]], cfg=cfg)
    if k == 'BF':
        return fm.BoxTimeFluxProfile.from_start_and_stop_time(o[2], o[3], time_unit=e['TU'][o[1]], cfg=cfg)
    if k == 'GA':
        return fm.GaussianTimeFluxProfile(t0=o[2], sigma_t=o[3], tol=o[4], time_unit=e['TU'][o[1]], cfg=cfg)
    if k == 'US':
        return fm.UnitySpatialFluxProfile(cfg=cfg)
    if k == 'PT':
        return fm.PointSpatialFluxProfile(ra=o[1], dec=o[2], cfg=cfg)
    if k == 'FM':
        return fm.FactorizedFluxModel(Phi0=o[1], spatial_profile=store[o[2]], energy_profile=store[o[3]],
                                      time_profile=store[o[4]], cfg=cfg)
    raise ValueError(k)


def build_objs(e, store, o):
    """objects one entry of case['objs'] adds to the store (PointlikeFFM / SteadyPointlikeFFM create their
    own point profile (and unity time profile): these come first, then the model)"""
    fm, cfg = e['fm'], e['cfg']
    if o[0] == 'PF':       # ['PF', Phi0, le, lt, ra, dec]
        m = fm.PointlikeFFM(Phi0=o[1], energy_profile=store[o[2]], time_profile=store[o[3]], ra=o[4], dec=o[5], cfg=cfg)
        return [m.spatial_profile, m]
    if o[0] == 'SF':       # ['SF', Phi0, le, ra, dec, tu]
        m = fm.SteadyPointlikeFFM(Phi0=o[1], energy_profile=store[o[2]], ra=o[3], dec=o[4], time_unit=e['TU'][o[5]], cfg=cfg)
        return [m.spatial_profile, m.time_profile, m]
    return [build_obj(e, store, o)]


def is_model(e, x):
    return isinstance(x, e['fm'].FactorizedFluxModel)


def do_copy(e, store, l, newparams=None):
    x = store[l]
    c = x.copy(newparams) if newparams is not None else x.copy()
    if is_model(e, x):
        store += [c.spatial_profile, c.energy_profile, c.time_profile, c]
    else:
        store.append(c)


def apply_op(e, store, op):
    k = op[0]
    if k == 'SP':
        store[op[1]].set_params(dict((n, v) for n, v in op[2]))
    elif k == 'SA':
        setattr(store[op[1]], op[2], op[3])     # a non-property name just creates an attribute
    elif k == 'SAP':      # ['SAP', l, ls, name, v]: IsPointlike property of the model at l; writes the point profile at ls
        setattr(store[op[1]], op[3], op[4])
    elif k == 'MV':
        x = store[op[1]]
        x.move(op[2], unit=uarg(e['TU'], op[3]))
    elif k == 'CP':
        do_copy(e, store, op[1])
    elif k == 'CW':
        do_copy(e, store, op[1], dict((n, v) for n, v in op[2]))
    else:
        raise ValueError(k)


def state_tokens(e, x):
    fm = e['fm']
    eu = lambda p: e['EU'].index(p.energy_unit)
    tu = lambda p: e['TU'].index(p.time_unit)
    if isinstance(x, e['Fam']):
        return ['FN', eu(x)]
    if isinstance(x, fm.CutoffPowerLawEnergyFluxProfile):
        return ['CO', eu(x), x._E0, x._gamma, x._Ecut]
    if isinstance(x, fm.LogParabolaPowerLawEnergyFluxProfile):
        return ['LP', eu(x), x._E0, x._alpha, x._beta]
    if isinstance(x, fm.PowerLawEnergyFluxProfile):
        return ['PL', eu(x), x._E0, x._gamma]
    if isinstance(x, fm.UnityEnergyFluxProfile):
        return ['UE', eu(x)]
    if isinstance(x, fm.UnityTimeFluxProfile):
        return ['UT', tu(x), x._t_start, x._t_stop]
    if isinstance(x, fm.BoxTimeFluxProfile):
        return ['BX', tu(x), x._t_start, x._t_stop]
    if isinstance(x, fm.GaussianTimeFluxProfile):
        return ['GA', tu(x), x._t_start, x._t_stop, x._sigma_t, x._tol]
    if isinstance(x, fm.UnitySpatialFluxProfile):
        return ['US']
    if isinstance(x, fm.PointSpatialFluxProfile):
        return ['PT', x._ra, x._dec]
    if is_model(e, x):
        return ['FM', x._Phi0]
    raise ValueError(type(x))


def maybe_int(v):
    """integral argument values are handed to the implementation as Python ints (dtype independence)"""
    return int(v) if isinstance(v, float) and math.isfinite(v) and v == int(v) and abs(v) < 2 ** 40 else v


def observe(e, store, ob):
    fm = e['fm']
    k = ob[0]
    if k in ('EC', 'EI', 'TC', 'TI', 'CD'):
        ob = ob[:3] + [maybe_int(v) for v in ob[3:]]
    x = store[ob[1]] if ob[1] < len(store) else None
    if k in ('EC', 'EI'):
        if not isinstance(x, fm.EnergyFluxProfile):
            return ['E:TypeError']
        U = uarg(e['EU'], ob[2])
        if k == 'EC':
            return [float(x(ob[3], unit=U)[0])]
        if type(x) in (fm.UnityEnergyFluxProfile, fm.PowerLawEnergyFluxProfile):
            return [float(np.atleast_1d(x.get_integral(ob[3], ob[4], unit=U))[0])]
        return ['quad']
    if k == 'RP':         # extension: pdf of the scipy rv built by skyllh.core.utils.flux_model from the profile
        from skyllh.core.utils.flux_model import create_scipy_stats_rv_continuous_from_TimeFluxProfile as mk
        try:
            rv = mk(x)
        except TypeError:
            return ['E:TypeError']
        # the helper's own _pdf (scipy's masking to the support [a, b] = [t_start, t_stop] is scipy's business)
        return [float(np.atleast_1d(rv.dist._pdf(np.atleast_1d(maybe_int(ob[2]))))[0])]
    if k == 'TT':
        if not isinstance(x, fm.TimeFluxProfile):
            return ['E:TypeError']
        return [float(x.get_total_integral())]
    if k in ('TC', 'TI', 'CD'):
        if not isinstance(x, fm.TimeFluxProfile) or (k == 'CD' and not hasattr(x, 'cdf')):
            return ['E:TypeError']
        U = uarg(e['TU'], ob[2])
        if k == 'TC':
            return [float(x(ob[3], unit=U)[0])]
        if k == 'CD':
            return [float(x.cdf(ob[3], unit=U)[0])]
        return [float(np.atleast_1d(x.get_integral(ob[3], ob[4], unit=U))[0])]
    if k == 'PR':         # ['PR', l, ls]: IsPointlike getters of a pointlike model
        if not isinstance(x, fm.PointlikeFFM):
            return ['E:TypeError', 'E:TypeError']
        return [float(x.ra), float(x.dec)]
    if k == 'TU':
        if not is_model(e, x):
            return ['E:TypeError']
        return [float(x.to_internal_flux_unit())]
    if k == 'SC':
        if not isinstance(x, fm.SpatialFluxProfile):
            return ['E:TypeError']
        return [float(x(ob[2], ob[3])[0])]
    if k == 'FC':
        if not is_model(e, x):
            return ['E:TypeError']
        (_, _, hr, ra, dec, he, E, ht, t, eu, tu) = ob
        E, t = maybe_int(E), maybe_int(t)
        v = x(ra=ra if hr in (1, 2) else None, dec=dec if hr in (1, 3) else None, E=E if he else None, t=t if ht else None,
              energy_unit=uarg(e['EU'], eu), time_unit=uarg(e['TU'], tu))
        assert v.shape == (1, 1, 1), v.shape
        return [float(v[0, 0, 0])]
    if k == 'GP':
        if x is None:
            return ['E:IndexError']
        v = x.get_param(ob[2])
        return ['nan'] if (isinstance(v, float) and math.isnan(v)) else [float(v)]
    if k == 'ST':
        if x is None:
            return ['E:IndexError']
        return state_tokens(e, x)
    raise ValueError(k)


def run_impl(e, case):
    """-> (result tokens | ['ERR', kind], store)"""
    store = []
    try:
        for o in case['objs']:
            store += build_objs(e, store, o)
        for op in case['ops']:
            if op[1] >= len(store):
                raise IndexError(op[1])
            apply_op(e, store, op)
    except Exception as ex:
        return ['ERR', exc_kind(ex)], store
    out = []
    for ob in case['obs']:
        out += observe(e, store, ob)
    return out, store


# ------------------------------------------------------------------ model line

def fx(x):
    return float(x).hex() if math.isfinite(x) else ('nan' if math.isnan(x) else ('inf' if x > 0 else '-inf'))


def tok(x):
    return fx(x) if isinstance(x, float) else str(x)


def model_line(case):
    objs = []
    n = 0
    for o in case['objs']:
        if o[0] == 'PF':
            objs += [['PT', o[4], o[5]], ['FM', o[1], n, o[2], o[3]]]; n += 2
        elif o[0] == 'SF':
            objs += [['PT', o[3], o[4]], ['UT', o[5], -math.inf, math.inf], ['FM', o[1], n, o[2], n + 1]]; n += 3
        else:
            objs.append(o); n += 1
    t = [str(len(objs))]
    for o in objs:
        t += [tok(x) for x in o]
    t.append(str(len(case['ops'])))
    for op in case['ops']:
        if op[0] in ('SP', 'CW'):
            t += [op[0], str(op[1]), str(len(op[2]))]
            for nme, v in op[2]:
                t += [nme, fx(v)]
        elif op[0] == 'SAP':
            t += ['SA', str(op[2]), op[3], fx(op[4])]
        else:
            t += [tok(x) for x in op]
    nobs = 0
    ot = []
    for ob in case['obs']:
        if ob[0] == 'PR':
            ot += ['GP', str(ob[2]), 'ra', 'GP', str(ob[2]), 'dec']; nobs += 2
        else:
            ot += [tok(x) for x in ob]; nobs += 1
    t.append(str(nobs))
    return ' '.join(t + ot)


# ------------------------------------------------------------------ comparison

def obs_tol(case, ob, store_kinds):
    """absolute tolerance floor for one observation (conditioning of the formula, not of the model)"""
    k = ob[0]
    if k == 'RP':
        return 1e-300
    if k == 'CD':
        return 1e-12
    if k == 'TT':
        o = store_kinds.get(ob[1])
        if o and o[0] == 'GA':
            return 1e-13 * abs(o[3]) * 4
        return 1e-9
    if k in ('TI',):
        o = store_kinds.get(ob[1])
        if o and o[0] == 'GA':
            return 1e-13 * abs(o[3]) * 4
        if o:
            return 1e-9 * (abs(ob[3]) + abs(ob[4])) * (1 if ob[2] < 0 else TFAC[ob[2]])
    return 0.0


def close(a, b, floor):
    if a == b:
        return True
    if math.isnan(a) or math.isnan(b):
        return math.isnan(a) and math.isnan(b)
    if math.isinf(a) or math.isinf(b):
        return False
    return abs(a - b) <= 1e-9 * max(abs(a), abs(b)) + floor


def parse_tok(s):
    if s in ('nan',):
        return s
    if s in ('inf', '-inf'):
        return float(s)
    if s.startswith('0x') or s.startswith('-0x'):
        return float.fromhex(s)
    try:
        return int(s)
    except ValueError:
        return s


def final_kinds(case, impl_store, e):
    """kind + parameters of every final store object, from the implementation (for tolerances only)"""
    out = {}
    for i, x in enumerate(impl_store):
        try:
            st = state_tokens(e, x)
        except Exception:
            continue
        if st[0] == 'GA':
            out[i] = ['GA', st[1], None, st[4]]
        else:
            out[i] = st
    return out


def compare(ctx, case, impl, model_out, kinds):
    ctx.corr_cases += 1
    mt = [parse_tok(s) for s in model_out.split()]
    if impl and impl[0] == 'ERR' or (mt and mt[0] == 'ERR'):
        if list(impl) != mt:
            ctx.disagree('flux_model.ops', case, impl, mt, 'error kind / error presence differs')
        return
    # expand per observation to align tolerances
    floors = []
    for ob in case['obs']:
        n = 2 if ob[0] == 'PR' else 1
        if ob[0] == 'ST':
            n = None
        floors.append((ob, n))
    if len(mt) != len(impl):
        ctx.disagree('flux_model.observe', case, impl, mt, 'different number of result tokens')
        return
    i = 0
    for ob, n in floors:
        if n is None:
            # state tokens: length from the implementation's kind
            kind = impl[i]
            n = {'UE': 2, 'PL': 4, 'CO': 5, 'LP': 5, 'FN': 2, 'UT': 4, 'BX': 4, 'GA': 6, 'US': 1, 'PT': 3, 'FM': 2}.get(kind, 1)
        fl = obs_tol(case, ob, kinds)
        for j in range(i, i + n):
            a, b = impl[j], mt[j]
            ok = (a == b) if not (isinstance(a, float) and isinstance(b, float)) else close(a, b, fl)
            if isinstance(a, float) and isinstance(b, int) or isinstance(a, int) and isinstance(b, float):
                ok = float(a) == float(b)
            if ob[0] == 'ST' and isinstance(a, float) and isinstance(b, float) and not ok:
                # window edges after moves: compare relative to the window size
                ok = abs(a - b) <= 1e-9 * (abs(a) + abs(b) + 1)
            if not ok:
                ctx.disagree('flux_model.' + ob[0], {'case': case, 'obs': ob}, impl[i:i + n], mt[i:i + n],
                             f'observation {ob} differs at token {j - i}')
                return
        i += n


# ------------------------------------------------------------------ predicates (independent oracles)

def quad_pts(f, a, b, pts):
    from scipy.integrate import quad
    pts = sorted(p for p in pts if a < p < b and math.isfinite(p))
    with warnings.catch_warnings():
        warnings.simplefilter('ignore')
        r = quad(f, a, b, points=pts or None, limit=200, epsabs=0, epsrel=1e-11, full_output=True)
    return r[0], r[1]


def pred_integrals(ctx, e, case, store):
    """analytic integral == numerical integral of the profile values; additivity; unit invariance"""
    fm = e['fm']
    rng = ctx.rng
    for l, x in enumerate(store):
        if isinstance(x, fm.EnergyFluxProfile):
            su = e['EU'].index(x.energy_unit)
            if isinstance(x, fm.PowerLawEnergyFluxProfile):
                E0 = x.E0
                lo = E0 * 10 ** rng.uniform(-2, 1)
            else:
                lo = 10 ** rng.uniform(-1, 2)
            a = lo
            b = a * 10 ** rng.uniform(0, 2)
            c = b * 10 ** rng.uniform(0, 1.5)
            numeric = type(x) not in (fm.UnityEnergyFluxProfile, fm.PowerLawEnergyFluxProfile)
            if numeric:
                # the code integrates these with scipy quad at default settings: probe only intervals of
                # modest dynamic range around the profile's own scale, where quad is reliable (its accuracy
                # on wide intervals with a sharply concentrated integrand is not part of the property)
                scale = getattr(x, '_Ecut', None) or getattr(x, '_E0', None) or 10 ** rng.uniform(0, 2)
                a = scale * 10 ** rng.uniform(-1, 0.3)
                b = a * 10 ** rng.uniform(0.05, 0.6)
                c = b * 10 ** rng.uniform(0.05, 0.6)
            if numeric and not ctx.thorough() and rng.random() < 0.5:
                continue
            try:
                iab = float(x.get_integral(a, b)[0])
                ibc = float(x.get_integral(b, c)[0])
                iac = float(x.get_integral(a, c)[0])
            except Exception as ex:
                ctx.violation(type(x).__name__ + '.get_integral', 'raises-' + exc_kind(ex), str(ex)[:200],
                              case={'case': case, 'loc': l, 'interval': [a, c]}, predicate='get_integral returns')
                continue
            q, qerr = quad_pts(lambda E: float(x(E)[0]), a, b, [])
            g = getattr(x, '_gamma', 0.0)
            cond = 1.0        # no widening near gamma = 1: since fix 9e8285f the formula is well conditioned
            # numerically integrated profiles: the code itself uses scipy quad with its default
            # tolerances (epsabs = epsrel = 1.49e-8); ask no more than that
            num_tol = (1e-6 * max(abs(q), abs(iab)) + 1e-7) if numeric else 0.0
            tol = 1e-8 * cond * max(abs(q), abs(iab)) + 10 * qerr + num_tol
            if not (abs(q - iab) <= tol):
                ctx.violation(type(x).__name__ + '.get_integral', 'integral-differs-from-quadrature',
                              f'get_integral({a},{b}) = {iab}, quad of __call__ = {q}',
                              case={'case': case, 'loc': l, 'interval': [a, b]}, impl=iab, model=q,
                              predicate='get_integral(E1,E2) == quad(__call__, E1, E2)')
            tol = 1e-8 * cond * (abs(iab) + abs(ibc) + abs(iac)) + ((1e-6 * abs(iac) + 3e-7) if numeric else 0)
            if not (abs(iab + ibc - iac) <= tol):
                ctx.violation(type(x).__name__ + '.get_integral', 'not-additive',
                              f'I({a},{b}) + I({b},{c}) = {iab + ibc} != I({a},{c}) = {iac}',
                              case={'case': case, 'loc': l, 'interval': [a, b, c]}, impl=[iab, ibc, iac],
                              predicate='I(a,b) + I(b,c) == I(a,c)')
            # unit invariance of __call__ and get_integral
            for uc in range(3):
                f = EFAC[su] / EFAC[uc]          # value in unit uc of the same physical energy
                v0 = float(x(a)[0])
                v1 = float(x(a * f, unit=e['EU'][uc])[0])
                if not close(v0, v1, 1e-12 * abs(v0)):
                    ctx.violation(type(x).__name__ + '.__call__', 'unit-dependent-value',
                                  f'value at {a} (own unit) = {v0}, at {a * f} in unit {uc} = {v1}',
                                  case={'case': case, 'loc': l, 'E': a, 'unit': uc}, impl=[v0, v1],
                                  predicate='value independent of the argument unit')
                if not numeric:
                    i1 = float(x.get_integral(a * f, b * f, unit=e['EU'][uc])[0])
                    if not close(iab, i1, 1e-8 * cond * abs(iab)):
                        ctx.violation(type(x).__name__ + '.get_integral', 'unit-dependent-value',
                                      f'integral {iab} vs {i1} with arguments in unit {uc}',
                                      case={'case': case, 'loc': l, 'interval': [a, b], 'unit': uc}, impl=[iab, i1],
                                      predicate='integral independent of the argument unit')
            ctx.count('pred:energy-integral')
        elif isinstance(x, fm.TimeFluxProfile):
            su = e['TU'].index(x.time_unit)
            ts, te = x.t_start, x.t_stop
            if not (math.isfinite(ts) and math.isfinite(te)):
                ts, te = -10.0, 10.0
            w = max(te - ts, 1e-3)
            mode = rng.choice(['inside', 'across-left', 'across-right', 'cover', 'outside-left', 'outside-right'])
            if mode == 'inside':
                a = ts + w * rng.uniform(0.05, 0.45); c = ts + w * rng.uniform(0.55, 0.95)
            elif mode == 'across-left':
                a = ts - w * rng.uniform(0.1, 1); c = ts + w * rng.uniform(0.1, 0.9)
            elif mode == 'across-right':
                a = ts + w * rng.uniform(0.1, 0.9); c = te + w * rng.uniform(0.1, 1)
            elif mode == 'cover':
                a = ts - w * rng.uniform(0.1, 1); c = te + w * rng.uniform(0.1, 1)
            elif mode == 'outside-left':
                a = ts - w * rng.uniform(1.1, 2); c = ts - w * rng.uniform(0.1, 1)
            else:
                a = te + w * rng.uniform(0.1, 1); c = te + w * rng.uniform(1.1, 2)
            b = a + (c - a) * rng.uniform(0.2, 0.8)
            ctx.count('pred:time-interval:' + mode)
            iab = float(np.atleast_1d(x.get_integral(a, b))[0])
            ibc = float(np.atleast_1d(x.get_integral(b, c))[0])
            iac = float(np.atleast_1d(x.get_integral(a, c))[0])
            q, qerr = quad_pts(lambda t: float(x(t)[0]), a, c, [x.t_start, x.t_stop])
            scale = max(abs(q), abs(iac), 1e-300)
            sg = getattr(x, '_sigma_t', 0.0)
            if not (abs(q - iac) <= 1e-8 * scale + 10 * qerr + 1e-13 * abs(sg)):
                kind = 'integral-differs-from-quadrature'
                if isinstance(x, fm.GaussianTimeFluxProfile) and mode != 'inside':
                    kind = 'integral-not-clipped-to-support'
                ctx.violation(type(x).__name__ + '.get_integral', kind,
                              f'get_integral({a},{c}) = {iac}, quad of __call__ = {q} (interval {mode} support)',
                              case={'case': case, 'loc': l, 'interval': [a, c], 'mode': mode}, impl=iac, model=q,
                              predicate='get_integral(t1,t2) == quad(__call__, t1, t2)')
            if not (abs(iab + ibc - iac) <= 1e-9 * (abs(iab) + abs(ibc) + abs(iac)) + 1e-13 * abs(sg) + 1e-12 * w):
                ctx.violation(type(x).__name__ + '.get_integral', 'not-additive',
                              f'I({a},{b}) + I({b},{c}) = {iab + ibc} != I({a},{c}) = {iac}',
                              case={'case': case, 'loc': l, 'interval': [a, b, c]}, impl=[iab, ibc, iac],
                              predicate='I(a,b) + I(b,c) == I(a,c)')
            tp = ts + w * rng.uniform(0.1, 0.9)      # a time well inside the support
            for uc in range(3):
                f = TFAC[su] / TFAC[uc]
                v0 = float(x(tp)[0]); v1 = float(x(tp * f, unit=e['TU'][uc])[0])
                i1 = float(np.atleast_1d(x.get_integral(a * f, c * f, unit=e['TU'][uc]))[0])
                if not close(v0, v1, 1e-9) or not close(iac, i1, 1e-9 * (abs(iac) + w) + 1e-13 * abs(sg)):
                    ctx.violation(type(x).__name__ + '.__call__/get_integral', 'unit-dependent-value',
                                  f'value {v0} vs {v1}, integral {iac} vs {i1} with arguments in unit {uc}',
                                  case={'case': case, 'loc': l, 't': tp, 'interval': [a, c], 'unit': uc},
                                  impl=[v0, v1, iac, i1], predicate='value independent of the argument unit')
            ctx.count('pred:time-integral')


def pred_product(ctx, e, case, store):
    fm = e['fm']
    rng = ctx.rng
    for l, x in enumerate(store):
        if not is_model(e, x):
            continue
        sp, ep, tp = x.spatial_profile, x.energy_profile, x.time_profile
        ra = np.array([getattr(sp, '_ra', 0.3) or 0.3, 1.0])
        dec = np.array([getattr(sp, '_dec', 0.1) or 0.1, 0.2])
        E = np.array([10 ** rng.uniform(0, 3) for _ in range(3)])
        ts, te = tp.t_start, tp.t_stop
        if not (math.isfinite(ts) and math.isfinite(te)):
            ts, te = -5.0, 5.0
        t = np.array([ts + (te - ts) * r for r in (-0.5, 0.25, 0.5, 1.5)])
        v = x(ra=ra, dec=dec, E=E, t=t)
        want = x.Phi0 * sp(ra, dec)[:, None, None] * ep(E)[None, :, None] * tp(t)[None, None, :]
        ok = v.shape == (2, 3, 4) and np.allclose(v, want, rtol=1e-12, atol=0)
        v2 = x(E=E)
        ok2 = v2.shape == (1, 3, 1) and np.allclose(v2[0, :, 0], x.Phi0 * ep(E), rtol=1e-12, atol=0)
        if not (ok and ok2):
            ctx.violation('FactorizedFluxModel.__call__', 'not-the-product',
                          'flux differs from Phi0 * spatial x energy x time outer product',
                          case={'case': case, 'loc': l}, impl=np.asarray(v).tolist(),
                          predicate='flux[i,j,k] == Phi0 * S[i] * E[j] * T[k]')
        # parameter interface of the model
        try:
            names = x.param_names
            want_names = ('Phi0',) + tuple(sp.param_names) + tuple(ep.param_names) + tuple(tp.param_names)
            if tuple(names) != want_names:
                raise AssertionError(f'{names} != {want_names}')
        except Exception as ex:
            ctx.violation('FactorizedFluxModel.param_names', 'raises-or-wrong-' + exc_kind(ex), str(ex)[:200],
                          case={'case': case, 'loc': l}, predicate='param_names = own + profiles names')
        ctx.count('pred:product')


def spec_of(e, case):
    """independent bookkeeping of the parameter values each profile *should* have after the ops:
    list parallel to the store of dicts {kind, unit, params}; models hold references"""
    spec = []

    def newobj(o):
        k = o[0]
        if k == 'UE':
            return {'k': k, 'u': o[1], 'p': {}}
        if k == 'PL':
            return {'k': k, 'u': o[1], 'p': {'E0': o[2], 'gamma': o[3]}}
        if k == 'CO':
            return {'k': k, 'u': o[1], 'p': {'E0': o[2], 'gamma': o[3], 'Ecut': o[4]}}
        if k == 'LP':
            return {'k': k, 'u': o[1], 'p': {'E0': o[2], 'alpha': o[3], 'beta': o[4]}}
        if k == 'FN':
            return {'k': k, 'u': o[1], 'p': {}, 'f': o[2:5]}
        if k == 'UT':
            return {'k': k, 'u': o[1], 'p': {'t_start': o[2], 't_stop': o[3]}}
        if k == 'BX':
            return {'k': k, 'u': o[1], 'p': {'t0': o[2], 'tw': o[3]}}
        if k == 'BF':
            return {'k': 'BX', 'u': o[1], 'p': {'t0': 0.5 * (o[2] + o[3]), 'tw': o[3] - o[2]}}
        if k == 'GA':
            return {'k': k, 'u': o[1], 'p': {'t0': o[2], 'sigma_t': o[3]}, 'tol': o[4]}
        if k == 'US':
            return {'k': k, 'p': {}}
        if k == 'PT':
            return {'k': k, 'p': {'ra': o[1], 'dec': o[2]}}
        if k == 'FM':
            return {'k': k, 'p': {'Phi0': o[1]}, 'refs': [o[2], o[3], o[4]]}
    for o in case['objs']:
        if o[0] == 'PF':
            n = len(spec)
            spec.append({'k': 'PT', 'p': {'ra': o[4], 'dec': o[5]}})
            spec.append({'k': 'FM', 'p': {'Phi0': o[1]}, 'refs': [n, o[2], o[3]]})
        elif o[0] == 'SF':
            n = len(spec)
            spec.append({'k': 'PT', 'p': {'ra': o[3], 'dec': o[4]}})
            spec.append({'k': 'UT', 'u': o[5], 'p': {'t_start': -math.inf, 't_stop': math.inf}})
            spec.append({'k': 'FM', 'p': {'Phi0': o[1]}, 'refs': [n, o[2], n + 1]})
        else:
            spec.append(newobj(o))
    import copy as _copy

    def setp(i, pd):
        s = spec[i]
        for n, v in pd:
            if n in s['p']:
                s['p'][n] = v
        if s['k'] == 'FM':
            for r in s['refs']:
                setp(r, pd)

    def cp(i):
        s = spec[i]
        if s['k'] == 'FM':
            n = len(spec)
            for r in s['refs']:
                spec.append(_copy.deepcopy(spec[r]))
            c = _copy.deepcopy(s)
            c['refs'] = [n, n + 1, n + 2]
            spec.append(c)
        else:
            spec.append(_copy.deepcopy(s))
        return len(spec) - 1
    for op in case['ops']:
        k = op[0]
        if k == 'SP':
            setp(op[1], op[2])
        elif k == 'SA':
            s = spec[op[1]]
            if op[2] in s['p']:
                s['p'][op[2]] = op[3]
            elif op[2] in ('t_start', 't_stop'):
                s['dirty'] = True          # window edited directly: (t0, tw) bookkeeping no longer applies
        elif k == 'SAP':
            spec[op[2]]['p'][op[3]] = op[4]
        elif k == 'MV':
            s = spec[op[1]]
            if s['k'] in ('BX', 'GA'):
                f = 1.0 if op[3] < 0 else TFAC[op[3]] / TFAC[s['u']]
                s['p']['t0'] = s['p']['t0'] + op[2] * f
        elif k == 'CP':
            cp(op[1])
        elif k == 'CW':
            setp(cp(op[1]), op[2])
    return spec


def probes(e, x, rng):
    """(kind, args) observations at points away from decision boundaries"""
    fm = e['fm']
    out = []
    if isinstance(x, fm.EnergyFluxProfile):
        for E in (0.5, 3.0, 250.0):
            out.append(float(x(E)[0]))
        if type(x) in (fm.UnityEnergyFluxProfile, fm.PowerLawEnergyFluxProfile):
            out.append(float(x.get_integral(1.0, 30.0)[0]))
    elif isinstance(x, fm.TimeFluxProfile):
        ts, te = x.t_start, x.t_stop
        if not (math.isfinite(ts) and math.isfinite(te)):
            ts, te = -5.0, 5.0
        w = te - ts
        for r in (-0.37, 0.21, 0.5, 0.83, 1.41):
            out.append(float(x(ts + r * w)[0]))
        out.append(float(np.atleast_1d(x.get_integral(ts - 0.3 * w, ts + 0.6 * w))[0]))
        out.append(float(np.atleast_1d(x.get_integral(ts + 0.2 * w, ts + 0.7 * w))[0]))
        out += [ts, te]
    elif isinstance(x, fm.SpatialFluxProfile):
        out.append(float(x(getattr(x, '_ra', 0.0) or 0.0, getattr(x, '_dec', 0.0) or 0.0)[0]))
    for n in x.param_names if not is_model(e, x) else ():
        out.append(float(x.get_param(n)))
    return out


def read_all(e, x):
    """EVERY public observable of one object at fixed probe points (reads populate any memo)"""
    fm = e['fm']
    out = []
    if is_model(e, x):
        sp, tp = x.spatial_profile, x.time_profile
        ts, te = tp.t_start, tp.t_stop
        if not (math.isfinite(ts) and math.isfinite(te)):
            ts, te = -5.0, 5.0
        ra = np.array([getattr(sp, '_ra', None) or 0.3, 1.0]); dec = np.array([getattr(sp, '_dec', None) or 0.1, 0.2])
        v = x(ra=ra, dec=dec, E=np.array([0.7, 30.0]), t=np.array([ts + 0.31 * (te - ts), te + 0.4 * (te - ts)]))
        out += [float(z) for z in np.asarray(v).ravel()]
        out += [x.math_function_str, tuple(x.param_names)]
        for n in x.param_names:
            out.append(float(x.get_param(n)))
        return out
    out.append(x.math_function_str)
    if isinstance(x, fm.EnergyFluxProfile):
        for E in (0.5, 3.0, 250.0):
            out.append(float(x(E)[0]))
        out.append(float(x(2e-3, unit=e['EU'][1])[0]))
        if type(x) in (fm.UnityEnergyFluxProfile, fm.PowerLawEnergyFluxProfile):
            out.append(float(x.get_integral(1.0, 30.0)[0]))
            out.append(float(x.get_integral(1e-3, 3e-2, unit=e['EU'][1])[0]))
    elif isinstance(x, fm.TimeFluxProfile):
        ts, te = x.t_start, x.t_stop
        out += [ts, te, x.duration]
        if not (math.isfinite(ts) and math.isfinite(te)):
            ts, te = -5.0, 5.0
        w = te - ts
        pts = [ts + r * w for r in (-0.37, 0.21, 0.5, 0.83, 1.41)]
        for t in pts:
            out.append(float(x(t)[0]))
        out.append(float(np.atleast_1d(x.get_integral(ts - 0.3 * w, ts + 0.6 * w))[0]))
        out.append(float(np.atleast_1d(x.get_integral(ts + 0.2 * w, ts + 0.7 * w))[0]))
        out.append(float(x.get_total_integral()))
        if hasattr(x, 'cdf'):
            out += [float(z) for z in x.cdf(np.array(pts))]
    elif isinstance(x, fm.SpatialFluxProfile):
        out.append(float(x(getattr(x, '_ra', None) or 0.0, getattr(x, '_dec', None) or 0.0)[0]))
        out.append(float(x(0.123, 0.456)[0]))
    for n in x.param_names:
        out.append(float(x.get_param(n)))
        out.append(float(getattr(x, n)))
    return out


def same_reads(a, b, scale):
    if len(a) != len(b):
        return False
    for u, v in zip(a, b):
        if isinstance(u, float) and isinstance(v, float):
            if not close(u, v, 1e-9 * scale + 1e-12):
                return False
        elif isinstance(u, str) and isinstance(v, str):
            continue          # formatted to 6 digits: rounding of a moved window may flip the last digit
        elif u != v:
            return False
    return True


def fresh_store(e, spec):
    """objects constructed directly with the parameter values the history asks for"""
    out = []
    for s in spec:
        p, k = s['p'], s['k']
        if s.get('dirty'):
            out.append(None)
            continue
        o = {'UE': lambda: ['UE', s['u']], 'FN': lambda: ['FN', s['u']] + list(s['f']),
             'PL': lambda: ['PL', s['u'], p['E0'], p['gamma']],
             'CO': lambda: ['CO', s['u'], p['E0'], p['gamma'], p['Ecut']],
             'LP': lambda: ['LP', s['u'], p['E0'], p['alpha'], p['beta']],
             'UT': lambda: ['UT', s['u'], p['t_start'], p['t_stop']],
             'BX': lambda: ['BX', s['u'], p['t0'], p['tw']],
             'GA': lambda: ['GA', s['u'], p['t0'], p['sigma_t'], s.get('tol')],
             'US': lambda: ['US'], 'PT': lambda: ['PT', p['ra'], p['dec']],
             'FM': lambda: ['FM', p['Phi0']] + list(s['refs'])}[k]()
        if k == 'FM' and any(out[r] is None for r in s['refs']):
            out.append(None)
            continue
        out.append(build_obj(e, out, o))
    return out


def pred_history(ctx, e, case):
    """mutate-then-observe: on fresh real objects, read EVERY observable of every object before the
    first op and after every op (a read is what populates a memo), and after every op compare every
    object with a twin constructed directly with the parameter values the history asks for"""
    store = []
    try:
        for o in case['objs']:
            store += build_objs(e, store, o)
    except Exception:
        return
    for step in range(len(case['ops']) + 1):
        if step > 0:
            op = case['ops'][step - 1]
            try:
                if op[1] >= len(store):
                    raise IndexError(op[1])
                apply_op(e, store, op)
            except Exception:
                return                      # malformed stream: the op raises, nothing more to compare
        try:
            spec = spec_of(e, {'objs': case['objs'], 'ops': case['ops'][:step]})
            twins = fresh_store(e, spec)
        except Exception:
            ctx.count('pred:history-skipped')
            return
        if len(twins) != len(store):
            return
        for l, (x, tw) in enumerate(zip(store, twins)):
            got = read_all(e, x)
            again = read_all(e, x)
            if not same_reads(got, again, 0.0) or any(isinstance(u, float) and isinstance(v, float) and u != v and not (math.isnan(u) and math.isnan(v))
                                                       for u, v in zip(got, again)):
                ctx.violation(type(x).__name__ + '.observables', 'repeated-read-differs',
                              f'two consecutive reads of the same observables differ: {got} vs {again}',
                              case={'case': case, 'loc': l, 'after_ops': step}, impl=got, model=again,
                              predicate='an observable is a function of the current state')
            if tw is None:
                continue
            want = read_all(e, tw)
            sp = spec[l]['p']
            scale = abs(sp.get('t0', 0.0)) + abs(sp.get('tw', 0.0)) + abs(sp.get('sigma_t', 0.0))
            if is_model(e, x):
                tps = spec[spec[l]['refs'][2]]['p']
                scale = abs(tps.get('t0', 0.0)) + abs(tps.get('tw', 0.0)) + abs(tps.get('sigma_t', 0.0))
            if not same_reads(got, want, scale):
                ctx.violation(type(x).__name__ + '.set_params/setters/move', 'update-differs-from-construct',
                              f'after {step} op(s) the object differs from one constructed with {sp}: {got} vs {want}',
                              case={'case': case, 'loc': l, 'after_ops': step}, impl=got, model=want,
                              predicate='observe; update(p); observe == construct(p); observe  (every observable)')
            ctx.count('pred:history-compare')


def pred_arguments(ctx, e, case, store):
    """arguments are inputs: ndarray bounds / points handed to a call are not modified, and handing the
    SAME arrays to two consecutive calls gives the same result"""
    fm = e['fm']
    for l, x in enumerate(store):
        if isinstance(x, fm.EnergyFluxProfile):
            units, su, lo = e['EU'], e['EU'].index(x.energy_unit), 1.0
            numeric = type(x) not in (fm.UnityEnergyFluxProfile, fm.PowerLawEnergyFluxProfile)
        elif isinstance(x, fm.TimeFluxProfile):
            units, su = e['TU'], e['TU'].index(x.time_unit)
            lo = x.t_start if math.isfinite(x.t_start) else -3.0
            numeric = False
        else:
            continue
        for uc in (None, (su + 1) % 3, (su + 2) % 3):
            U = None if uc is None else units[uc]
            a = np.array([abs(lo) * 0.5 + 0.5, abs(lo) * 0.7 + 1.0]); b = a * 3.0 + 1.0
            if isinstance(x, fm.TimeFluxProfile):
                a = np.array([lo - 1.0, lo + 0.1]); b = a + 2.5
            sa, sb = a.copy(), b.copy()
            calls = [('__call__', lambda: np.array(x(a, unit=U), dtype=float))]
            if not numeric:
                calls.append(('get_integral', lambda: np.array(x.get_integral(a, b, unit=U), dtype=float)))
            if hasattr(x, 'cdf'):
                calls.append(('cdf', lambda: np.array(x.cdf(a, unit=U), dtype=float)))
            for name, f in calls:
                r1 = f(); r1c = r1.copy()
                r2 = f()
                changed = not (np.array_equal(a, sa) and np.array_equal(b, sb))
                if changed or not np.array_equal(r1c, r2, equal_nan=True) or not np.array_equal(r1, r1c, equal_nan=True):
                    ctx.violation(type(x).__name__ + '.' + name, 'argument-array-modified' if changed else 'repeated-call-differs',
                                  f'arguments {sa},{sb} unit {uc}: after the call {a},{b}; results {r1c} then {r2}',
                                  case={'case': case, 'loc': l, 'unit': uc, 'a': sa.tolist(), 'b': sb.tolist()},
                                  impl=[r1c.tolist(), r2.tolist(), a.tolist(), b.tolist()],
                                  predicate='ndarray arguments unchanged; same arrays, same result')
                    a[:] = sa; b[:] = sb
        ctx.count('pred:arguments')


def pred_dtype(ctx, e, case, store):
    """integer arguments (Python int, int ndarray) give the same values as the equal floats"""
    fm = e['fm']

    def same(u, v):
        return np.array_equal(np.asarray(u, dtype=float), np.asarray(v, dtype=float), equal_nan=True)
    for l, x in enumerate(store):
        bad = None
        if isinstance(x, fm.EnergyFluxProfile):
            ks = [1, 3, 250]
            for k in ks:
                if not same(x(k), x(float(k))):
                    bad = ('__call__', k)
            if not same(x(np.array(ks)), x(np.array(ks, dtype=float))):
                bad = ('__call__', ks)
            if type(x) in (fm.UnityEnergyFluxProfile, fm.PowerLawEnergyFluxProfile):
                if not same(x.get_integral(1, 30), x.get_integral(1., 30.)) or \
                        not same(x.get_integral(np.array([1, 2]), np.array([30, 40])), x.get_integral(np.array([1., 2.]), np.array([30., 40.]))):
                    bad = ('get_integral', [1, 30])
        elif isinstance(x, fm.TimeFluxProfile):
            ts, te = x.t_start, x.t_stop
            if not (math.isfinite(ts) and math.isfinite(te)):
                ts, te = -5.0, 5.0
            w = te - ts
            ks = sorted({int(round(ts + r * w)) for r in (-0.4, 0.1, 0.3, 0.5, 0.8, 1.4)})
            for k in ks:
                if not same(x(k), x(float(k))):
                    bad = ('__call__', k)
                if hasattr(x, 'cdf') and not same(x.cdf(k), x.cdf(float(k))):
                    bad = ('cdf', k)
            if not same(x(np.array(ks)), x(np.array(ks, dtype=float))):
                bad = ('__call__', ks)
            if not same(x.get_integral(ks[0], ks[-1]), x.get_integral(float(ks[0]), float(ks[-1]))) or \
                    not same(x.get_integral(np.array(ks[:-1]), np.array(ks[1:])),
                             x.get_integral(np.array(ks[:-1], dtype=float), np.array(ks[1:], dtype=float))):
                bad = ('get_integral', [ks[0], ks[-1]])
        elif is_model(e, x):
            tp = x.time_profile
            ts, te = tp.t_start, tp.t_stop
            if not (math.isfinite(ts) and math.isfinite(te)):
                ts, te = -5.0, 5.0
            for k in sorted({int(round(ts + r * (te - ts))) for r in (0.2, 0.5, 0.8)}):
                if not same(x(E=10, t=k), x(E=10., t=float(k))):
                    bad = ('__call__', k)
        if bad:
            ctx.violation(type(x).__name__ + '.' + bad[0], 'integer-argument-differs',
                          f'integer argument {bad[1]} gives a different result than the equal float',
                          case={'case': case, 'loc': l, 'arg': bad[1]}, predicate='f(int k) == f(float k)')
        ctx.count('pred:dtype')


def pred_unit_setter(ctx, e, case, store):
    """changing the unit of a profile (directly or through the model's delegating setter) after construction
    == constructing it with that unit (the numeric parameters are 'in the set unit' and are not rescaled)"""
    fm = e['fm']
    for l, x in enumerate(store):
        if not is_model(e, x):
            continue
        y = x.copy()
        ep, tp = y.energy_profile, y.time_profile
        eu = (e['EU'].index(ep.energy_unit) + 1) % 3
        tu = (e['TU'].index(tp.time_unit) + 2) % 3
        before = (state_tokens(e, ep)[2:], state_tokens(e, tp)[2:])
        y.energy_unit = e['EU'][eu]
        y.time_unit = e['TU'][tu]
        after = (state_tokens(e, ep)[2:], state_tokens(e, tp)[2:])
        ok = (ep.energy_unit == e['EU'][eu] and tp.time_unit == e['TU'][tu] and y.energy_unit == e['EU'][eu]
              and y.time_unit == e['TU'][tu] and before == after)
        # value of the same NUMBER E in the new unit == value of a twin constructed with the new unit
        st = state_tokens(e, ep)
        if ok and st[0] in ('PL', 'CO', 'LP', 'UE'):
            twin = build_obj(e, [], [st[0], eu] + list(st[2:]))
            ok = np.array_equal(ep(np.array([0.7, 30.0])), twin(np.array([0.7, 30.0])), equal_nan=True) and \
                np.array_equal(ep(np.array([0.7, 30.0]), unit=e['EU'][0]), twin(np.array([0.7, 30.0]), unit=e['EU'][0]), equal_nan=True)
        if not ok:
            ctx.violation('FactorizedFluxModel.energy_unit/time_unit', 'unit-setter-differs-from-construct',
                          f'after setting the units: parameters {before} -> {after}',
                          case={'case': case, 'loc': l, 'units': [eu, tu]},
                          predicate='set unit then observe == construct with that unit then observe')
        ctx.count('pred:unit-setter')


def pred_point(ctx, e, case, store):
    """the point profile is 1 only where BOTH coordinates match; a model evaluates its spatial profile
    only when both ra and dec are given"""
    fm = e['fm']
    for l, x in enumerate(store):
        if isinstance(x, fm.PointSpatialFluxProfile) and x._ra is not None and x._dec is not None:
            got = [int(x(x._ra, x._dec)[0]), int(x(x._ra, x._dec + 0.25)[0]), int(x(x._ra + 0.25, x._dec)[0]),
                   int(x(x._ra + 0.25, x._dec - 0.5)[0])]
            if got != [1, 0, 0, 0]:
                ctx.violation('PointSpatialFluxProfile.__call__', 'wrong-coincidence',
                              f'values at (both, ra only, dec only, none matching) = {got}, expected [1,0,0,0]',
                              case={'case': case, 'loc': l}, impl=got, predicate='1 iff ra and dec both match')
        if is_model(e, x) and isinstance(x.spatial_profile, fm.PointSpatialFluxProfile):
            sp = x.spatial_profile
            base = float(x(E=7.0)[0, 0, 0])
            v = [float(x(ra=sp._ra, dec=sp._dec, E=7.0)[0, 0, 0]), float(x(ra=sp._ra + 0.3, dec=sp._dec, E=7.0)[0, 0, 0]),
                 float(x(ra=sp._ra + 0.3, E=7.0)[0, 0, 0]), float(x(dec=sp._dec + 0.3, E=7.0)[0, 0, 0])]
            if not (v[0] == base and v[1] == 0.0 and v[2] == base and v[3] == base):
                ctx.violation('FactorizedFluxModel.__call__', 'wrong-optional-coordinates',
                              f'flux with (matching, non-matching, ra only, dec only) coordinates = {v}, without = {base}',
                              case={'case': case, 'loc': l}, impl=v,
                              predicate='spatial profile applied iff both ra and dec are given')
            if isinstance(x, fm.PointlikeFFM) and not (x.ra == sp.ra and x.dec == sp.dec):
                ctx.violation('PointlikeFFM.ra/dec', 'wrong-wiring', f'model ({x.ra},{x.dec}) vs profile ({sp.ra},{sp.dec})',
                              case={'case': case, 'loc': l}, predicate='IsPointlike getters read the point profile')
        ctx.count('pred:point')


def pred_rv(ctx, e, case, store):
    """skyllh.core.utils.flux_model: the scipy rv built from a time profile has pdf = profile / total integral,
    the profile's cdf and support, integrates to 1, and describes the profile as it was when built"""
    from skyllh.core.utils.flux_model import create_scipy_stats_rv_continuous_from_TimeFluxProfile as mk
    fm = e['fm']
    for l, x in enumerate(store):
        if not isinstance(x, (fm.BoxTimeFluxProfile, fm.GaussianTimeFluxProfile)):
            continue
        ts, te = x.t_start, x.t_stop
        w = te - ts
        if not (w > 0):
            continue
        tot = float(x.get_total_integral())
        pts = np.array([ts + r * w for r in (0.13, 0.4, 0.5, 0.77)])
        rv = mk(x)
        pdf = rv.pdf(pts)
        want = np.asarray(x(pts), dtype=float) / tot
        q, qerr = quad_pts(lambda t: float(rv.pdf(t)), ts, te, [0.5 * (ts + te)])
        ok = np.allclose(pdf, want, rtol=1e-10, atol=0) and np.allclose(rv.cdf(pts), x.cdf(pts), rtol=1e-10, atol=1e-14) \
            and abs(q - 1) <= 1e-7 + 10 * qerr and rv.a == ts and rv.b == te
        # snapshot: a later parameter change of the profile does not reach the rv; a new rv follows the profile
        y = x.copy()
        rv2 = mk(y)
        before = rv2.pdf(pts)
        y.set_params({'tw': w * 1.5, 'sigma_t': getattr(y, '_sigma_t', 1.0) * 1.5})
        stale = not np.array_equal(before, rv2.pdf(pts))
        rv3 = mk(y)
        p3 = np.array([y.t_start + r * (y.t_stop - y.t_start) for r in (0.2, 0.5, 0.9)])
        fresh_ok = np.allclose(rv3.pdf(p3), np.asarray(y(p3), dtype=float) / float(y.get_total_integral()), rtol=1e-10, atol=0)
        if not ok or stale or not fresh_ok:
            ctx.violation('create_scipy_stats_rv_continuous_from_TimeFluxProfile', 'rv-differs-from-profile',
                          f'pdf {pdf} vs {want}; integral of pdf {q}; support ({rv.a},{rv.b}) vs ({ts},{te}); '
                          f'changed by a later update: {stale}; rv of the updated profile consistent: {fresh_ok}',
                          case={'case': case, 'loc': l}, impl=[pdf.tolist(), q],
                          predicate='rv.pdf == profile / total integral, rv.cdf == profile.cdf, integral 1')
        ctx.count('pred:rv')


def snapshot(e, x):
    if is_model(e, x):
        return [state_tokens(e, x)] + [state_tokens(e, y) for y in (x.spatial_profile, x.energy_profile, x.time_profile)]
    return [state_tokens(e, x)]


def pred_copy(ctx, e, case, store):
    """copy() never shares state with its original: mutate one side, the other is unchanged"""
    rng = ctx.rng
    for l, x in enumerate(store):
        if rng.random() < 0.5 and not is_model(e, x):
            continue
        c = x.copy()
        if snapshot(e, c) != snapshot(e, x):
            ctx.violation(type(x).__name__ + '.copy', 'copy-differs', 'the copy differs from the original',
                          case={'case': case, 'loc': l}, impl=snapshot(e, c), model=snapshot(e, x))
        shared = c is x
        if is_model(e, x):
            shared = shared or c.spatial_profile is x.spatial_profile or c.energy_profile is x.energy_profile \
                or c.time_profile is x.time_profile
        for side in (0, 1):
            a, b = (c, x) if side == 0 else (x, c)      # mutate a, watch b (this predicate runs last)
            before = snapshot(e, b)
            names = list(a.param_names)
            a.set_params({n: (a.get_param(n) if math.isfinite(a.get_param(n)) else 0.0) * 1.5 + 0.25 for n in names})
            for prof in ([a.time_profile] if is_model(e, a) else [a]):
                if hasattr(prof, 'move'):
                    prof.move(1.75)
            if snapshot(e, b) != before:
                shared = True
        if shared:
            ctx.violation(type(x).__name__ + '.copy', 'copy-shares-state',
                          'a change made through the copy is visible in the original (or an object is shared)',
                          case={'case': case, 'loc': l}, impl=snapshot(e, x),
                          predicate='copy and original have disjoint state')
        ctx.count('pred:copy')


# ------------------------------------------------------------------ generators

def rpos(rng, lo=-1.0, hi=3.0):
    return 10 ** rng.uniform(lo, hi)


def gen_gamma(ctx, rng):
    r = rng.random()
    if r < 0.2:
        ctx.count('gamma:=1')
        return 1.0
    if r < 0.5:
        k = rng.choice([3, 4, 6, 8, 10, 12])
        ctx.count(f'gamma:1+-1e-{k}')
        return 1.0 + rng.choice([-1, 1]) * 10.0 ** (-k)
    ctx.count('gamma:generic')
    return round(rng.uniform(0.2, 4.0), 3)


def gen_obj(ctx, rng, kind):
    if kind == 'UE':
        return ['UE', rng.randrange(3)]
    if kind == 'PL':
        return ['PL', rng.randrange(3), rpos(rng, -1, 3), gen_gamma(ctx, rng)]
    if kind == 'CO':
        return ['CO', rng.randrange(3), rpos(rng, -1, 2), round(rng.uniform(0.5, 3.5), 3), rpos(rng, 0, 4)]
    if kind == 'LP':
        return ['LP', rng.randrange(3), rpos(rng, -1, 2), round(rng.uniform(0.5, 3.0), 3), round(rng.uniform(-0.2, 0.5), 3)]
    if kind == 'FN':
        k = rng.randrange(3)
        return ['FN', rng.randrange(3), k, rpos(rng, -1, 1), rng.uniform(0.5, 3.0) if k != 1 else rpos(rng, 0, 3)]
    if kind == 'UT':
        return ['UT', rng.randrange(3), -math.inf, math.inf]
    if kind == 'BX':
        return ['BX', rng.randrange(3), rng.uniform(-50, 50) + rng.choice([0, 58000]), rpos(rng, -1, 2)]
    if kind == 'BF':
        a = rng.uniform(-50, 50)
        return ['BF', rng.randrange(3), a, a + rpos(rng, -1, 2)]
    if kind == 'GA':
        tol = rng.choice([1e-12, 1e-12, 1e-9, 1e-6, 1e-3, 0.05, 0.5])
        ctx.count(f'gauss-tol:{tol}')
        return ['GA', rng.randrange(3), rng.uniform(-50, 50) + rng.choice([0, 58000]), rpos(rng, -1, 1.5), tol]
    if kind == 'US':
        return ['US']
    if kind == 'PT':
        return ['PT', rng.uniform(0, 6.28), rng.uniform(-1.5, 1.5)]
    raise ValueError(kind)


EK = ['UE', 'PL', 'PL', 'PL', 'CO', 'LP', 'FN']
TK = ['UT', 'BX', 'BX', 'BF', 'GA', 'GA']
SK = ['US', 'PT']
PN = {'PL': ['E0', 'gamma'], 'CO': ['E0', 'gamma', 'Ecut'], 'LP': ['E0', 'alpha', 'beta'], 'UT': ['t_start', 't_stop'],
      'BX': ['t0', 'tw'], 'BF': ['t0', 'tw'], 'GA': ['t0', 'sigma_t'], 'PT': ['ra', 'dec'], 'FM': ['Phi0'],
      'UE': [], 'FN': [], 'US': []}


def gen_value(ctx, rng, name):
    if name == 'gamma':
        return gen_gamma(ctx, rng)
    if name in ('E0', 'Ecut', 'tw', 'sigma_t', 'Phi0'):
        return rpos(rng, -1, 2)
    if name in ('alpha',):
        return round(rng.uniform(0.5, 3.0), 3)
    if name == 'beta':
        return round(rng.uniform(-0.2, 0.5), 3)
    if name in ('t0', 't_start', 't_stop'):
        return rng.uniform(-80, 80)
    if name == 'ra':
        return rng.uniform(0, 6.28)
    return rng.uniform(-1.5, 1.5)


def gen_case(ctx, rng, malformed=False):
    objs = [gen_obj(ctx, rng, rng.choice(SK)), gen_obj(ctx, rng, rng.choice(EK)), gen_obj(ctx, rng, rng.choice(TK))]
    kinds = [('BX' if o[0] == 'BF' else o[0]) for o in objs]
    refs = {}
    plike = set()
    r = rng.random()
    if r < 0.45:
        objs.append(['FM', rpos(rng, -3, 1), 0, 1, 2])
        kinds.append('FM')
        refs[3] = [0, 1, 2]
        ctx.count('model:FactorizedFluxModel')
    elif r < 0.65:
        objs.append(['PF', rpos(rng, -3, 1), 1, 2, rng.uniform(0, 6.28), rng.uniform(-1.5, 1.5)])
        kinds += ['PT', 'FM']
        refs[4] = [3, 1, 2]; plike.add(4)
        ctx.count('model:PointlikeFFM')
    elif r < 0.78:
        objs.append(['SF', rpos(rng, -3, 1), 1, rng.uniform(0, 6.28), rng.uniform(-1.5, 1.5), rng.randrange(3)])
        kinds += ['PT', 'UT', 'FM']
        refs[5] = [3, 1, 4]; plike.add(5)
        ctx.count('model:SteadyPointlikeFFM')
    if malformed and rng.random() < 0.3:
        objs.append(['FM', 1.0, rng.choice([1, 2]), rng.choice([0, 1]), rng.choice([0, 2])])   # wrong profile kinds
        kinds.append('FM')
        refs[len(kinds) - 1] = [0, 1, 2]

    def names_of(i):
        if kinds[i] == 'FM':
            return ['Phi0'] + [n for j in refs[i] for n in PN[kinds[j]]]
        return PN[kinds[i]]

    def copied(l):
        if kinds[l] == 'FM':
            n = len(kinds)
            kinds.extend([kinds[j] for j in refs[l]] + ['FM'])
            refs[n + 3] = [n, n + 1, n + 2]
            if l in plike:
                plike.add(n + 3)
        else:
            kinds.append(kinds[l])
    ops = []
    nops = rng.choice([0, 1, 2, 2, 3, 3, 4, 4])
    ctx.count(f'nops:{nops}')
    for _ in range(nops):
        l = rng.randrange(len(kinds))
        k = kinds[l]
        r = rng.random()
        if malformed and r < 0.25:
            ops.append(rng.choice([['MV', rng.choice([0, 1]), 1.0, -1], ['SA', l, 'nonexistent', 1.0],
                                   ['SP', l, [['bogus', 2.0]]], ['MV', len(kinds) + 3, 1.0, -1],
                                   ['SP', len(kinds) + 2, []], ['CP', len(kinds) + 1]]))
            ctx.count('op:malformed')
            if ops[-1][0] in ('MV', 'CP') or ops[-1][1] >= len(kinds):
                break                       # the op raises: the sequence ends here
            continue
        if l in plike and r < 0.3:
            n = rng.choice(['ra', 'dec'])
            ops.append(['SAP', l, refs[l][0], n, gen_value(ctx, rng, n)]); ctx.count('op:pointlike-setter')
            continue
        if r < 0.35:
            ns = names_of(l)
            pick = [n for n in ns if rng.random() < 0.6]
            pd = [[n, gen_value(ctx, rng, n)] for n in dict.fromkeys(pick)]
            if rng.random() < 0.2:
                pd.append(['Ecut' if 'Ecut' not in pick else 'bogus', 3.0])
            ops.append(['SP', l, pd]); ctx.count('op:set_params')
        elif r < 0.55 and names_of(l):
            n = rng.choice(PN[k] if k != 'FM' else ['Phi0'])
            ops.append(['SA', l, n, gen_value(ctx, rng, n)]); ctx.count('op:setter:' + n)
        elif r < 0.75 and k in ('UT', 'BX', 'GA'):
            u = rng.choice([-1, -1, 0, 1, 2])
            dt = rng.uniform(-20, 20) / (1 if u < 0 else TFAC[u])
            ops.append(['MV', l, dt, u]); ctx.count('op:move')
        elif r < 0.9:
            ops.append(['CP', l]); ctx.count('op:copy')
            copied(l)
        else:
            ns = names_of(l)
            pd = [[n, gen_value(ctx, rng, n)] for n in dict.fromkeys(ns) if rng.random() < 0.7]
            ops.append(['CW', l, pd]); ctx.count('op:copy-with')
            copied(l)
    # observations on every final object
    obs = []
    for l, k in enumerate(kinds):
        obs.append(['ST', l])
        if k in ('UE', 'PL', 'CO', 'LP', 'FN'):
            u = rng.choice([-1, 0, 1, 2])
            scale = 1.0 if u < 0 else 1.0 / EFAC[u]
            for _ in range(2):
                obs.append(['EC', l, u, rpos(rng, -1, 4) * scale]); ctx.count(f'unit:E:{u}')
            obs.append(['EC', l, -1, float(rng.randint(1, 5000))]); ctx.count('integer-argument')
            a = rpos(rng, -1, 3); b = a * 10 ** rng.uniform(0, 2)
            obs.append(['EI', l, u, a * scale, b * scale])
        elif k in ('UT', 'BX', 'GA'):
            u = rng.choice([-1, -1, 0, 1, 2])
            scale = 1.0 if u < 0 else 1.0 / TFAC[u]
            for _ in range(3):
                obs.append(['TC', l, u, rng.uniform(-150, 150) * scale]); ctx.count(f'unit:t:{u}')
            obs.append(['TC', l, -1, float(rng.randint(-150, 150))]); ctx.count('integer-argument')
            obs.append(['CD', l, -1, float(rng.randint(-150, 150))]) if k in ('BX', 'GA') else None
            a = rng.uniform(-150, 100); b = a + rng.uniform(0, 120)
            obs.append(['TI', l, u, a * scale, b * scale])
            obs.append(['TT', l])
            obs.append(['RP', l, rng.uniform(-150, 150)]); ctx.count('rv-pdf-obs')
            if k in ('BX', 'GA'):
                obs.append(['CD', l, u, rng.uniform(-150, 150) * scale])
                obs.append(['CD', l, -1, rng.uniform(-150, 150)])
        elif k in ('US', 'PT'):
            obs.append(['SC', l, rng.uniform(0, 6), rng.uniform(-1, 1)])
        elif k == 'FM':
            hr = rng.randrange(4)           # 0 none, 1 both, 2 ra only, 3 dec only
            ctx.count(f'model-call-coords:{hr}')
            tval = rng.uniform(-100, 100) if rng.random() < 0.7 else float(rng.randint(-100, 100))
            obs.append(['FC', l, hr, rng.uniform(0, 6), rng.uniform(-1, 1), rng.randrange(2), rpos(rng, 0, 3),
                        rng.randrange(2), tval, rng.choice([-1, 0, 1, 2]), rng.choice([-1, 0, 1, 2])])
            if l in plike:
                obs.append(['PR', l, refs[l][0]])
        if k == 'FM':
            obs.append(['TU', l])
        for n in rng.sample(NAMES, 3):
            obs.append(['GP', l, n])
    if malformed:
        obs.append(['RP', rng.choice([0, 1]), 1.0]); ctx.count('rv-pdf-obs-malformed')
        obs.append(['TC', 0, -1, 1.0])
        obs.append(['ST', len(kinds) + 5])
    return {'objs': objs, 'ops': ops, 'obs': obs}


def window_case(ctx, rng):
    """observations exactly on / next to the support edges (own unit only: exactly representable decisions)"""
    k = rng.choice(['BX', 'GA'])
    if k == 'BX':
        t0 = float(rng.randint(-40, 40)); tw = float(rng.choice([1, 2, 4, 8, 0.5]))
        o = ['BX', rng.randrange(3), t0, tw]
        ts, te = t0 - tw / 2, t0 + tw / 2
    else:
        o = gen_obj(ctx, rng, 'GA')
        fresh = build_obj(env(), [], o)
        ts, te = fresh.t_start, fresh.t_stop
    obs = [['ST', 0]]
    for t in (ts, te, np.nextafter(ts, -np.inf), np.nextafter(ts, np.inf), np.nextafter(te, -np.inf), np.nextafter(te, np.inf)):
        obs.append(['TC', 0, -1, float(t)])
        obs.append(['CD', 0, -1, float(t)])
        obs.append(['RP', 0, float(t)])
    for (a, b) in ((ts, te), (ts - 1, ts), (te, te + 1), (ts - 1, te + 1), (ts - 2, ts - 1), (te + 1, te + 2), (ts, ts)):
        obs.append(['TI', 0, -1, float(a), float(b)])
    ctx.count('window-edge-case:' + k)
    return {'objs': [o], 'ops': [], 'obs': obs}


def corpus_cases():
    """regression inputs of the defects fixed in /repo (known_findings.d/C13.json, _fixed.json)"""
    return [
        # 3a4f2c1: sigma_t setter must move the support window
        {'objs': [['GA', 0, 10.0, 2.0, 0.5]], 'ops': [['SA', 0, 'sigma_t', 3.0]],
         'obs': [['ST', 0], ['TC', 0, -1, 13.0], ['TI', 0, -1, 8.0, 12.0], ['GP', 0, 'sigma_t']]},
        # 0a1ba7d: Gaussian get_integral is clipped to the support window (intervals across / outside / covering it)
        {'objs': [['GA', 0, 10.0, 2.0, 0.5]], 'ops': [],
         'obs': [['ST', 0], ['TI', 0, -1, 0.0, 20.0], ['TI', 0, -1, 20.0, 30.0], ['TI', 0, -1, 9.0, 30.0],
                 ['TI', 0, -1, -5.0, 9.5], ['TI', 0, -1, 9.0, 11.0], ['TI', 0, 1, 0.0, 1.0]]},
        # memo hazard: total integral / cdf read, then the width is changed through every route
        {'objs': [['US'], ['PL', 0, 1.0, 2.0], ['GA', 1, 10.0, 2.0, 1e-12], ['FM', 1.0, 0, 1, 2], ['BX', 0, 5.0, 4.0]],
         'ops': [['SP', 2, [['sigma_t', 5.0]]], ['SA', 4, 'tw', 10.0], ['CW', 2, [['sigma_t', 1.0]]], ['SP', 3, [['sigma_t', 3.0], ['gamma', 2.5]]]],
         'obs': [['TT', 2], ['TT', 4], ['TT', 5], ['ST', 2], ['ST', 5], ['TI', 2, -1, 0.0, 20.0]]},
        # 9e8285f: power-law integral near gamma = 1 (cancellation): strict tolerance now
        {'objs': [['PL', 0, 1.0, 1 + 1e-12], ['PL', 0, 100.0, 1 + 1e-14], ['PL', 1, 3.0, 1 - 1e-10], ['PL', 0, 1.0, 1.0]],
         'ops': [], 'obs': [['EI', 0, -1, 1.0, 10.0], ['EI', 1, -1, 3.0, 3e5], ['EI', 2, 0, 1.0, 10.0], ['EI', 3, -1, 1.0, 10.0],
                            ['EI', 1, 1, 0.003, 300.0]]},
        # 8b4f503: integer times; point profile / optional coordinates; pointlike models and their ra / dec wiring
        {'objs': [['US'], ['PL', 0, 1.0, 2.0], ['GA', 0, 10.0, 2.0, 1e-12], ['FM', 1.0, 0, 1, 2]], 'ops': [],
         'obs': [['TC', 2, -1, 11.0], ['TC', 2, 1, 11.0 / 86400], ['CD', 2, -1, 11.0], ['TI', 2, -1, 9.0, 11.0],
                 ['FC', 3, 0, 0.0, 0.0, 1, 10.0, 1, 11.0, -1, -1]]},
        {'objs': [['PT', 1.0, 0.5], ['PL', 0, 1.0, 2.0], ['BX', 0, 5.0, 2.0], ['FM', 2.0, 0, 1, 2]], 'ops': [],
         'obs': [['SC', 0, 1.0, 0.5], ['SC', 0, 1.0, 0.7], ['SC', 0, 2.0, 0.5], ['SC', 0, 2.0, 0.7],
                 ['FC', 3, 1, 1.0, 0.5, 1, 3.0, 1, 5.0, -1, -1], ['FC', 3, 1, 1.0, 0.7, 1, 3.0, 1, 5.0, -1, -1],
                 ['FC', 3, 2, 4.0, 0.5, 1, 3.0, 1, 5.0, -1, -1], ['FC', 3, 3, 1.0, 0.9, 1, 3.0, 0, 5.0, -1, -1]]},
        {'objs': [['US'], ['PL', 0, 1.0, 2.0], ['BX', 0, 5.0, 2.0], ['PF', 2.0, 1, 2, 1.0, 0.5]],
         'ops': [['SAP', 4, 3, 'ra', 2.0], ['CP', 4], ['SAP', 8, 5, 'dec', -0.3], ['SP', 8, [['ra', 0.25], ['gamma', 2.5]]]],
         'obs': [['ST', 3], ['ST', 4], ['ST', 5], ['ST', 6], ['ST', 8], ['PR', 4, 3], ['PR', 8, 5], ['TU', 8],
                 ['FC', 4, 1, 2.0, 0.5, 1, 3.0, 1, 5.0, -1, -1], ['FC', 8, 1, 0.25, -0.3, 1, 3.0, 1, 5.0, 1, 1], ['GP', 8, 'ra']]},
        {'objs': [['US'], ['LP', 1, 2.0, 2.0, 0.1], ['SF', 1.5, 1, 0.3, 0.2, 1]], 'ops': [['SAP', 4, 2, 'dec', 0.4], ['CW', 4, [['Phi0', 3.0], ['alpha', 2.2]]]],
         'obs': [['ST', 2], ['ST', 3], ['ST', 4], ['PR', 4, 2], ['PR', 8, 5], ['TU', 4], ['ST', 6], ['ST', 8],
                 ['FC', 8, 1, 0.3, 0.4, 1, 0.003, 1, 7.0, 1, 2], ['GP', 8, 'alpha'], ['GP', 4, 'alpha']]},
        # extension: rv pdf inside / on the edge / outside the support, Gaussian, unity (total inf), degenerate box (total 0)
        {'objs': [['BX', 0, 5.0, 2.0], ['GA', 1, 10.0, 2.0, 1e-6], ['UT', 0, -math.inf, math.inf], ['BX', 0, 3.0, 0.0], ['PL', 0, 1.0, 2.0]],
         'ops': [['SA', 0, 'tw', 4.0]],
         'obs': [['RP', 0, 5.0], ['RP', 0, 3.0], ['RP', 0, 7.0], ['RP', 0, 7.5], ['RP', 1, 11.0], ['RP', 1, 9.25], ['RP', 1, 100.0],
                 ['RP', 2, 1.0], ['RP', 3, 3.0], ['RP', 4, 1.0], ['TT', 3]]},
        # 8f69f79: Ecut / alpha / beta are parameters
        {'objs': [['CO', 0, 1.0, 2.0, 10.0], ['LP', 0, 1.0, 2.0, 0.1]],
         'ops': [['SP', 0, [['Ecut', 5.0]]], ['SP', 1, [['alpha', 3.0], ['beta', 0.2]]]],
         'obs': [['ST', 0], ['ST', 1], ['GP', 0, 'Ecut'], ['GP', 1, 'alpha'], ['GP', 1, 'gamma'], ['EC', 0, -1, 3.0], ['EI', 0, -1, 1.0, 100.0]]},
        # b6321f8: FactorizedFluxModel.param_names ; copy of a model
        {'objs': [['PT', 1.0, 0.5], ['PL', 1, 1.0, 1.0], ['BX', 1, 5.0, 2.0], ['FM', 2.0, 0, 1, 2]],
         'ops': [['CP', 3], ['SP', 7, [['gamma', 2.5], ['t0', 7.0], ['Phi0', 3.0], ['ra', 2.0]]]],
         'obs': [['ST', l] for l in range(8)] + [['FC', 3, 1, 1.0, 0.5, 1, 2.0, 1, 5.5, 0, 0], ['FC', 7, 1, 2.0, 0.5, 1, 2.0, 1, 7.5, -1, -1],
                                                 ['GP', 3, 'gamma'], ['GP', 7, 'gamma'], ['GP', 7, 't0'], ['GP', 7, 'tw']]},
    ]


# ------------------------------------------------------------------ driver

def run_cases(ctx, cases, exe):
    e = env()
    impls = []
    for c in cases:
        ctx.case(c)
        impl, store = run_impl(e, c)
        impls.append((impl, final_kinds(c, store, e)))
        if impl and impl[0] == 'ERR':
            ctx.count('impl-error:' + impl[1])
            continue
        try:
            pred_integrals(ctx, e, c, store)
            pred_product(ctx, e, c, store)
            pred_arguments(ctx, e, c, store)
            pred_dtype(ctx, e, c, store)
            pred_point(ctx, e, c, store)
            pred_unit_setter(ctx, e, c, store)
            pred_rv(ctx, e, c, store)
            pred_history(ctx, e, c)
            pred_copy(ctx, e, c, store)
        except Exception as ex:
            ctx.violation('flux_model.predicates', 'raises-' + exc_kind(ex), f'{type(ex).__name__}: {ex}'[:300],
                          case={'case': c}, predicate='the interface calls of the predicates return')
    if exe and ctx.model_ok:
        try:
            outs = common.ocaml_run(exe, [model_line(c) for c in cases])
        except RuntimeError as ex:
            ctx.broken.append({'kind': 'model-eval', 'error': str(ex)[:1500]})
            return
        if len(outs) != len(cases):
            ctx.broken.append({'kind': 'model-eval', 'error': f'{len(outs)} result lines for {len(cases)} cases'})
            return
        for c, (impl, kinds), mo in zip(cases, impls, outs):
            compare(ctx, c, impl, mo, kinds)
    else:
        ctx.notes.append('model did not build: implementation-only predicates were evaluated')


def run(ctx):
    rng = ctx.rng
    exe = common.ocaml_build(ctx, 'c13') if ctx.model_ok else None
    cases = corpus_cases()
    n = ctx.budget(1200, 12000)
    for _ in range(n // 10):
        cases.append(window_case(ctx, rng))
    for _ in range(n // 10):
        cases.append(gen_case(ctx, rng, malformed=True))
    while len(cases) < n:
        cases.append(gen_case(ctx, rng))
    for c in cases[11:14]:
        ctx.sample({'objs': c['objs'], 'ops': c['ops'], 'n_obs': len(c['obs'])})
    run_cases(ctx, cases, exe)


def replay(ctx, rp):
    c = rp.get('case') or {}
    if isinstance(c, dict) and 'case' in c:
        c = c['case']
    if not (isinstance(c, dict) and 'objs' in c):
        ctx.notes.append('replay file has no concrete input (broken obligation): re-running the full check')
        return run(ctx)
    c = {'objs': c['objs'], 'ops': [list(o) for o in c.get('ops', [])], 'obs': [list(o) for o in c.get('obs', [])]}
    exe = common.ocaml_build(ctx, 'c13') if ctx.model_ok else None
    run_cases(ctx, [c], exe)
