"""C11 — minimisers: in bounds, consistent with the objective, loud on failure.

Correspondence: the real skyllh classes (ZeroSigH0SingleDatasetTCLLHRatio.maximize with
NR1dNsMinimizerImpl / NRNsScan2dMinimizerImpl, Minimizer.minimize around LBFGSMinimizerImpl,
ScipyMinimizerImpl, IMinuitMinimizerImpl and a scripted implementation) against the
Num-polymorphic model coq/model/M_Minimize.v extracted to OCaml and run on IEEE doubles.
The objective (resp. the third-party optimiser) is an oracle table recorded from the Python
run; every other operation (Newton step, comparisons, clipping, counters, flags, restarts,
random re-initialisation, negation) is computed by the model and compared bit-exactly,
including the sequence of points at which the objective was evaluated.
Predicates (failing-input search): the property itself evaluated on every implementation
result with an independent numpy reading of the log-likelihood ratio."""
import math
import warnings

import numpy as np

from harness import common

GEN_MODULES = ['minimize']
MODEL_TARGETS = ['model/M_Minimize.vo', 'model/M_MinimizeX.vo']
PROOF_TARGETS = ['proofs/P_Minimize.vo', 'proofs/P_MinimizeWrap.vo', 'proofs/P_MinimizeScan.vo', 'proofs/P_MinimizeDeep.vo',
                 'proofs/P_MinimizeNaN.vo', 'proofs/P_MinimizeDom.vo', 'proofs/P_MinimizeMulti.vo']
LEVEL = 'proof'
RULE = ('log-likelihood-ratio landscapes of real ZeroSigH0SingleDatasetTCLLHRatio instances (1..60 selected events, '
        '0..200 pure-background events, constant-array PDF ratios) with the optimum interior / at the lower / at the upper '
        'bound / flat / with events in the Taylor regime, random ns bounds and initial values incl. initial on a bound; '
        'all minimiser implementations (NR-1D, NR+scan 2D, L-BFGS-B, SLSQP/TNC/COBYLA/Nelder-Mead via ScipyMinimizerImpl, '
        'iminuit) and scripted implementations that provoke restarts, clipping and non-convergence; a case is '
        'non-trivial when the objective was evaluated at least once and is distinct by (landscape, bounds, initial, '
        'implementation) hash')
TRUSTED = [
    'Coq 8.16.1 kernel incl. vm_compute (no native_compute)',
    'axioms printed under the theorems at the real-number instance: ClassicalDedekindReals.sig_not_dec, sig_forall_dec, '
    'FunctionalExtensionality.functional_extensionality_dep, Classical_Prop.classic (Coq Reals / lra); the wrapper / status theorems that do not need '
    'an order are proved for every number system and are closed under the global context',
    'translator/py2coq.py: reading of the 79 kernels of minimizer.py / parameters.py / llhratio.py (G_minimize.v)',
    'hand model M_Minimize.v of the control flow (loops as structural recursion on max_steps / max_repetitions), '
    'validated by this correspondence on every run',
    'extraction (ExtrOcamlBasic only) and the hand-written OCaml driver ocaml/c11/driver.ml incl. the float Num record',
    'Section variables: the objective (f, f\', f\'\') is arbitrary; scipy / iminuit optimisers are oracles returning '
    '(x, f, status) — only the wrapper around them is modelled; the random stream is an arbitrary function of the '
    'repetition index',
    'real-number reading: theorems about order (in bounds, best-of, concavity) are stated over R with f\'\' <> 0 at the '
    'visited points; float rounding and IEEE specials are outside them; the NaN path (0/0 step) is covered by a '
    'number-system independent theorem with the premise `isnan (step)` and executed on doubles in the correspondence',
    'objectives returning Python floats (ZeroDivisionError on 0/0 instead of NaN) are not modelled: the real '
    'log-likelihood-ratio classes return numpy float64',
]

ALPHA = 1e-3 - 1


def hx(x):
    x = float(x)
    if math.isnan(x):
        return 'nan'
    if math.isinf(x):
        return 'inf' if x > 0 else '-inf'
    return x.hex()


def unhx(s):
    if s == 'nan':
        return float('nan')
    if s in ('inf', '-inf'):
        return float(s)
    return float.fromhex(s)


def feq(a, b):
    a = float(a)
    b = float(b)
    return a == b or (math.isnan(a) and math.isnan(b))


def exc_kind(ex):
    return type(ex).__name__


# ------------------------------------------------------------------ real classes
_env = {}


def env():
    """import skyllh lazily and define the stub subclasses once"""
    if _env:
        return _env
    from skyllh.core.config import Config
    from skyllh.core import minimizer as mz
    from skyllh.core.parameters import Parameter, ParameterModelMapper, ParameterSet
    from skyllh.core.random import RandomStateService
    from skyllh.core.llhratio import ZeroSigH0SingleDatasetTCLLHRatio
    from skyllh.core.pdfratio import PDFRatio
    from skyllh.core.trialdata import TrialDataManager
    from skyllh.core.source_hypo_grouping import SourceHypoGroupManager
    from skyllh.core.source_model import PointLikeSource
    from skyllh.core.storage import DataFieldRecordArray

    cfg = Config()

    class ArrPDFRatio(PDFRatio):
        """constant-array PDF ratio: R_i(p2) = R0_i + p2 * R1_i + p2^2 * R2_i (p2 = optional second fit parameter,
        read from the src_params_recarray like every skyllh PDF ratio does)"""

        def __init__(self, R0, R1=None, p2name=None, R2=None, **kw):
            super().__init__(sig_param_names=[p2name] if p2name else [], bkg_param_names=[], **kw)
            self.R0 = np.asarray(R0, dtype=np.float64)
            self.R1 = None if R1 is None else np.asarray(R1, dtype=np.float64)
            self.R2 = None if R2 is None else np.asarray(R2, dtype=np.float64)
            self.p2name = p2name

        def initialize_for_new_trial(self, tdm, tl=None, **kw):
            pass

        def get_ratio(self, tdm, src_params_recarray, tl=None):
            if self.R1 is None:
                return self.R0
            p2 = src_params_recarray[self.p2name][0]
            if self.R2 is not None:
                return self.R0 + p2 * self.R1 + (p2 * p2) * self.R2
            return self.R0 + p2 * self.R1

        def get_gradient(self, tdm, src_params_recarray, fitparam_id, tl=None):
            if self.R1 is None:
                return np.zeros_like(self.R0)
            if self.R2 is not None:
                return self.R1 + 2.0 * src_params_recarray[self.p2name][0] * self.R2
            return self.R1

    def recording(base):
        class Rec(base):
            """recording proxy: notes every call of `func` made by the implementation"""

            def minimize(self, initials, bounds, func, func_args=None, **kw):
                calls = self.calls

                def rec(x, *a):
                    out = func(x, *a)
                    calls.append((np.array(x, dtype=np.float64).copy(), out))
                    return out
                self.impl_calls.append(np.array(initials, dtype=np.float64).copy())
                self.last_func = (func, func_args)
                self.active += 1
                try:
                    r = super().minimize(initials, bounds, rec, func_args, **kw)
                except Exception as ex:
                    self.impl_results.append(('E', exc_kind(ex)))
                    raise
                finally:
                    self.active -= 1
                self.impl_results.append(('R', np.array(r[0], dtype=np.float64).copy(), float(r[1]),
                                          bool(self.has_converged(r[2])), bool(self.is_repeatable(r[2]))))
                return r

            def reset(self):
                self.calls = []
                self.impl_calls = []
                self.impl_results = []
                self.active = 0
        Rec.__name__ = 'Rec' + base.__name__
        return Rec

    class ScriptedImpl(mz.MinimizerImpl):
        """implementation that replays a prescribed list of (x, f, converged, repeatable) | exception"""

        def __init__(self, script, **kw):
            super().__init__(**kw)
            self.script = list(script)
            self.k = 0

        def minimize(self, initials, bounds, func, func_args=None, **kw):
            s = self.script[min(self.k, len(self.script) - 1)]
            self.k += 1
            if s[0] == 'E':
                raise {'ValueError': ValueError, 'RuntimeError': RuntimeError, 'TypeError': TypeError}[s[1]]('scripted')
            (_, x, f, c, r) = s
            return (np.array(x, dtype=np.float64), np.float64(f), {'conv': c, 'rep': r, 'nit': 1})

        def get_niter(self, status):
            return status['nit']

        def has_converged(self, status):
            return status['conv']

        def is_repeatable(self, status):
            return status['rep']

    class RSSStub:
        """RandomStateService stand-in recording the uniform numbers it hands out"""

        def __init__(self, seed):
            self._r = np.random.RandomState(seed)
            self.draws = []
            self.random = self

        def uniform(self, size=None):
            u = self._r.uniform(size=size)
            self.draws.append(np.array(u, dtype=np.float64).copy())
            return u

    _env.update(dict(cfg=cfg, mz=mz, Parameter=Parameter, PMM=ParameterModelMapper, ParameterSet=ParameterSet,
                     RSS=RandomStateService, LLH=ZeroSigH0SingleDatasetTCLLHRatio, ArrPDFRatio=ArrPDFRatio,
                     TDM=TrialDataManager, SHG=SourceHypoGroupManager, Src=PointLikeSource, DFRA=DataFieldRecordArray,
                     RecNR=recording(mz.NR1dNsMinimizerImpl), RecScan=recording(mz.NRNsScan2dMinimizerImpl),
                     RecLBFGS=recording(mz.LBFGSMinimizerImpl), RecScipy=recording(mz.ScipyMinimizerImpl),
                     recording=recording, ScriptedImpl=ScriptedImpl, RSSStub=RSSStub))
    try:
        from skyllh.core.minimizers.iminuit import IMinuitMinimizerImpl
        import iminuit  # noqa: F401
        _env['RecMinuit'] = recording(IMinuitMinimizerImpl)
    except Exception:
        _env['RecMinuit'] = None
    return _env


def mk_param(name, init, lo, hi):
    """a Parameter; for the malformed stream (initial outside the bounds, lo > hi) the public, non-validating setters
    are used after construction"""
    E = env()
    if lo <= init <= hi:
        return E['Parameter'](name, init, lo, hi)
    p = E['Parameter'](name, 0.0, -1.0, 1.0)
    p.valmin = lo
    p.valmax = hi
    p.initial = init
    return p


def build_llh(case, impl, max_reps=100):
    """a real ZeroSigH0SingleDatasetTCLLHRatio on constant PDF-ratio arrays"""
    E = env()
    src = E['Src'](name='s', ra=1.0, dec=0.2)
    pmm = E['PMM'](models=[src])
    pmm.map_param(mk_param('ns', case['init'][0], case['bounds'][0][0], case['bounds'][0][1]))
    two = len(case['init']) > 1
    if two:
        pmm.map_param(mk_param('gamma', case['init'][1], case['bounds'][1][0], case['bounds'][1][1]),
                      models=[src])
    shg = E['SHG']()
    tdm = E['TDM']()
    ev = E['DFRA'](np.zeros((len(case['R0']),), dtype=[('x', np.float64)]))
    tdm.initialize_trial(shg_mgr=shg, pmm=pmm, events=ev, n_events=case['N'])
    m = E['mz'].Minimizer(impl, max_repetitions=max_reps)
    pr = E['ArrPDFRatio'](case['R0'], case.get('R1') if two else None, 'gamma' if two else None,
                           R2=case.get('R2') if two else None, cfg=E['cfg'])
    return E['LLH'](cfg=E['cfg'], pmm=pmm, minimizer=m, shg_mgr=shg, tdm=tdm, pdfratio=pr)


# ------------------------------------------------------------------ independent oracle
def Xi_of(case, p2=None):
    R = np.asarray(case['R0'], dtype=np.float64)
    if p2 is not None and case.get('R1') is not None:
        R = R + p2 * np.asarray(case['R1'], dtype=np.float64)
        if case.get('R2') is not None:
            R = R + (p2 * p2) * np.asarray(case['R2'], dtype=np.float64)
    return (R - 1.0) / case['N']


def grad2_exact(case, ns, p2=None):
    """independent second derivative of log Lambda w.r.t. ns (domain without Taylor continuation)"""
    Xi = Xi_of(case, p2)
    N = case['N']
    Np = len(Xi)
    out = -math.fsum((x / (1 + ns * x)) ** 2 for x in Xi)
    if N != Np:
        out -= (N - Np) / (N - ns) ** 2
    return out


def fresh_nr(case, p2):
    """a fresh run of the real NR1dNsMinimizerImpl on the INDEPENDENT reading of -log Lambda(., p2):
    (log Lambda at its result, ns, warnflag) or None when it raises"""
    E = env()
    impl = E['mz'].NR1dNsMinimizerImpl(cfg=E['cfg'], ns_tol=case['ns_tol'], max_steps=case['max_steps'])

    def f(x, *a):
        ns = float(x[0])
        return (np.float64(-ll_exact(case, ns, p2)), np.float64(-grad_exact(case, ns, p2)),
                np.float64(-grad2_exact(case, ns, p2)))
    try:
        with warnings.catch_warnings(), np.errstate(all='ignore'):
            warnings.simplefilter('ignore')
            (x, fmin, st) = impl.minimize(np.array([case['init'][0]], dtype=np.float64),
                                          np.array([case['bounds'][0]], dtype=np.float64), f)
        return (-float(fmin), float(x[0]), int(st['warnflag']))
    except Exception:
        return None


def ll_exact(case, ns, p2=None):
    """independent reading of log Lambda(ns) incl. the documented Taylor continuation; mpmath-free, float"""
    Xi = Xi_of(case, p2)
    N = case['N']
    Np = len(Xi)
    a = ns * Xi
    out = 0.0
    terms = []
    for ai in a:
        if ai > ALPHA:
            terms.append(math.log1p(ai))
        else:
            t = (ai - ALPHA) / (1 + ALPHA)
            terms.append(math.log1p(ALPHA) + t - 0.5 * t * t)
    out = math.fsum(terms)
    if N != Np:
        out += (N - Np) * math.log1p(-ns / N)
    return out


def grad_exact(case, ns, p2=None):
    Xi = Xi_of(case, p2)
    N = case['N']
    Np = len(Xi)
    g = []
    for x in Xi:
        ai = ns * x
        if ai > ALPHA:
            g.append(x / (1 + ai))
        else:
            t = (ai - ALPHA) / (1 + ALPHA)
            g.append((1 - t) * x / (1 + ALPHA))
    out = math.fsum(g)
    if N != Np:
        out -= (N - Np) / (N - ns)
    return out


def taylor_free(case, lo, hi, p2=None):
    Xi = Xi_of(case, p2)
    return bool(np.all(lo * Xi > ALPHA + 1e-6) and np.all(hi * Xi > ALPHA + 1e-6))


def argmax_1d(case, lo, hi, p2=None):
    """maximiser of the concave log Lambda on [lo, hi] by bisection on the sign of the slope"""
    if grad_exact(case, lo, p2) <= 0:
        return lo
    if grad_exact(case, hi, p2) >= 0:
        return hi
    a, b = lo, hi
    for _ in range(200):
        m = 0.5 * (a + b)
        if grad_exact(case, m, p2) > 0:
            a = m
        else:
            b = m
    return 0.5 * (a + b)


# ------------------------------------------------------------------ generators
def gen_landscape(ctx, rng, kind=None):
    kind = kind or rng.choice(['interior', 'interior', 'lower', 'upper', 'flat', 'steep', 'interior', 'lower', 'upper'])
    Np = rng.choice([1, 2, 3, 5, 8, 13, 20, 40, 60])
    npure = rng.choice([0, 0, rng.randint(1, 200)])
    if kind == 'flat':
        return {'kind': kind, 'R0': [1.0] * Np, 'N': Np}
    N = Np + npure
    sig = rng.choice([0.5, 1.0, 2.0, 3.0])
    R0 = [math.exp(rng.gauss(rng.choice([-1.0, 0.0, 0.5]), sig)) for _ in range(Np)]
    if kind == 'steep':
        # one event with a huge signal-over-background ratio next to background-like ones: a sharply peaked landscape
        R0[0] = rng.choice([0.0, 1e-6, 1e-3])
        R0[-1] = rng.choice([5.0, 50.0, 500.0]) * N
    return {'kind': kind, 'R0': R0, 'N': N}


def gen_bounds_init(ctx, rng, land):
    """random bounds placed relative to the unconstrained optimum so that every regime is hit, and an initial value"""
    N = land['N']
    Np = len(land['R0'])
    cap = 0.9 * N      # log1p(-ns/N) and log1p(ns*Xi) stay defined: the objective is a proper concave function
    kind = land['kind']
    if kind == 'flat':
        # ns stays below N: the real log Lambda is NaN for ns >= N (0 * log1p(-ns/N)), outside C11's domain
        lo = rng.choice([0.0, 0.0, round(rng.uniform(0, 0.2), 3) * N])
        hi = min(cap, lo + rng.choice([0.3, 0.6, round(rng.uniform(0.1, 0.7), 3)]) * N)
        where = 'flat'
    else:
        xs = argmax_1d(land, 0.0, cap)
        want = 'interior' if kind == 'steep' else kind
        if want == 'interior' and not (0.0 < xs < cap):
            want = 'upper' if xs >= cap else 'lower'
        if want == 'upper' and not xs > 1e-6:
            want = 'lower'
        if want == 'lower' and not xs < cap * 0.98:
            want = 'upper'
        if want == 'interior':
            lo = rng.choice([0.0, 0.0, xs * rng.uniform(0.0, 0.95)])
            hi = xs + (cap - xs) * rng.uniform(0.05, 1.0)
        elif want == 'upper':
            hi = xs * rng.uniform(0.2, 1.0)
            lo = rng.choice([0.0, hi * rng.uniform(0.0, 0.8)])
        else:
            lo = xs + (cap - xs) * rng.uniform(0.0, 0.5)
            hi = lo + (cap - lo) * rng.uniform(0.05, 1.0)
        where = want
        lo = float(lo)
        hi = float(hi)
        if not (0.0 <= lo < hi <= cap):
            lo, hi = 0.0, cap
            where = 'reset'
    r = rng.random()
    if r < 0.15:
        init, iw = lo, 'init-on-lower'
    elif r < 0.3:
        init, iw = hi, 'init-on-upper'
    else:
        init, iw = lo + rng.random() * (hi - lo), 'init-inside'
        init = min(max(init, lo), hi)
    ctx.count('landscape:' + kind)
    ctx.count('optimum:' + where)
    ctx.count(iw)
    return float(lo), float(hi), float(init), where, iw


# ------------------------------------------------------------------ predicates
def check_result(ctx, site, case, res, status_ok, accuracy=None, p2=None):
    """the property evaluated on one implementation result `res` = (ll_max, x, flag-or-None)"""
    (llmax, x, flag) = res
    lo, hi = case['bounds'][0]
    ns = float(x[0])
    rc = {k: case[k] for k in ('R0', 'N', 'bounds', 'init', 'impl', 'kind') if k in case}
    rc.update({k: case[k] for k in ('R1', 'R2', 'p2s', 'p2_step', 'ns_tol', 'max_steps', 'max_reps') if k in case})
    inb = all((b[0] <= float(v) <= b[1]) for v, b in zip(x, case['bounds']))
    if not inb:
        ctx.violation(site, 'optimum-out-of-bounds', f'reported optimum {list(map(float, x))} not within {case["bounds"]}',
                      case=rc, impl=[float(llmax)] + list(map(float, x)), predicate='lo <= xmin <= hi (NaN fails)')
        return
    if not status_ok:
        ctx.violation(site, 'silent-non-convergence', 'a result was returned although the status says not converged',
                      case=rc, impl=[float(llmax)] + list(map(float, x)), predicate='not converged => exception')
    want = ll_exact(case, ns, p2)
    scale = sum(abs(math.log1p(max(ns * xi, ALPHA))) for xi in Xi_of(case, p2)) + abs(want) + 1.0
    if not abs(float(llmax) - want) <= 1e-9 * scale:
        ctx.violation(site, 'value-not-at-optimum', f'reported maximum {float(llmax)!r} but log Lambda({ns!r}) = {want!r}',
                      case=rc, impl=[float(llmax)] + list(map(float, x)), predicate='fmin == func(xmin)')
        return
    g = grad_exact(case, ns, p2)
    gtol = 1e-9 * (sum(abs(xi) for xi in Xi_of(case, p2)) + 1.0)
    if flag == -2 and not (ns == lo and g <= gtol):
        ctx.violation(site, 'lower-bound-exit-without-outward-slope', f'warnflag -2 at ns={ns!r}, slope {g!r}', case=rc,
                      impl=[float(llmax), ns, flag], predicate='warnflag -2 => ns == lo and dlogL/dns <= 0')
    if flag == -1 and not (ns == hi and g >= -gtol):
        ctx.violation(site, 'upper-bound-exit-without-outward-slope', f'warnflag -1 at ns={ns!r}, slope {g!r}', case=rc,
                      impl=[float(llmax), ns, flag], predicate='warnflag -1 => ns == hi and dlogL/dns >= 0')
    # never below the value at the initial point, up to what concavity gives for the reported point
    ini = float(case['init'][0])
    if lo <= ini <= hi:
        l0 = ll_exact(case, ini, p2 if p2 is not None else None)
        if not want >= l0 - abs(g) * abs(ini - ns) - 1e-9 * scale:
            ctx.violation(site, 'below-initial-value', f'log Lambda({ns!r}) = {want!r} < log Lambda(init={ini!r}) = {l0!r}',
                          case=rc, impl=[float(llmax), ns], predicate='logL(x_ret) >= logL(x_init) - |slope(x_ret)| |x_init - x_ret|')
    if accuracy is not None:
        xs = argmax_1d(case, lo, hi, p2)
        if not abs(ns - xs) <= accuracy:
            ctx.violation(site, 'not-the-optimum', f'reported ns={ns!r}, maximiser on [lo,hi] is {xs!r}', case=rc,
                          impl=[float(llmax), ns, flag], predicate=f'|ns - argmax| <= {accuracy}')


# ------------------------------------------------------------------ NR 1d through LLHRatio.maximize
def table_from(calls, sign):
    """recorded calls -> {x-vector: (f, g, g2)} with the sign of the negation undone; later calls at the same
    point must agree"""
    tab = []
    for (x, out) in calls:
        f, g, g2 = (sign * float(out[0]), sign * float(out[1]), sign * float(out[2]))
        for (x2, v2) in tab:
            if all(feq(a, b) for a, b in zip(x, x2)):
                break
        else:
            tab.append((list(map(float, x)), (f, g, g2)))
    return tab


def tab_tokens(tab):
    out = []
    for (x, v) in tab:
        out += [hx(a) for a in x] + [hx(a) for a in v]
    return out


def run_nr_case(ctx, case, lines, checks):
    E = env()
    impl = E['RecNR'](cfg=E['cfg'], ns_tol=case['ns_tol'], max_steps=case['max_steps'])
    impl.reset()
    llh = build_llh(case, impl, max_reps=case['max_reps'])
    with warnings.catch_warnings(), np.errstate(all='ignore'):
        warnings.simplefilter('ignore')
        try:
            (llmax, x, st) = llh.maximize(E['RSS'](1))
            got = ['Ok', hx(llmax), [hx(v) for v in x], int(st['warnflag']), int(st['niter']), hx(st['last_nr_step']),
                   [hx(c[0][0]) for c in impl.calls]]
            res = (llmax, x, int(st['warnflag']))
        except Exception as ex:
            got = ['Err', exc_kind(ex)]
            res = None
    tab = table_from(impl.calls, -1.0)
    lo, hi = case['bounds'][0]
    lines.append(' '.join(['nr', '1', '0', hx(case['ns_tol']), str(case['max_steps']), str(case['max_reps']), hx(lo), hx(hi),
                           hx(case['init'][0]), str(len(tab))] + tab_tokens(tab)))
    checks.append(('nr', case, got))
    if case.get('valid', True):
        if res is not None:
            acc = None
            if case['kind'] != 'flat' and taylor_free(case, lo, hi) and res[2] == 0:
                acc = 10 * case['ns_tol'] + 1e-9
            check_result(ctx, 'LLHRatio.maximize[NR1dNsMinimizerImpl]', case, res, status_ok=res[2] <= 0, accuracy=acc)
            ctx.count('nr-flag:%d' % res[2])
        else:
            # an exception is the signalled failure the property asks for; only counted
            ctx.count('nr-raised:' + got[1] + (':flat' if case['kind'] == 'flat' else ''))


def ch(tok):
    """canonical hex text of a float token printed by the OCaml driver"""
    return hx(unhx(tok))


def parse_nr_out(line):
    w = line.split()
    if not w:
        return ['empty']
    if w[0] == 'Err':
        return ['Err', w[1]]
    if w[0] != 'Ok':
        return [line]
    bar = w.index('|')
    head, tail = w[1:bar], w[bar + 1:]
    return ['Ok', ch(head[0]), [ch(t) for t in head[1].split(',')], int(tail[0]), int(tail[1]), ch(tail[2]),
            [ch(t) for t in tail[3:]]] + head[2:]


def gen_nr_case(ctx, rng, kind=None):
    land = gen_landscape(ctx, rng, kind)
    lo, hi, init, where, iw = gen_bounds_init(ctx, rng, land)
    case = dict(land)
    case.update({'impl': 'nr1d', 'bounds': [[lo, hi]], 'init': [init], 'where': where,
                 'ns_tol': rng.choice([1e-3, 1e-3, 1e-2, 1e-5]), 'max_steps': rng.choice([100, 100, 100, 50, 3, 1]),
                 'max_reps': rng.choice([100, 0, 2]), 'valid': True})
    return case


def gen_nr_malformed(ctx, rng):
    land = gen_landscape(ctx, rng, rng.choice(['interior', 'lower', 'upper', 'flat']))
    lo, hi, init, where, iw = gen_bounds_init(ctx, rng, land)
    case = dict(land)
    how = rng.choice(['init-below-lower', 'init-above-upper', 'max-steps-0', 'lo-gt-hi', 'lo-eq-hi'])
    ctx.count('malformed:' + how)
    ms = 100
    if how == 'init-below-lower':
        init = lo - rng.choice([1e-9, 0.5, 3.0])
    elif how == 'init-above-upper':
        init = hi + rng.choice([1e-9, 0.5])
        if land['N'] != len(land['R0']):
            init = min(init, 0.95 * land['N'])
    elif how == 'max-steps-0':
        ms = 0
    elif how == 'lo-gt-hi':
        lo, hi = hi, lo
        init = rng.choice([lo, hi, 0.5 * (lo + hi)])
    else:
        hi = lo
        init = lo
    case.update({'impl': 'nr1d', 'bounds': [[lo, hi]], 'init': [init], 'where': how, 'ns_tol': 1e-3, 'max_steps': ms,
                 'max_reps': 100, 'valid': False})
    return case


def compare(ctx, checks, outs):
    for (kind, case, got), line in zip(checks, outs):
        ctx.corr_cases += 1
        try:
            if kind in ('nr', 'scan'):
                m = parse_nr_out(line)
            else:
                m = parse_wrap_out(line)
        except Exception as ex:
            m = ['unparsed', line[:300], str(ex)]
        if m != got:
            ctx.disagree('minimizer.' + kind, dict(case), got, m)


# ------------------------------------------------------------------ NR + scan 2d through LLHRatio.maximize
def run_scan_case(ctx, case, lines, checks):
    E = env()
    impl = E['RecScan'](cfg=E['cfg'], p2_scan_step=case['p2_step'], ns_tol=case['ns_tol'], max_steps=case['max_steps'])
    impl.reset()
    llh = build_llh(case, impl, max_reps=case['max_reps'])
    (p2lo, p2hi) = case['bounds'][1]
    with warnings.catch_warnings(), np.errstate(all='ignore'):
        warnings.simplefilter('ignore')
        try:
            (llmax, x, st) = llh.maximize(E['RSS'](1))
            got = ['Ok', hx(llmax), [hx(v) for v in x], int(st['warnflag']), int(st['niter']), hx(st['last_nr_step'])]
            res = (llmax, x, int(st['warnflag']))
        except Exception as ex:
            got = ['Err', exc_kind(ex)]
            res = None
    # independent reading of the scan grid
    try:
        p2s = [float(v) for v in np.linspace(p2lo, p2hi, int((p2hi - p2lo) / case['p2_step']) + 1)]
    except Exception:
        p2s = []
    seen = []
    for c in impl.calls:
        v = float(c[0][1])
        if not seen or seen[-1] != v:
            seen.append(v)
    if res is not None and seen != p2s:
        ctx.violation('NRNsScan2dMinimizerImpl.minimize', 'scan-grid', f'scanned {seen[:5]}.. expected {p2s[:5]}..',
                      case=dict(case), impl=seen, predicate='second parameter scanned on linspace(lo, hi, int((hi-lo)/step)+1)')
    tab = table_from(impl.calls, -1.0)
    toks = ['scan', '2', '0', hx(case['ns_tol']), str(case['max_steps']), str(case['max_reps'])]
    for b in case['bounds']:
        toks += [hx(b[0]), hx(b[1])]
    toks += [hx(v) for v in case['init']] + [str(len(p2s))] + [hx(v) for v in p2s] + [str(len(tab))] + tab_tokens(tab)
    lines.append(' '.join(toks))
    if got[0] == 'Ok':
        # trace of the best scan point only: the calls made for that value of p2 (last block with that p2)
        best_p2 = float(x[1])
        tr = [hx(c[0][0]) for c in impl.calls if float(c[0][1]) == best_p2]
        got = got + [tr, '0']
        got = ['Ok', got[1], got[2], got[3], got[4], got[5], tr, str(0)]
    checks.append(('scan', case, got))
    if res is not None and case.get('valid', True):
        ctx.count('scan-flag:%d' % res[2])
        check_result(ctx, 'LLHRatio.maximize[NRNsScan2dMinimizerImpl]', case, res, status_ok=res[2] <= 0, p2=float(x[1]))
        # best-of: no scan point has a larger maximum (by the recorded final values)
        finals = {}
        for c in impl.calls:
            finals[float(c[0][1])] = float(c[1][0])
        if finals and not all(-float(llmax) <= v for v in finals.values()):
            ctx.violation('NRNsScan2dMinimizerImpl.minimize', 'not-best-of-scan', 'a scan point has a smaller minimum',
                          case=dict(case), impl=[float(llmax)] + list(map(float, x)), predicate='fmin = min over the scan')
    elif res is None:
        ctx.count('scan-raised:' + got[1])
    if case.get('valid', True):
        scan_probes(ctx, case, llh, impl, res, p2s)


def scan_probes(ctx, case, llh, impl, res, p2s):
    """model-independent predicates on the real TCLLHRatio.maximize with NR+scan: the result is a function of the
    current inputs only and is the best of the scan"""
    E = env()
    site = 'LLHRatio.maximize[NRNsScan2dMinimizerImpl]'
    rc = {k: case[k] for k in case if k != 'valid'}
    lo, hi = case['bounds'][0]
    scale0 = sum(abs(math.log1p(max(hi * xi, ALPHA))) for xi in Xi_of(case, case['init'][1])) + 1.0
    with warnings.catch_warnings(), np.errstate(all='ignore'):
        warnings.simplefilter('ignore')
        # (a) the objective closure handed to the minimiser is a function of its argument only: evaluated (after
        #     the maximisation) at two different values of the second parameter it gives the independent values
        if getattr(impl, 'last_func', None) is not None and p2s:
            (func, fargs) = impl.last_func
            ns_p = lo + 0.37 * (hi - lo)
            for g in (p2s[-1], p2s[0], p2s[len(p2s) // 2]):
                try:
                    out = func(np.array([ns_p, g], dtype=np.float64), *(fargs or ()))
                    got_v = (float(out[0]), float(out[1]), float(out[2]))
                except Exception as ex:
                    got_v = exc_kind(ex)
                want_v = (-ll_exact(case, ns_p, g), -grad_exact(case, ns_p, g), -grad2_exact(case, ns_p, g))
                sc = [scale0, sum(abs(x) for x in Xi_of(case, g)) + 1.0, sum(x * x for x in Xi_of(case, g)) * 1e6 + 1.0]
                if isinstance(got_v, str) or not all(abs(a - b) <= 1e-9 * c for a, b, c in zip(got_v, want_v, sc)):
                    ctx.violation(site, 'objective-closure-not-a-function-of-its-argument',
                                  f'closure at (ns={ns_p!r}, gamma={g!r}) gives {got_v!r}, independent value {want_v!r}',
                                  case=rc, impl=got_v, model=list(want_v),
                                  predicate='func(x) == (-logL, -dlogL/dns, -d2logL/dns2)(x) for every x')
                    break
            ctx.count('scan-closure-probes')
        if res is None:
            return
        (llmax, x, flag) = res
        ns, g = float(x[0]), float(x[1])
        scale = sum(abs(math.log1p(max(ns * xi, ALPHA))) for xi in Xi_of(case, g)) + abs(float(llmax)) + 1.0
        # (b) log_lambda_max equals a fresh evaluation of a fresh llh-ratio object at the returned point
        fresh = build_llh(case, E['mz'].NRNsScan2dMinimizerImpl(cfg=E['cfg'], p2_scan_step=case['p2_step']))
        try:
            (v, _) = fresh.evaluate(np.array([ns, g], dtype=np.float64))
            v = float(v)
        except Exception as ex:
            v = float('nan')
        if not abs(v - float(llmax)) <= 1e-9 * scale:
            ctx.violation(site, 'value-not-fresh-evaluate', f'log_lambda_max {float(llmax)!r}, fresh evaluate gives {v!r}',
                          case=rc, impl=[float(llmax), ns, g], predicate='log_lambda_max == evaluate(fitparam_values)')
        # (c) best of the scan: not below the optimum of a fresh NR-1D run on the independent objective at any
        #     scanned value of the second parameter
        worst = None
        at_init = None
        for q in p2s:
            r = fresh_nr(case, q)
            if r is None:
                continue
            if q == float(case['init'][1]):
                at_init = r
            if worst is None or r[0] > worst[0]:
                worst = (r[0], r[1], q)
        if worst is not None and not float(llmax) >= worst[0] - 1e-7 * scale:
            ctx.violation(site, 'below-scan-optimum',
                          f'log_lambda_max {float(llmax)!r} at gamma={g!r}, but NR at gamma={worst[2]!r} reaches {worst[0]!r}',
                          case=rc, impl=[float(llmax), ns, g], model=list(worst),
                          predicate='log_lambda_max >= max over the scan grid of the NR optimum')
        # (d) never below the value at the initial point (when the initial second parameter is a scan point)
        ini_ns, ini_g = float(case['init'][0]), float(case['init'][1])
        if at_init is not None and lo <= ini_ns <= hi:
            l0 = ll_exact(case, ini_ns, ini_g)
            slack = abs(grad_exact(case, at_init[1], ini_g)) * abs(ini_ns - at_init[1])
            if not float(llmax) >= l0 - slack - 1e-7 * scale:
                ctx.violation(site, 'below-initial-value',
                              f'log_lambda_max {float(llmax)!r} < log Lambda at the initial point {l0!r}', case=rc,
                              impl=[float(llmax), ns, g], predicate='logL(result) >= logL(initial point) - |slope| |dns|')
            ctx.count('scan-initial-on-grid')
        # (e) repeat: a second maximisation on the same object gives the identical result
        try:
            (ll2, x2, st2) = llh.maximize(E['RSS'](1))
            same = feq(ll2, llmax) and all(feq(a, b) for a, b in zip(x2, x))
        except Exception as ex:
            same = False
        if not same:
            ctx.violation(site, 'repeat-differs', 'a second maximize() on the same object gives a different result',
                          case=rc, impl=[float(llmax), ns, g], predicate='maximize is a function of the current inputs only')
        ctx.count('scan-best-gamma:' + ('lower' if g == p2s[0] else 'upper' if g == p2s[-1] else 'interior'))


def gen_scan_case(ctx, rng, best=None):
    """second fit parameter gamma: R_i(g) = A_i * (1 - k (g - gb)^2) with gb interior / beyond the upper / beyond the
    lower bound of gamma (or the linear dependence R0_i + g R1_i); signal-like landscapes, so that gamma matters"""
    best = best or rng.choice(['interior', 'upper', 'lower', 'interior', 'upper', 'linear'])
    for _ in range(50):
        land = gen_landscape(ctx, rng, rng.choice(['interior', 'interior', 'upper', 'lower'] if best == 'linear'
                                                  else ['interior', 'interior', 'steep', 'upper']))
        if best == 'linear' or sum(land['R0']) > 1.2 * land['N']:
            break
    lo, hi, init, where, iw = gen_bounds_init(ctx, rng, land)
    p2lo = rng.choice([0.0, 1.0, -1.0])
    p2hi = p2lo + rng.choice([1.0, 2.0, 0.5])
    step = rng.choice([0.5, 0.25, 0.1, 1.0, 0.3])
    case = dict(land)
    if best == 'linear':
        case['R1'] = [rng.uniform(-0.3, 0.3) * r / max(abs(p2lo), abs(p2hi), 1.0) for r in land['R0']]
    else:
        w = p2hi - p2lo
        gb = {'interior': p2lo + rng.choice([0.25, 0.5, 0.75, rng.uniform(0.1, 0.9)]) * w,
              'upper': p2hi + rng.choice([0.0, 0.5, 2.0]) * w, 'lower': p2lo - rng.choice([0.0, 0.5, 2.0]) * w}[best]
        k = 0.8 / max(abs(p2lo - gb), abs(p2hi - gb)) ** 2
        A = land['R0']
        case['R0'] = [a * (1 - k * gb * gb) for a in A]
        case['R1'] = [2 * k * gb * a for a in A]
        case['R2'] = [-k * a for a in A]
        lo = 0.0 if rng.random() < 0.7 else lo
    if not lo < hi:
        lo = 0.0
    init = min(max(init, lo), hi)
    case.update({'impl': 'nrscan2d', 'bounds': [[lo, hi], [p2lo, p2hi]],
                 'init': [init, rng.choice([p2lo, p2hi, p2hi, 0.5 * (p2lo + p2hi)])], 'where': where, 'p2_step': step,
                 'ns_tol': 1e-3, 'max_steps': rng.choice([100, 100, 100, 2]), 'max_reps': 100, 'valid': True})
    ctx.count('scan-cases')
    ctx.count('scan-design:' + best)
    return case



# ------------------------------------------------------------------ independent convergence criteria for the oracles
def raw_converged(case, st):
    """the implementation's own status record read directly (not through has_converged): None when unknown"""
    name = case['impl']
    try:
        if name == 'lbfgs':
            return int(st['warnflag']) == 0
        if name.startswith('scipy:') or name == 'iminuit':
            return bool(st['success'])
    except Exception:
        return None
    return None


def oracle_convergence(ctx, site, case, x, st, got):
    """a returned result of L-BFGS-B / scipy / iminuit must (a) carry a raw status that says success and (b) be an
    optimum of the recorded concave objective by an independent criterion: the objective deficit w.r.t. the
    bisection maximiser on [lo, hi] is small"""
    if case['impl'] == 'scripted' or case.get('objective') is not None or len(case['init']) != 1:
        return
    rc = {k: case[k] for k in case if k != 'valid'}
    raw = raw_converged(case, st)
    if raw is False:
        ctx.violation(site, 'returned-with-failure-status', 'a result was returned although the raw status record '
                      'of the implementation says it did not succeed', case=rc, impl=got,
                      predicate='status.success / warnflag == 0 for every returned result')
    lo, hi = case['bounds'][0]
    ns = float(x[0])
    if not (lo <= ns <= hi):
        return
    xs = argmax_1d(case, lo, hi)
    deficit = ll_exact(case, xs) - ll_exact(case, ns)
    scale = abs(ll_exact(case, xs)) + 1.0
    ctx.stats['oracle-max-deficit-1e9'] = max(ctx.stats.get('oracle-max-deficit-1e9', 0), int(1e9 * deficit / scale))
    if not deficit <= 1e-3 * scale:
        ctx.violation(site, 'returned-point-not-optimal', f'log Lambda({ns!r}) is {deficit!r} below the maximum at {xs!r}',
                      case=rc, impl=got, predicate='logL(argmax) - logL(x_ret) <= 1e-3 (1 + |logL(argmax)|)')


# ------------------------------------------------------------------ generic LLHRatio.maximize (non-NR implementations)
def run_gen_case(ctx, case, lines, checks):
    """the real ZeroSigH0SingleDatasetTCLLHRatio.maximize -> LLHRatio.maximize (generic path) around L-BFGS-B /
    scipy / iminuit; the wrapper + negation model (maximize_gen) is run on the recorded oracle"""
    E = env()
    impl = make_impl(case)
    impl.reset()
    llh = build_llh(case, impl, max_reps=case['max_reps'])
    rss = E['RSSStub'](case.get('seed', 1))
    reevals = []
    real_eval = llh.evaluate

    def rec_eval(*a, **k):
        out = real_eval(*a, **k)
        if impl.active == 0:
            fv = k.get('fitparam_values', a[0] if a else None)
            reevals.append(('R', np.array(fv, dtype=np.float64).copy(), -float(out[0])))
        return out
    llh.evaluate = rec_eval
    with warnings.catch_warnings(), np.errstate(all='ignore'):
        warnings.simplefilter('ignore')
        try:
            (llmax, x, st) = llh.maximize(rss)
            got = ['Ok', hx(llmax), [hx(v) for v in x], 0]
            res = (llmax, x, st)
        except Exception as ex:
            got = ['Err', exc_kind(ex)]
            res = None
    line = wrap_line(case, impl.impl_calls, impl.impl_results, rss.draws, reevals)
    lines.append('gen' + line[4:])
    checks.append(('wrap', case, got))
    ctx.count('gen:' + case['impl'])
    site = f'LLHRatio.maximize[{case["impl"]}]'
    last = impl.impl_results[-1] if impl.impl_results else None
    if res is not None:
        ctx.count('gen-returned')
        if last is None or last[0] != 'R' or not last[3]:
            ctx.violation(site, 'silent-non-convergence', 'a result was returned although the last run did not converge',
                          case=dict(case), impl=got, predicate='not converged => exception')
        check_result(ctx, site, case, (llmax, x, None), status_ok=True)
        oracle_convergence(ctx, site, case, x, st, got)
    else:
        ctx.count('gen-raised:' + got[1])


# ------------------------------------------------------------------ parameter layouts with ns not first
def run_layout_case(ctx, case, lines, checks):
    """gamma mapped BEFORE ns: NR1dNsMinimizerImpl varies x[0] while the closure differentiates w.r.t. ns, so the
    NR path of TCLLHRatio.maximize must raise (fix dd4ce02); a returned result must at least be stationary in ns"""
    E = env()
    scan = case['impl'] == 'nrscan2d'
    impl = (E['RecScan'](cfg=E['cfg'], p2_scan_step=case['p2_step']) if scan else E['RecNR'](cfg=E['cfg']))
    impl.reset()
    src = E['Src'](name='s', ra=1.0, dec=0.2)
    pmm = E['PMM'](models=[src])
    pmm.map_param(mk_param('gamma', case['init'][0], case['bounds'][0][0], case['bounds'][0][1]), models=[src])
    pmm.map_param(mk_param('ns', case['init'][1], case['bounds'][1][0], case['bounds'][1][1]))
    shg = E['SHG']()
    tdm = E['TDM']()
    tdm.initialize_trial(shg_mgr=shg, pmm=pmm, events=E['DFRA'](np.zeros((len(case['R0']),), dtype=[('x', np.float64)])),
                         n_events=case['N'])
    pr = E['ArrPDFRatio'](case['R0'], case['R1'], 'gamma', cfg=E['cfg'])
    llh = E['LLH'](cfg=E['cfg'], pmm=pmm, minimizer=E['mz'].Minimizer(impl), shg_mgr=shg, tdm=tdm, pdfratio=pr)
    with warnings.catch_warnings(), np.errstate(all='ignore'):
        warnings.simplefilter('ignore')
        try:
            (llmax, x, st) = llh.maximize(E['RSS'](1))
            got = ['Ok', hx(llmax), [hx(v) for v in x]]
            g, ns = float(x[0]), float(x[1])
            sub = dict(case, bounds=[case['bounds'][1]], init=[case['init'][1]])
            slope = grad_exact(sub, ns, g)
            lo, hi = case['bounds'][1]
            if not (abs(slope) <= 0.2 or (ns == lo and slope <= 0) or (ns == hi and slope >= 0)):
                ctx.violation('LLHRatio.maximize[NR, ns not first]', 'not-stationary-in-ns',
                              f'returned ns={ns!r} gamma={g!r} with d logL/d ns = {slope!r}', case=dict(case), impl=got,
                              predicate='ns not first: raise, or return a point stationary in ns')
        except Exception as ex:
            got = ['Err', exc_kind(ex)]
    toks = ['scan' if scan else 'nr', '2', '1', hx(1e-3), '100', '100']
    for b in case['bounds']:
        toks += [hx(b[0]), hx(b[1])]
    toks += [hx(v) for v in case['init']]
    if scan:
        toks += ['1', hx(case['bounds'][1][0])]
    toks += ['0']
    lines.append(' '.join(toks))
    checks.append(('nr', case, got))
    ctx.count('layout-ns-second:' + got[0] + (':' + got[1] if got[0] == 'Err' else ''))


# ------------------------------------------------------------------ NR + scan on a raw objective with a NaN value
def run_scanraw_case(ctx, case, lines, checks):
    """Minimizer.minimize(NRNsScan2dMinimizerImpl) on f(ns, g) = (ns - c)^2 + g with f = NaN (finite derivatives)
    at the scan values listed in `nan_at` (fix 74450e7): the NaN step must not be reported"""
    E = env()
    impl = E['RecScan'](cfg=E['cfg'], p2_scan_step=case['p2_step'], ns_tol=case['ns_tol'], max_steps=case['max_steps'])
    impl.reset()
    c = case['center']

    def func(x, *a):
        ns, g = float(x[0]), float(x[1])
        v = (ns - c) * (ns - c) + g
        if g in case['nan_at'] or ns >= case.get('nan_from', float('inf')):
            v = float('nan')
        return (np.float64(v), np.float64(2.0 * (ns - c)), np.float64(2.0))
    ps = E['ParameterSet']([mk_param('ns', case['init'][0], *case['bounds'][0]), mk_param('g', case['init'][1], *case['bounds'][1])])
    (p2lo, p2hi) = case['bounds'][1]
    p2s = [float(v) for v in np.linspace(p2lo, p2hi, int((p2hi - p2lo) / case['p2_step']) + 1)]
    with warnings.catch_warnings(), np.errstate(all='ignore'):
        warnings.simplefilter('ignore')
        try:
            (x, fmin, st) = E['mz'].Minimizer(impl).minimize(E['RSS'](1), ps, func)
            tr = [hx(cc[0][0]) for cc in impl.calls if float(cc[0][1]) == float(x[1])]
            got = ['Ok', hx(-fmin), [hx(v) for v in x], int(st['warnflag']), int(st['niter']), hx(st['last_nr_step']), tr, '0']
            res = (x, float(fmin), int(st['warnflag']))
        except Exception as ex:
            got = ['Err', exc_kind(ex)]
            res = None
    tab = table_from(impl.calls, -1.0)
    toks = ['scan', '2', '0', hx(case['ns_tol']), str(case['max_steps']), '100']
    for b in case['bounds']:
        toks += [hx(b[0]), hx(b[1])]
    toks += [hx(v) for v in case['init']] + [str(len(p2s))] + [hx(v) for v in p2s] + [str(len(tab))] + tab_tokens(tab)
    lines.append(' '.join(toks))
    checks.append(('scan', case, got))
    site = 'Minimizer.minimize[NRNsScan2dMinimizerImpl]'
    finite = [g for g in p2s if g not in case['nan_at']] if 'nan_from' not in case else []
    ctx.count('scanraw:' + ('all-nan' if not finite else 'some-nan' if len(finite) < len(p2s) else 'no-nan'))
    if res is not None:
        if math.isnan(res[1]):
            ctx.violation(site, 'nan-value-reported-as-converged', f'fmin = NaN returned with warnflag {res[2]}',
                          case=dict(case), impl=got, predicate='a NaN function value is never a converged result')
        elif finite:
            lo, hi = case['bounds'][0]
            best = min((min(max(c, lo), hi) - c) ** 2 + g for g in finite)
            if not abs(res[1] - best) <= 1e-6 * (1 + abs(best)):
                ctx.violation(site, 'not-best-of-scan', f'fmin {res[1]!r}, best finite scan step has {best!r}',
                              case=dict(case), impl=got, predicate='fmin = min over the finite scan steps')
    elif finite and case['max_steps'] >= 50:
        ctx.violation(site, 'raises-although-finite-steps-exist', 'the scan raised although finite scan steps exist',
                      case=dict(case), impl=got, predicate='a NaN scan step does not hide the finite ones')



# ------------------------------------------------------------------ multi-dataset log-likelihood ratio with NR (round 4)
def build_multi(case, impl):
    """a real MultiDatasetTCLLHRatio over real ZeroSigH0SingleDatasetTCLLHRatio instances; only the detector signal
    yield weights service is a stub (fixed relative signal efficiencies a_j)"""
    E = env()
    from skyllh.core.llhratio import MultiDatasetTCLLHRatio
    from skyllh.core.services import DatasetSignalWeightFactorsService, SrcDetSigYieldWeightsService

    class FixedYieldWeights(SrcDetSigYieldWeightsService):
        def __init__(self, a_j):
            self._a_jk = np.asarray(a_j, dtype=np.float64)[:, np.newaxis]
            self._a_jk_grads = dict()

        @property
        def n_datasets(self):
            return self._a_jk.shape[0]

        def calculate(self, src_params_recarray):
            pass

        def change_shg_mgr(self, shg_mgr):
            pass
    subs = [build_llh(dict(case, R0=ds['R0'], N=ds['N']), E['mz'].NR1dNsMinimizerImpl(cfg=E['cfg'])) for ds in case['datasets']]
    sdw = FixedYieldWeights(case['a'])
    dsw = DatasetSignalWeightFactorsService(sdw)
    return MultiDatasetTCLLHRatio(cfg=E['cfg'], pmm=subs[0].pmm, minimizer=E['mz'].Minimizer(impl, max_repetitions=case['max_reps']),
                                  src_detsigyield_weights_service=sdw, ds_sig_weight_factors_service=dsw, llhratio_list=subs)


def multi_ll(case, ns):
    f = [a / sum(case['a']) for a in case['a']]
    return math.fsum(ll_exact(ds, ns * fj) for fj, ds in zip(f, case['datasets']))


def multi_grad(case, ns):
    f = [a / sum(case['a']) for a in case['a']]
    return math.fsum(fj * grad_exact(ds, ns * fj) for fj, ds in zip(f, case['datasets']))


def multi_argmax(case, lo, hi):
    if multi_grad(case, lo) <= 0:
        return lo
    if multi_grad(case, hi) >= 0:
        return hi
    a, b = lo, hi
    for _ in range(200):
        m = 0.5 * (a + b)
        if multi_grad(case, m) > 0:
            a = m
        else:
            b = m
    return 0.5 * (a + b)


def run_multi_case(ctx, case, lines, checks):
    """NR-1D through the real MultiDatasetTCLLHRatio.maximize: the objective closure calls the composite evaluate and
    calculate_ns_grad2; the reported ns must be the independently bisected stationary point within ns_tol"""
    E = env()
    impl = E['RecNR'](cfg=E['cfg'], ns_tol=case['ns_tol'], max_steps=case['max_steps'])
    impl.reset()
    llh = build_multi(case, impl)
    with warnings.catch_warnings(), np.errstate(all='ignore'):
        warnings.simplefilter('ignore')
        try:
            (llmax, x, st) = llh.maximize(E['RSS'](1))
            got = ['Ok', hx(llmax), [hx(v) for v in x], int(st['warnflag']), int(st['niter']), hx(st['last_nr_step']),
                   [hx(c[0][0]) for c in impl.calls]]
            res = (float(llmax), float(x[0]), int(st['warnflag']))
        except Exception as ex:
            got = ['Err', exc_kind(ex)]
            res = None
    tab = table_from(impl.calls, -1.0)
    lo, hi = case['bounds'][0]
    lines.append(' '.join(['nr', '1', '0', hx(case['ns_tol']), str(case['max_steps']), str(case['max_reps']), hx(lo), hx(hi),
                           hx(case['init'][0]), str(len(tab))] + tab_tokens(tab)))
    checks.append(('nr', case, got))
    site = 'MultiDatasetTCLLHRatio.maximize[NR1dNsMinimizerImpl]'
    rc = {k: case[k] for k in case if k != 'valid'}
    ctx.count('multi-datasets:%d' % len(case['datasets']))
    if res is None:
        ctx.count('multi-raised:' + got[1])
        return
    (llmax, ns, flag) = res
    if not (lo <= ns <= hi):
        ctx.violation(site, 'optimum-out-of-bounds', f'ns = {ns!r}', case=rc, impl=got, predicate='lo <= ns <= hi')
        return
    want = multi_ll(case, ns)
    if not abs(llmax - want) <= 1e-9 * (abs(want) + 1.0):
        ctx.violation(site, 'value-not-at-optimum', f'log_lambda_max {llmax!r}, independent value {want!r}', case=rc, impl=got,
                      predicate='log_lambda_max == sum_j logL_j(ns f_j)')
    if flag > 0:
        ctx.violation(site, 'silent-non-convergence', f'warnflag {flag}', case=rc, impl=got, predicate='not converged => exception')
    xs = multi_argmax(case, lo, hi)
    g = multi_grad(case, ns)
    if flag == -2 and not (ns == lo and g <= 1e-9):
        ctx.violation(site, 'lower-bound-exit-without-outward-slope', f'slope {g!r}', case=rc, impl=got, predicate='-2 => slope <= 0')
    if flag == -1 and not (ns == hi and g >= -1e-9):
        ctx.violation(site, 'upper-bound-exit-without-outward-slope', f'slope {g!r}', case=rc, impl=got, predicate='-1 => slope >= 0')
    if flag == 0 and lo < xs < hi:
        ctx.count('multi-interior')
        ctx.stats['multi-max-err-over-tol-1e6'] = max(ctx.stats.get('multi-max-err-over-tol-1e6', 0),
                                                     int(1e6 * abs(ns - xs) / case['ns_tol']))
        if not abs(ns - xs) <= case['ns_tol']:
            ctx.violation(site, 'stationary-point-beyond-tolerance',
                          f'reported ns = {ns!r}, stationary point {xs!r}: |diff| = {abs(ns - xs)!r} > ns_tol = {case["ns_tol"]!r} '
                          f'(niter {got[4]})', case=rc, impl=got, predicate='|ns - argmax| <= ns_tol')
    ini = case['init'][0]
    if not llmax >= multi_ll(case, ini) - abs(g) * abs(ini - ns) - 1e-9 * (abs(want) + 1.0):
        ctx.violation(site, 'below-initial-value', 'maximised value below the value at the initial point', case=rc, impl=got,
                      predicate='logL(x_ret) >= logL(x_init) - |slope| |dx|')


def multi_datasets(rng, n, nev=30, strong=(60.0, 90.0)):
    out = []
    for _ in range(n):
        R0 = [math.exp(rng.gauss(0, 1)) for _ in range(nev)] + [s * rng.uniform(0.8, 1.2) for s in strong]
        out.append({'R0': R0, 'N': len(R0) + 8})
    return out


def gen_multi_case(ctx, rng):
    n = rng.choice([2, 3, 4, 5, 6])
    a = [rng.choice([1.0, 1.0, 0.5, 2.0, 3.0]) for _ in range(n)]
    ds = multi_datasets(rng, n, nev=rng.choice([5, 15, 30]))
    fmax = max(a) / sum(a)
    hi = 0.85 * min(d['N'] for d in ds) / fmax
    return {'kind': 'multi', 'impl': 'nr1d-multi', 'datasets': ds, 'a': a, 'R0': ds[0]['R0'], 'N': ds[0]['N'],
            'bounds': [[0.0, hi]], 'init': [rng.choice([0.0, 1.0, hi, rng.uniform(0, hi)])],
            'ns_tol': rng.choice([1e-3, 1e-2, 1e-4]), 'max_steps': 100, 'max_reps': 100, 'valid': True}


# ------------------------------------------------------------------ NR-1D on a raw objective that is NaN at a bound
def run_nrraw_case(ctx, case, lines, checks):
    """Minimizer.minimize(NR1dNsMinimizerImpl) on f(ns) = (ns - c)^2, NaN (with finite derivatives) for
    ns >= nan_from: a fit forced onto that bound must not return the NaN value as converged (fix 74450e7)"""
    E = env()
    impl = E['RecNR'](cfg=E['cfg'], ns_tol=case['ns_tol'], max_steps=case['max_steps'])
    impl.reset()
    c = case['center']

    def func(x, *a):
        ns = float(x[0])
        v = (ns - c) * (ns - c)
        if ns >= case['nan_from']:
            v = float('nan')
        return (np.float64(v), np.float64(2.0 * (ns - c)), np.float64(2.0))
    ps = E['ParameterSet']([mk_param('ns', case['init'][0], *case['bounds'][0])])
    with warnings.catch_warnings(), np.errstate(all='ignore'):
        warnings.simplefilter('ignore')
        try:
            (x, fmin, st) = E['mz'].Minimizer(impl).minimize(E['RSS'](1), ps, func)
            got = ['Ok', hx(-fmin), [hx(v) for v in x], int(st['warnflag']), int(st['niter']), hx(st['last_nr_step']),
                   [hx(cc[0][0]) for cc in impl.calls]]
            res = (float(x[0]), float(fmin), int(st['warnflag']))
        except Exception as ex:
            got = ['Err', exc_kind(ex)]
            res = None
    tab = table_from(impl.calls, -1.0)
    lo, hi = case['bounds'][0]
    lines.append(' '.join(['nr', '1', '0', hx(case['ns_tol']), str(case['max_steps']), '100', hx(lo), hx(hi),
                           hx(case['init'][0]), str(len(tab))] + tab_tokens(tab)))
    checks.append(('nr', case, got))
    ctx.count('nrraw:' + got[0])
    if res is not None and math.isnan(res[1]):
        ctx.violation('Minimizer.minimize[NR1dNsMinimizerImpl]', 'nan-value-reported-as-converged',
                      f'(xmin={res[0]!r}, fmin=nan, warnflag={res[2]}) returned', case=dict(case), impl=got,
                      predicate='a NaN function value is never a converged result')


# ------------------------------------------------------------------ iminuit helper functor (stateful cache)
def functor_probes(ctx):
    """FuncWithGradsFunctor caches (x, f, grads): the values it returns must be the function's at the requested x,
    also for x differing from the cached one by one ulp / 1e-9 and after interleaved get_f / get_grads calls"""
    try:
        from skyllh.core.minimizers.iminuit import FuncWithGradsFunctor
    except Exception:
        ctx.notes.append('iminuit functor not importable: probe skipped')
        return
    E = env()
    calls = []

    def func(x, *a):
        x = np.asarray(x, dtype=np.float64)
        calls.append(x.copy())
        return (np.float64(np.sum(x * x * x)), 3.0 * x * x)
    fn = FuncWithGradsFunctor(cfg=E['cfg'], func=func, func_args=())
    pts = [np.array([1.0, 2.0]), np.array([1.0, 2.0]), np.array([1.0 + 1e-9, 2.0]), np.array([np.nextafter(1.0, 2.0), 2.0]),
           np.array([1.0, 2.0]), np.array([3.0, -1.0])]
    for i, x in enumerate(pts):
        fv = float(fn.get_f(x.copy())) if i % 2 == 0 else None
        gv = np.array(fn.get_grads(x.copy()), dtype=np.float64)
        fv = float(fn.get_f(x.copy())) if fv is None else fv
        if fv != float(np.sum(x * x * x)) or not np.array_equal(gv, 3.0 * x * x):
            ctx.violation('FuncWithGradsFunctor', 'stale-cache', f'values for x={x.tolist()!r} are not the function at x',
                          case={'impl': 'iminuit-functor', 'x': x.tolist(), 'i': i}, impl=[fv, gv.tolist()],
                          predicate='get_f(x), get_grads(x) == func(x)')
            break
    ctx.count('functor-probes')
    ctx.case({'impl': 'iminuit-functor'})


# ------------------------------------------------------------------ wrapper around oracle implementations
def parse_wrap_out(line):
    w = line.split()
    if not w:
        return ['empty']
    if w[0] == 'Err':
        return ['Err', w[1]]
    if w[0] != 'Ok':
        return [line]
    return ['Ok', ch(w[1]), [ch(t) for t in w[2].split(',')], int(w[3])]


def wrap_line(case, impl_calls, impl_results, draws, reevals):
    d = len(case['init'])
    toks = ['wrap', str(d), str(case['max_reps'])]
    for b in case['bounds']:
        toks += [hx(b[0]), hx(b[1])]
    toks += [hx(v) for v in case['init']]
    toks.append(str(len(impl_results)))
    for ini, r in zip(impl_calls, impl_results):
        if r[0] == 'E':
            toks += ['E', r[1]]
        else:
            toks += ['R'] + [hx(v) for v in ini] + [hx(v) for v in r[1]] + [hx(r[2]), '1' if r[3] else '0', '1' if r[4] else '0']
    toks.append(str(len(draws)))
    for u in draws:
        toks += [hx(v) for v in u]
    toks.append(str(len(reevals)))
    for r in reevals:
        if r[0] == 'E':
            toks += ['E', r[1]]
        else:
            toks += ['R'] + [hx(v) for v in r[1]] + [hx(r[2])]
    return ' '.join(toks)


def make_impl(case):
    E = env()
    name = case['impl']
    if name == 'lbfgs':
        return E['RecLBFGS'](cfg=E['cfg'])
    if name.startswith('scipy:'):
        return E['RecScipy'](cfg=E['cfg'], method=name.split(':', 1)[1])
    if name == 'iminuit':
        return E['RecMinuit'](cfg=E['cfg'])
    if name == 'scripted':
        return E['recording'](E['ScriptedImpl'])(case['script'], cfg=E['cfg'])
    raise ValueError(name)


def run_wrap_case(ctx, case, lines, checks):
    """Minimizer.minimize around an oracle implementation, driven directly (observe_at: Minimizer.minimize)"""
    E = env()
    impl = make_impl(case)
    impl.reset()
    d = len(case['init'])
    ps = E['ParameterSet']([mk_param(f'p{i}' if i else 'ns', case['init'][i], case['bounds'][i][0], case['bounds'][i][1])
                            for i in range(d)])
    m = E['mz'].Minimizer(impl, max_repetitions=case['max_reps'])
    rss = E['RSSStub'](case.get('seed', 1))
    reevals = []

    def func(x, *a):
        """-log Lambda and its gradient as numpy float64 (like LLHRatio.maximize's function); calls that do not come
        from the implementation are the wrapper's re-evaluation after clipping"""
        x = np.asarray(x, dtype=np.float64)
        try:
            if case.get('objective') == 'raise':
                raise RuntimeError('objective')
            p2 = float(x[1]) if d > 1 and case.get('R1') is not None else None
            f = np.float64(-ll_exact(case, float(x[0]), p2))
            g = np.zeros((d,), dtype=np.float64)
            g[0] = -grad_exact(case, float(x[0]), p2)
        except Exception as ex:
            if impl.active == 0:
                reevals.append(('E', exc_kind(ex)))
            raise
        if impl.active == 0:
            reevals.append(('R', x.copy(), float(f)))
        return (f, g)
    func_top = func
    kw = dict(case.get('impl_kwargs') or {})
    with warnings.catch_warnings(), np.errstate(all='ignore'):
        warnings.simplefilter('ignore')
        try:
            (x, f, st) = m.minimize(rss, ps, func_top, kwargs=dict(kw))
            got = ['Ok', hx(f), [hx(v) for v in x], int(st['skyllh_minimizer_n_reps'])]
            res = (x, float(f), st)
        except Exception as ex:
            got = ['Err', exc_kind(ex)]
            res = None
    # the wrapper unpacks `(fmin, grads) = func(...)`: a scalar objective makes the re-evaluation raise TypeError
    lines.append(wrap_line(case, impl.impl_calls, impl.impl_results, rss.draws, reevals))
    checks.append(('wrap', case, got))
    ctx.count('wrap:' + case['impl'])
    ctx.count('wrap-reps:%d' % (len(impl.impl_results) - 1))
    if reevals:
        ctx.count('wrap-clipped')
    last = impl.impl_results[-1] if impl.impl_results else None
    site = f'Minimizer.minimize[{case["impl"]}]'
    if res is not None:
        ctx.count('wrap-returned')
        if last is None or last[0] != 'R' or not last[3]:
            ctx.violation(site, 'silent-non-convergence', 'a result was returned although the last run did not converge',
                          case=dict(case), impl=got, predicate='not converged => exception')
        oracle_convergence(ctx, site, case, res[0], res[2], got)
        inb = all((b[0] <= float(v) <= b[1]) for v, b in zip(res[0], case['bounds']))
        if not inb:
            ctx.violation(site, 'optimum-out-of-bounds', f'reported optimum {list(map(float, res[0]))}', case=dict(case),
                          impl=got, predicate='lo <= xmin <= hi')
        elif case.get('objective') is None and case['impl'] != 'scripted':
            p2 = float(res[0][1]) if d > 1 and case.get('R1') is not None else None
            want = -ll_exact(case, float(res[0][0]), p2)
            scale = abs(want) + sum(abs(math.log1p(max(float(res[0][0]) * xi, ALPHA))) for xi in Xi_of(case, p2)) + 1.0
            if not abs(res[1] - want) <= 1e-9 * scale:
                ctx.violation(site, 'value-not-at-optimum', f'fmin {res[1]!r} but func(xmin) = {want!r}', case=dict(case),
                              impl=got, predicate='fmin == func(xmin)')
            ini = float(case['init'][0])
            lo, hi = case['bounds'][0]
            if lo <= ini <= hi and d == 1 and len(impl.impl_results) == 1:
                g = grad_exact(case, float(res[0][0]))
                if not -want >= ll_exact(case, ini) - abs(g) * abs(ini - float(res[0][0])) - 1e-9 * scale:
                    ctx.violation(site, 'below-initial-value', 'maximised value below the value at the initial point',
                                  case=dict(case), impl=got, predicate='logL(x_ret) >= logL(x_init) - |slope| |dx|')
    else:
        ctx.count('wrap-raised:' + got[1])
        if (case['impl'] in ('lbfgs', 'scipy:SLSQP', 'scipy:TNC', 'scipy:L-BFGS-B') and case.get('valid', True)
                and case.get('kind') not in (None, 'flat') and last is not None and last[0] == 'E'):
            ctx.violation(site, 'implementation-raises-' + last[1], 'the implementation raised on a concave landscape',
                          case=dict(case), impl=got, predicate='a concave landscape is maximised')


def ll_np(case, ns, p2=None):
    """the objective handed to the oracle implementations: plain numpy reading (no Taylor continuation needed on the
    generated domains; falls back to the exact reading otherwise)"""
    return ll_exact(case, ns, p2)


def gen_wrap_case(ctx, rng, impl_name):
    land = gen_landscape(ctx, rng, rng.choice(['interior', 'lower', 'upper', 'flat', 'interior']))
    lo, hi, init, where, iw = gen_bounds_init(ctx, rng, land)
    case = dict(land)
    case.update({'impl': impl_name, 'bounds': [[lo, hi]], 'init': [init], 'where': where, 'max_reps': rng.choice([100, 3, 0]),
                 'seed': rng.randrange(1 << 30), 'valid': True})
    return case


def gen_scripted_case(ctx, rng):
    """scripted implementation: sequences of non-converged/repeatable runs, out-of-bounds results, exceptions"""
    d = rng.choice([1, 1, 2, 3])
    bounds = []
    for _ in range(d):
        lo = rng.choice([0.0, -1.0, 2.5])
        bounds.append([lo, lo + rng.choice([1.0, 10.0, 0.5])])
    init = [rng.choice([b[0], b[1], 0.5 * (b[0] + b[1])]) for b in bounds]
    max_reps = rng.choice([0, 1, 2, 3, 5])
    n = rng.randint(1, 7)
    script = []
    for k in range(n):
        r = rng.random()
        if r < 0.07:
            script.append(('E', rng.choice(['ValueError', 'RuntimeError'])))
            continue
        x = []
        for b in bounds:
            q = rng.random()
            if q < 0.6:
                x.append(b[0] + rng.random() * (b[1] - b[0]))
            elif q < 0.7:
                x.append(b[0])
            elif q < 0.8:
                x.append(b[1])
            elif q < 0.9:
                x.append(b[0] - rng.choice([1e-12, 1e-3, 1.0]))
            else:
                x.append(b[1] + rng.choice([1e-12, 1e-3, 1.0]))
        last = (k == n - 1)
        if d >= 2 and rng.random() < 0.2:
            # lower and upper violation in the same vector
            x[0] = bounds[0][0] - rng.choice([1e-12, 1e-3, 1.0])
            x[1] = bounds[1][1] + rng.choice([1e-12, 1e-3, 1.0])
            ctx.count('scripted-both-violations')
        conv = rng.random() < (0.6 if last else 0.25)
        rep = rng.random() < 0.8
        script.append(('R', x, rng.uniform(-5, 5), conv, rep))
    land = gen_landscape(ctx, rng, 'interior')
    case = dict(land)
    case.update({'impl': 'scripted', 'bounds': bounds, 'init': init, 'max_reps': max_reps, 'script': script,
                 'seed': rng.randrange(1 << 30), 'valid': True,
                 'objective': rng.choice([None, None, None, 'raise'])})
    ctx.count('scripted-dim:%d' % d)
    return case


# ------------------------------------------------------------------ corpus (inputs of the repaired defects)
def corpus_cases():
    flat = {'kind': 'flat', 'R0': [1.0] * 20, 'N': 20, 'impl': 'nr1d', 'bounds': [[0.0, 10.0]], 'init': [1.0],
            'where': 'flat', 'ns_tol': 1e-3, 'max_steps': 100, 'max_reps': 100, 'valid': True}
    flat2 = dict(flat, R0=[1.0], N=1, bounds=[[0.0, 1.0]], init=[0.0])
    lb = {'kind': 'interior', 'R0': [3.0, 0.5, 8.0, 1.5, 0.2], 'N': 30, 'impl': 'lbfgs', 'bounds': [[0.0, 20.0]],
          'init': [1.0], 'where': 'interior', 'max_reps': 100, 'seed': 7, 'valid': True}
    out = [('nr', flat), ('nr', flat2), ('wrap', lb)]
    # audit: deterministic cases (detection must not depend on VERIF_SEED)
    R0 = [6.0, 0.5, 9.0, 1.5, 0.2, 4.0, 0.8, 12.0]
    base = {'kind': 'interior', 'R0': R0, 'N': 40, 'bounds': [[0.0, 30.0]], 'init': [0.5], 'where': 'interior',
            'max_reps': 100, 'seed': 5, 'valid': True}
    # (a) implementations stopped after one iteration: the raw status says failure, the wrapper must raise
    out.append(('wrap', dict(base, impl='lbfgs', impl_kwargs={'maxiter': 1})))
    for m in ('L-BFGS-B', 'SLSQP', 'TNC', 'Nelder-Mead'):
        out.append(('wrap', dict(base, impl='scipy:' + m, impl_kwargs={'options': {'maxiter': 1}})))
    # (b) the generic LLHRatio.maximize path with every oracle implementation
    for name in ('lbfgs', 'scipy:L-BFGS-B', 'scipy:SLSQP', 'scipy:TNC', 'iminuit'):
        out.append(('gen', dict(base, impl=name)))
        out.append(('gen', dict(base, impl=name, bounds=[[0.0, 2.0]], where='upper')))
        out.append(('gen', dict(base, impl=name, R0=[0.3, 0.5, 0.9], N=40, where='lower')))
    # (c) ns is not the first global floating parameter
    lay = {'kind': 'interior', 'R0': [3.0, 0.5, 8.0, 1.5, 0.2], 'R1': [0.3, 0.0, 0.5, 0.1, 0.0], 'N': 30,
           'bounds': [[0.0, 1.0], [0.0, 20.0]], 'init': [0.5, 1.0], 'p2_step': 0.5, 'valid': True}
    out.append(('layout', dict(lay, impl='nr1d')))
    out.append(('layout', dict(lay, impl='nrscan2d')))
    # (d) NR + scan with a NaN function value (finite derivatives) at the first / a middle / the last / all scan values
    raw = {'kind': 'raw', 'impl': 'nrscan2d-raw', 'center': 3.0, 'bounds': [[0.0, 10.0], [0.0, 1.0]], 'init': [1.0, 0.5],
           'p2_step': 0.25, 'ns_tol': 1e-3, 'max_steps': 100, 'N': 1, 'R0': [1.0], 'valid': True}
    for nan_at in ([0.0], [0.5], [1.0], [0.0, 0.25], [0.0, 0.25, 0.5, 0.75, 1.0], []):
        out.append(('scanraw', dict(raw, nan_at=nan_at)))
    out.append(('scanraw', dict(raw, nan_at=[0.0], center=-2.0)))
    # round 4 (C11-8): the objective is NaN with finite derivatives AT the upper bound and the fit is forced onto it
    # (overshooting step clipped to the bound / initial value on the bound): (x=[hi], f=nan, warnflag=-1) must not be returned
    nrraw = {'kind': 'raw', 'impl': 'nr1d-raw', 'center': 15.0, 'nan_from': 10.0, 'bounds': [[0.0, 10.0]], 'ns_tol': 1e-3,
             'max_steps': 100, 'N': 1, 'R0': [1.0], 'valid': True}
    out.append(('nrraw', dict(nrraw, init=[1.0])))
    out.append(('nrraw', dict(nrraw, init=[10.0])))
    out.append(('nrraw', dict(nrraw, init=[9.999])))
    out.append(('scanraw', dict(raw, nan_at=[], nan_from=10.0, center=15.0)))
    out.append(('scanraw', dict(raw, nan_at=[], nan_from=10.0, center=15.0, init=[10.0, 0.5])))
    # the same through the real class: log Lambda is NaN (finite derivatives) for ns >= N when N = N'; all S/B = 50
    out.append(('nr', {'kind': 'upper', 'R0': [50.0] * 6, 'N': 6, 'impl': 'nr1d', 'bounds': [[0.0, 9.0]], 'init': [1.0],
                       'where': 'upper', 'ns_tol': 1e-3, 'max_steps': 100, 'max_reps': 100, 'valid': True}))
    out.append(('nr', {'kind': 'upper', 'R0': [50.0] * 6, 'N': 6, 'impl': 'nr1d', 'bounds': [[0.0, 9.0]], 'init': [9.0],
                       'where': 'upper', 'ns_tol': 1e-3, 'max_steps': 100, 'max_reps': 100, 'valid': True}))
    # round 4 (C11-7): NR through a real MultiDatasetTCLLHRatio with an interior optimum: 3..6 comparable data sets,
    # two very unequal ones, two tolerances
    import random as _random
    r4 = _random.Random(4)
    for (a, tol) in (([1.0, 1.0, 1.0], 1e-3), ([1.0] * 4, 1e-3), ([1.0] * 5, 1e-2), ([1.0] * 6, 1e-3), ([1.0, 9.0], 1e-3),
                     ([1.0, 2.0, 3.0, 4.0], 1e-3), ([1.0], 1e-3), ([1.0, 1.0], 1e-3)):
        ds = multi_datasets(r4, len(a))
        hi = 0.85 * min(d['N'] for d in ds) / (max(a) / sum(a))
        out.append(('multi', {'kind': 'multi', 'impl': 'nr1d-multi', 'datasets': ds, 'a': a, 'R0': ds[0]['R0'], 'N': ds[0]['N'],
                              'bounds': [[0.0, hi]], 'init': [1.0], 'ns_tol': tol, 'max_steps': 100, 'max_reps': 100,
                              'valid': True}))
    return out


# ------------------------------------------------------------------ run
WRAP_IMPLS = ['lbfgs', 'lbfgs', 'scipy:L-BFGS-B', 'scipy:SLSQP', 'scipy:TNC', 'scipy:COBYLA', 'scipy:Nelder-Mead', 'iminuit']


def run_cases(ctx, cases):
    lines, checks = [], []
    for (k, c) in cases:
        ctx.case({kk: c[kk] for kk in c if kk != 'valid'})
        if k == 'nr':
            run_nr_case(ctx, c, lines, checks)
        elif k == 'scan':
            run_scan_case(ctx, c, lines, checks)
        elif k == 'gen':
            run_gen_case(ctx, c, lines, checks)
        elif k == 'layout':
            run_layout_case(ctx, c, lines, checks)
        elif k == 'scanraw':
            run_scanraw_case(ctx, c, lines, checks)
        elif k == 'nrraw':
            run_nrraw_case(ctx, c, lines, checks)
        elif k == 'multi':
            run_multi_case(ctx, c, lines, checks)
        else:
            run_wrap_case(ctx, c, lines, checks)
    return lines, checks


def run(ctx):
    rng = ctx.rng
    E = env()
    cases = list(corpus_cases())
    n_nr = ctx.budget(400, 12000)
    n_scan = ctx.budget(60, 1500)
    n_wrap = ctx.budget(160, 4000)
    n_scr = ctx.budget(300, 10000)
    for kind in ['interior', 'lower', 'upper', 'flat', 'steep']:
        for _ in range(ctx.budget(6, 60)):
            cases.append(('nr', gen_nr_case(ctx, rng, kind)))
    for _ in range(n_nr):
        cases.append(('nr', gen_nr_case(ctx, rng)))
    for _ in range(ctx.budget(60, 1500)):
        cases.append(('nr', gen_nr_malformed(ctx, rng)))
    for b in ['interior', 'upper', 'lower', 'linear']:
        for _ in range(ctx.budget(8, 60)):
            cases.append(('scan', gen_scan_case(ctx, rng, b)))
    for _ in range(n_scan):
        cases.append(('scan', gen_scan_case(ctx, rng)))
    impls = [i for i in WRAP_IMPLS if not (i == 'iminuit' and E['RecMinuit'] is None)]
    for i in range(n_wrap):
        c = gen_wrap_case(ctx, rng, impls[i % len(impls)])
        cases.append(('gen' if (i // len(impls)) % 2 == 0 and c['impl'] not in ('scipy:COBYLA', 'scipy:Nelder-Mead')
                      else 'wrap', c))
    for _ in range(n_scr):
        cases.append(('wrap', gen_scripted_case(ctx, rng)))
    for _ in range(ctx.budget(20, 400)):
        cases.append(('multi', gen_multi_case(ctx, rng)))
    functor_probes(ctx)
    lines, checks = run_cases(ctx, cases)
    for (k, c) in cases[3:6]:
        ctx.sample({'impl': c['impl'], 'kind': c.get('kind'), 'N': c['N'], 'n_selected': len(c['R0']),
                    'bounds': c['bounds'], 'init': c['init']})
    exe = common.ocaml_build(ctx, 'c11') if ctx.model_ok else None
    if exe:
        try:
            outs = common.ocaml_run(exe, lines)
            if len(outs) != len(lines):
                raise RuntimeError(f'{len(outs)} results for {len(lines)} cases')
            compare(ctx, checks, outs)
        except RuntimeError as ex:
            ctx.broken.append({'kind': 'model-eval', 'error': str(ex)[:1500]})
    else:
        ctx.notes.append('model did not build: implementation-only predicates were evaluated')


def replay(ctx, rp):
    c = rp.get('case') or {}
    if not c or 'impl' not in c:
        ctx.notes.append('replay file has no concrete input (broken obligation): re-running the full check')
        return run(ctx)
    c = dict(c)
    c.setdefault('valid', True)
    if 'script' in c:
        c['script'] = [tuple(s) for s in c['script']]
    k = {'nr1d': 'nr', 'nrscan2d': 'scan', 'nrscan2d-raw': 'scanraw', 'nr1d-raw': 'nrraw', 'nr1d-multi': 'multi'}.get(c['impl'], 'wrap')
    if c['impl'] == 'iminuit-functor':
        return functor_probes(ctx)
    if c.get('kind') != 'raw' and len(c.get('bounds', [])) == 2 and c['bounds'][0][1] <= 1.0 and 'p2s' not in c and c.get('impl') in ('nr1d', 'nrscan2d') and 'where' not in c and 'ns_tol' not in c:
        k = 'layout'
    c.setdefault('ns_tol', 1e-3)
    c.setdefault('max_steps', 100)
    c.setdefault('max_reps', 100)
    lines, checks = run_cases(ctx, [(k, c)])
    exe = common.ocaml_build(ctx, 'c11') if ctx.model_ok else None
    if exe:
        compare(ctx, checks, common.ocaml_run(exe, lines))
