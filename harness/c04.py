"""C04 — all views of the global parameter set agree after any sequence of edits.

Correspondence: the real skyllh Parameter / ParameterSet / ParameterModelMapper
objects against coq/model/M_Params.v (vm_compute) on operation sequences over
{new set, add front/back, map_param to model subsets with/without aliases,
make_params_fixed, make_params_floating, union, copy, value setter}; after every
step ALL views (raw caches, every accessor, value dictionaries, the per-source
record array, the per-model dictionaries, object sharing) are read from the real
objects and compared exactly with the model.

Predicates (failing-input search): an independent reference of the parameter
table (plain Python lists of entries, written from the docstrings, not from the
model) is driven through the same operations; every view of the implementation
is compared with the brute-force reading of that table, and the rejections the
property names are checked."""
import copy as _copy
import itertools
import json
import math
import os
import re

import numpy as np

from harness import common

GEN_MODULES = ['params']
MODEL_TARGETS = ['model/M_Params.vo']
PROOF_TARGETS = ['proofs/P_Params.vo', 'proofs/P_ParamsMap.vo']
LEVEL = 'proof'
RULE = ('operation sequences over {ParameterSet(), add_param front/back, map_param to model subsets with None / str / '
        'sequence aliases (incl. duplicate aliases, duplicate global names, wrong-length alias sequences, foreign and '
        'empty model lists), make_params_fixed (value / None / outside the bounds / already fixed / unknown name), '
        'make_params_floating (None / initial / triple; missing bounds, initial outside the bounds, already floating), '
        'union, copy, value setter (inside / on / outside the bounds, fixed same / changed)} on <= 4 parameter names, '
        '1..4 models with source and non-source models in every order; a case is one operation sequence (prefix) and is '
        'non-trivial when it has >= 1 operation; distinct by (model layout, sequence) hash')
TRUSTED = [
    'Coq 8.16.1 kernel incl. vm_compute (no native_compute)',
    'theorems closed under the global context (no axioms)',
    'translator/py2coq.py: reading of the comparisons / index expressions of parameters.py (kernels of G_params.v), '
    'incl. the extension func#k (k-th definition of a name, used for the value setter)',
    'hand model M_Params.v of the control flow, numpy array plumbing (boolean indexing, concatenate, hstack, '
    'np.where broadcasting, np.unique, cumsum, argwhere), Python dict / list semantics and object identity '
    '(store of Parameter objects), validated on every run by this correspondence',
    'names and values modelled as integers (names: equality and order only; values: small integers, exact in float64); '
    'NaN / inf values and non-numeric arguments are outside the model',
    'deepcopy modelled as: fresh Parameter objects in order, caches copied literally',
    'the independent reference table of the predicate (harness/c04.py: class Ref)',
]

IMPORTS = ('From Coq Require Import ZArith List. Import ListNotations. Open Scope Z_scope.\n'
           'From Sky Require Import Result PyList M_Params.\n')

PROBE = [0, 1, 2, 3, 4, 5, 6, 7]          # names used as probes for lookups (global and local names)
ERRS = {'ValueError', 'KeyError', 'TypeError', 'IndexError'}


def nm(k):
    return f'n{int(k):02d}'


def unnm(s):
    return int(str(s)[1:])


def fz(x):
    """float -> exact integer of the model (None for NaN)"""
    x = float(x)
    if math.isnan(x):
        return None
    assert x == int(x), x
    return int(x)


def opt(x):
    return 'None' if x is None else ('Some', int(x))


# ------------------------------------------------------------------ operations -> Gallina
def c_z(n):
    n = int(n)
    return f'({n})' if n < 0 else str(n)


def c_optz(x):
    return 'None' if x is None else f'(Some {c_z(x)})'


def c_list(xs, f=c_z):
    return '[' + '; '.join(f(x) for x in xs) + ']'


def c_bool(b):
    return 'true' if b else 'false'


def c_decl(d):
    name, init, lo, hi, fx = d
    fxs = 'None' if fx is None else f'(Some {c_bool(fx)})'
    return f'(mkDecl {c_z(name)} {c_z(init)} {c_optz(lo)} {c_optz(hi)} {fxs})'


def c_ref(r):
    return 'GP' if r == 'G' else f'(St {int(r)})'


def c_fentry(e):
    if e is None:
        return 'FNone'
    if e[0] == 'i':
        return f'(FInit {c_z(e[1])})'
    return f'(FTriple {c_optz(e[1])} {c_optz(e[2])} {c_optz(e[3])})'


def c_op(op):
    k = op[0]
    if k == 'new':
        return 'ONewSet'
    if k == 'add':
        return f'(OAdd {int(op[1])} {c_bool(op[2])} {c_decl(op[3])})'
    if k == 'map':
        models = 'None' if op[2] is None else f'(Some {c_list(op[2])})'
        al = op[3]
        als = 'ANone' if al is None else (f'(AStr {c_z(al[1])})' if al[0] == 's' else f'(ASeq {c_list(al[1])})')
        return f'(OMap {c_decl(op[1])} {models} {als})'
    if k == 'fix':
        return f'(OFix {c_ref(op[1])} ' + c_list(op[2], lambda kv: f'({c_z(kv[0])}, {c_optz(kv[1])})') + ')'
    if k == 'float':
        return f'(OFloat {c_ref(op[1])} ' + c_list(op[2], lambda kv: f'({c_z(kv[0])}, {c_fentry(kv[1])})') + ')'
    if k == 'union':
        return f'(OUnion {c_list(op[1], c_ref)})'
    if k == 'copy':
        return f'(OCopy {c_ref(op[1])})'
    if k == 'setv':
        return f'(OSetValue {c_ref(op[1])} {c_z(op[2])} {c_z(op[3])})'
    raise ValueError(op)


def tup(x):
    """JSON round trip turns tuples into lists: normalise an operation"""
    if isinstance(x, list):
        return [tup(y) for y in x]
    if isinstance(x, tuple):
        return tuple(tup(y) for y in x)
    return x


def norm_op(op):
    op = list(op)
    k = op[0]
    if k == 'add':
        op[3] = tuple(op[3])
    elif k == 'map':
        op[1] = tuple(op[1])
        op[2] = None if op[2] is None else list(op[2])
        op[3] = None if op[3] is None else (op[3][0], op[3][1] if op[3][0] == 's' else list(op[3][1]))
    elif k == 'fix':
        op[2] = [(a, b) for a, b in op[2]]
    elif k == 'float':
        op[2] = [(a, None if b is None else tuple(b)) for a, b in op[2]]
    elif k == 'union':
        op[1] = list(op[1])
    return tuple(op)


# ------------------------------------------------------------------ the implementation
class PyWorld:
    """the real objects: one ParameterModelMapper and a list of ParameterSets"""

    def __init__(self, src):
        from skyllh.core.model import Model
        from skyllh.core.source_model import SourceModel
        from skyllh.core.parameters import ParameterModelMapper
        self.src = list(src)
        self.models = [SourceModel(f'm{i}') if f else Model(f'm{i}') for i, f in enumerate(src)]
        self.pmm = ParameterModelMapper(self.models)
        self.sets = []
        self.label = {}        # id(Parameter) -> allocation number (= location of the model)
        self.keep = []         # keeps every labelled object alive so that ids stay unique

    def get(self, r):
        return self.pmm.global_paramset if r == 'G' else self.sets[r]

    def all_sets(self):
        return [self.pmm.global_paramset] + self.sets

    def _alloc(self, p):
        self.label[id(p)] = len(self.keep)
        self.keep.append(p)

    def _mk(self, d):
        from skyllh.core.parameters import Parameter
        name, init, lo, hi, fx = d
        return Parameter(nm(name), float(init), None if lo is None else float(lo),
                         None if hi is None else float(hi), fx)

    def _model_objs(self, idxs):
        from skyllh.core.model import Model
        out = []
        for i in idxs:
            if 0 <= i < len(self.models):
                out.append(self.models[i])
            else:
                out.append(Model(f'foreign{i}'))
        return out

    def apply(self, op):
        """returns the name of the raised exception or None"""
        from skyllh.core.parameters import ParameterSet
        k = op[0]
        try:
            if k == 'new':
                self.sets.append(ParameterSet())
            elif k == 'add':
                s = self.sets[op[1]]
                p = self._mk(op[3])
                s.add_param(p, atfront=op[2])
                self._alloc(p)
            elif k == 'map':
                p = self._mk(op[1])
                models = None if op[2] is None else self._model_objs(op[2])
                al = op[3]
                names = None if al is None else (nm(al[1]) if al[0] == 's' else [nm(a) for a in al[1]])
                self.pmm.map_param(p, models=models, model_param_names=names)
                self._alloc(p)
            elif k == 'fix':
                self.get(op[1]).make_params_fixed({nm(n): (None if v is None else float(v)) for n, v in op[2]})
            elif k == 'float':
                req = {}
                for n, e in op[2]:
                    if e is None:
                        req[nm(n)] = None
                    elif e[0] == 'i':
                        req[nm(n)] = float(e[1])
                    else:
                        req[nm(n)] = tuple(None if x is None else float(x) for x in e[1:])
                self.get(op[1]).make_params_floating(req)
            elif k == 'union':
                srcs = [self.get(r) for r in op[1]]
                u = ParameterSet.union(*srcs)
                for p in u.params:
                    if id(p) not in self.label:
                        self._alloc(p)
                self.sets.append(u)
            elif k == 'copy':
                c = self.get(op[1]).copy()
                for p in c.params:
                    self._alloc(p)
                self.sets.append(c)
            elif k == 'setv':
                self.get(op[1]).params[op[2]].value = float(op[3])
            else:
                raise AssertionError(op)
        except Exception as ex:     # noqa: BLE001 - the kind of exception is the observation
            return type(ex).__name__
        return None


def _res(f):
    try:
        return ('Ok', f())
    except Exception as ex:     # noqa: BLE001
        return ('Err', type(ex).__name__)


def items(d):
    return [(unnm(k), fz(v)) for k, v in d.items()]


def obs_set(w, s):
    vec = np.array([100.0 + i for i in range(s.n_floating_params)])
    locs = [w.label.get(id(p), -1) for p in s.params]
    params = [(unnm(p.name), fz(p.initial), bool(p.isfixed), opt(None if p.valmin is None else fz(p.valmin)),
               opt(None if p.valmax is None else fz(p.valmax)), fz(p.value)) for p in s.params]
    g2 = (2, [bool(b) for b in s.fixed_params_mask], [unnm(n) for n in s.fixed_params_name_list],
          [unnm(n) for n in s.floating_params_name_list],
          [(unnm(k), int(v)) for k, v in s._fixed_param_name_to_idx.items()],
          [(unnm(k), int(v)) for k, v in s._floating_param_name_to_idx.items()],
          [fz(v) for v in s.fixed_param_values])
    g3 = (3, [unnm(n) for n in s.params_name_list], [int(i) for i in s.fixed_params_idxs],
          [int(i) for i in s.floating_params_idxs],
          _res(lambda: [fz(v) for v in s.floating_param_initials]),
          _res(lambda: [(opt(fz(a)), opt(fz(b))) for a, b in s.floating_param_bounds]))
    g4 = (4, items(s.get_params_dict(vec)), items(s.get_floating_params_dict(vec)), items(s.get_params_dict(vec[1:])))
    return (1, locs, ('Ok', params), g2, g3, g4)


def rec_canon(rec):
    names = [n for n in rec.dtype.names if n != ':model_idx' and not n.endswith(':gpidx')]
    rows = []
    for i in range(len(rec)):
        rows.append((int(rec[':model_idx'][i]),
                     [(opt(fz(rec[n][i])), int(rec[n + ':gpidx'][i])) for n in names]))
    return ([unnm(n) for n in names], rows)


def obs_map(w):
    pmm = w.pmm
    g = pmm.global_paramset
    vec = np.array([100.0 + i for i in range(g.n_floating_params)])
    vec1 = np.concatenate(([0.0], vec))
    srcs = [int(i) for i in pmm.get_src_model_idxs()]
    ev = srcs[::2]
    ev_objs = [w.models[i] for i in ev]
    matrix = [[('None' if a is None else ('Some', unnm(a))) for a in row] for row in pmm._model_param_names]
    g6 = (6, matrix, srcs, [int(i) for i in pmm.get_src_model_idxs(sources=ev_objs)],
          _res(lambda: [unnm(n) for n in pmm.unique_source_param_names]))
    g7 = (7, _res(lambda: rec_canon(pmm.create_src_params_recarray(vec))),
          _res(lambda: rec_canon(pmm.create_src_params_recarray(vec, sources=ev_objs))),
          _res(lambda: rec_canon(pmm.create_src_params_recarray(vec, sources=np.array(srcs[::-1], dtype=np.int32)))),
          _res(lambda: rec_canon(pmm.create_src_params_recarray(vec1))))
    n = len(w.models)
    g8 = (8, [_res(lambda m=m: items(pmm.create_model_params_dict(vec, m))) for m in list(range(n)) + [n, -1]],
          _res(lambda: items(pmm.create_model_params_dict(vec1, 0))))
    g9 = (9, [bool(b) for b in pmm.get_local_param_is_global_floating_param_mask([nm(k) for k in PROBE])],
          [_res(lambda k=k: int(pmm.get_gflp_idx(nm(k)))) for k in PROBE])
    return (5, g6, g7, g8, g9)


def observe(w):
    return (10, obs_map(w), obs_set(w, w.pmm.global_paramset), [obs_set(w, s) for s in w.sets])


def flat(x, out):
    """flatten an observation to the token stream of Coq's printed value without parentheses and separators"""
    if isinstance(x, bool):
        out.append('true' if x else 'false')
    elif isinstance(x, int):
        out.append(str(x))
    elif isinstance(x, str):
        out.append(x)
    elif isinstance(x, list):
        out.append('[')
        for y in x:
            flat(y, out)
        out.append(']')
    elif isinstance(x, tuple):
        for y in x:
            flat(y, out)
    elif x is None:
        out.append('None')
    else:
        raise TypeError(type(x))
    return out


_TOK = re.compile(r'\[|\]|-?\d+|[A-Za-z_][A-Za-z0-9_\']*')


def coq_tokens(text):
    return _TOK.findall(text.replace('%nat', '').replace('%Z', ''))


def coq_eval_raw(name, exprs, timeout=900, per_file=150):
    """like common.coq_eval but returns the printed text of each value"""
    import concurrent.futures
    os.makedirs(os.path.join(common.BUILD, 'cases'), exist_ok=True)
    chunks = [exprs[i:i + per_file] for i in range(0, len(exprs), per_file)]
    files = []
    for ci, ch in enumerate(chunks):
        p = os.path.join(common.BUILD, 'cases', f'{name}_{os.getpid()}_{ci}.v')
        with open(p, 'w') as f:
            f.write(IMPORTS + '\nSet Printing Width 1000000.\nSet Printing Depth 10000000.\n')
            for e in ch:
                f.write(f'Eval vm_compute in ({e}).\n')
        files.append(p)

    def one(p):
        rc, out, err = common.sh(['timeout', str(timeout), 'coqc', '-Q', common.COQ, 'Sky', p], timeout=timeout + 30)
        for ext in ('.vo', '.vok', '.vos', '.glob'):
            q = p[:-2] + ext
            if os.path.exists(q):
                os.remove(q)
        aux = os.path.join(os.path.dirname(p), '.' + os.path.basename(p)[:-2] + '.aux')
        if os.path.exists(aux):
            os.remove(aux)
        if rc != 0:
            raise RuntimeError(f'coqc failed on {p}: {(out + err)[-1500:]}')
        os.remove(p)
        vals = []
        for blk in re.split(r'^\s*= ', out, flags=re.M)[1:]:
            vals.append(blk.rsplit('\n     : ', 1)[0])
        return vals

    with concurrent.futures.ThreadPoolExecutor(max_workers=8) as ex:
        res = list(ex.map(one, files))
    out = [v for r in res for v in r]
    if len(out) != len(exprs):
        raise RuntimeError(f'coq_eval_raw: {len(out)} values for {len(exprs)} expressions')
    return out
