"""C04 — all views of the global parameter set agree after any sequence of edits.

Correspondence: the real skyllh Parameter / ParameterSet / ParameterModelMapper
objects against coq/model/M_Params.v (vm_compute) on operation sequences over
{new set, add front/back, map_param to model subsets with/without aliases,
make_params_fixed, make_params_floating, union, copy, value setter}; after every
step ALL views (raw caches, every accessor, value dictionaries, the per-source
record array, the per-model dictionaries, object sharing) are read from the real
objects and compared exactly with the model.

Predicates (failing-input search): an independent reference of the parameter
table (plain Python lists of entries, written from the docstrings, not from the
model) is driven through the same operations; every view of the implementation
is compared with the brute-force reading of that table, and the rejections the
property names are checked."""
import copy as _copy
import itertools
import json
import math
import os
import re

import numpy as np

from harness import common

GEN_MODULES = ['params']
MODEL_TARGETS = ['model/M_Params.vo']
PROOF_TARGETS = ['proofs/P_Params.vo', 'proofs/P_ParamsViews.vo', 'proofs/P_ParamsWorld.vo', 'proofs/P_ParamsMap.vo', 'proofs/P_ParamsRec.vo', 'proofs/P_ParamsArgs.vo', 'proofs/P_ParamsRefine.vo', 'proofs/P_ParamsE2E.vo', 'proofs/P_ParamsX.vo']
LEVEL = 'proof'
RULE = ('operation sequences over {ParameterSet(), add_param front/back, map_param to model subsets with None / str / '
        'sequence aliases (incl. duplicate aliases, duplicate global names, wrong-length alias sequences, foreign and '
        'empty model lists), make_params_fixed (value / None / outside the bounds / already fixed / unknown name), '
        'make_params_floating (None / initial / triple; missing bounds, initial outside the bounds, already floating), '
        'union, copy, value setter (inside / on / outside the bounds, fixed same / changed)} on <= 4 parameter names, '
        '1..4 models with source and non-source models in every order; a case is one operation sequence (prefix) and is '
        'non-trivial when it has >= 1 operation; distinct by (model layout, sequence) hash')
TRUSTED = [
    'Coq 8.16.1 kernel incl. vm_compute (no native_compute)',
    'theorems closed under the global context (no axioms)',
    'translator/py2coq.py: reading of the comparisons / index expressions of parameters.py (kernels of G_params.v), '
    'incl. the extension func#k (k-th definition of a name, used for the value setter)',
    'hand model M_Params.v of the control flow, numpy array plumbing (boolean indexing, concatenate, hstack, '
    'np.where broadcasting, np.unique, cumsum, argwhere), Python dict / list semantics and object identity '
    '(store of Parameter objects), validated on every run by this correspondence',
    'names and values modelled as integers (names: equality and order only; values: the code sees k/8 — non-integers, '
    '0, -0.0, (2^27+1)/8 — exact in float64); NaN / inf and non-numeric arguments are outside the model (NaN: probes only)',
    'deepcopy modelled as: fresh Parameter objects in order, caches copied literally',
    'the independent reference table of the predicate (harness/c04.py: class Ref)',
]

IMPORTS = ('From Coq Require Import ZArith List. Import ListNotations. Open Scope Z_scope.\n'
           'From Sky Require Import Result PyList M_Params.\n')

PROBE = [0, 1, 2, 3, 4, 5, 6, 7]          # names used as probes for lookups (global and local names)
ERRS = {'ValueError', 'KeyError', 'TypeError', 'IndexError'}


def nm(k):
    return f'n{int(k):02d}'


def unnm(s):
    return int(str(s)[1:])


SCALE = 8                 # model integer = float * SCALE: the code sees non-integers (multiples of 1/8)
VEC0 = 2 ** 27 + 1        # value-vector entries VEC0 + 8 i = 16777216.125 + i: not representable in float32
BIG = 2 ** 27 + 1         # a float32-sensitive declared value / bound


def fz(x):
    """float -> exact integer of the model (None for NaN)"""
    x = float(x)
    if math.isnan(x):
        return None
    y = x * SCALE
    assert y == int(y), x
    return int(y)


def V(zs):
    """model integers -> the float64 vector handed to the code"""
    return np.array([z / SCALE for z in zs], dtype=np.float64)


def opt(x):
    return 'None' if x is None else ('Some', int(x))


# ------------------------------------------------------------------ operations -> Gallina
def c_z(n):
    n = int(n)
    return f'({n})' if n < 0 else str(n)


def c_optz(x):
    return 'None' if x is None else f'(Some {c_z(x)})'


def c_list(xs, f=c_z):
    return '[' + '; '.join(f(x) for x in xs) + ']'


def c_bool(b):
    return 'true' if b else 'false'


def c_decl(d):
    name, init, lo, hi, fx = d
    fxs = 'None' if fx is None else f'(Some {c_bool(fx)})'
    return f'(mkDecl {c_z(name)} {c_z(init)} {c_optz(lo)} {c_optz(hi)} {fxs})'


def c_ref(r):
    return 'GP' if r == 'G' else f'(St {int(r)})'


def c_fentry(e):
    if e is None:
        return 'FNone'
    if e[0] == 'i':
        return f'(FInit {c_z(e[1])})'
    return f'(FTriple {c_optz(e[1])} {c_optz(e[2])} {c_optz(e[3])})'


XOPS = ('addx', 'mapx', 'newfrom', 'chg', 'upd')


def c_xop(op):
    """an operation of the full alphabet as a Gallina `xop`"""
    k = op[0]
    if k == 'addx':
        return f'(XAddShared {int(op[1])} {c_bool(op[2])} {c_ref(op[3])} {c_z(op[4])})'
    if k == 'mapx':
        models = 'None' if op[3] is None else f'(Some {c_list(op[3])})'
        al = op[4]
        als = 'ANone' if al is None else (f'(AStr {c_z(al[1])})' if al[0] == 's' else f'(ASeq {c_list(al[1])})')
        return f'(XMapShared {c_ref(op[1])} {c_z(op[2])} {models} {als})'
    if k == 'newfrom':
        return f'(XNewFrom {c_ref(op[1])})'
    if k == 'chg':
        return f'(XChangeFixed {c_ref(op[1])} {c_z(op[2])} {c_z(op[3])})'
    if k == 'upd':
        return f'(XUpdateCache {c_ref(op[1])})'
    return f'(XBase {c_op(op)})'


def c_op(op):
    k = op[0]
    if k == 'new':
        return 'ONewSet'
    if k == 'add':
        return f'(OAdd {int(op[1])} {c_bool(op[2])} {c_decl(op[3])})'
    if k == 'map':
        models = 'None' if op[2] is None else f'(Some {c_list(op[2])})'
        al = op[3]
        als = 'ANone' if al is None else (f'(AStr {c_z(al[1])})' if al[0] == 's' else f'(ASeq {c_list(al[1])})')
        return f'(OMap {c_decl(op[1])} {models} {als})'
    # the request is a Python dict: a repeated key keeps its first position and its last value
    if k == 'fix':
        return f'(OFix {c_ref(op[1])} ' + c_list(list(dict(op[2]).items()), lambda kv: f'({c_z(kv[0])}, {c_optz(kv[1])})') + ')'
    if k == 'float':
        return f'(OFloat {c_ref(op[1])} ' + c_list(list(dict(op[2]).items()), lambda kv: f'({c_z(kv[0])}, {c_fentry(kv[1])})') + ')'
    if k == 'union':
        return f'(OUnion {c_list(op[1], c_ref)})'
    if k == 'copy':
        return f'(OCopy {c_ref(op[1])})'
    if k == 'setv':
        return f'(OSetValue {c_ref(op[1])} {c_z(op[2])} {c_z(op[3])})'
    raise ValueError(op)


def tup(x):
    """JSON round trip turns tuples into lists: normalise an operation"""
    if isinstance(x, list):
        return [tup(y) for y in x]
    if isinstance(x, tuple):
        return tuple(tup(y) for y in x)
    return x


def norm_op(op):
    op = list(op)
    k = op[0]
    if k == 'add':
        op[3] = tuple(op[3])
    elif k == 'map':
        op[1] = tuple(op[1])
        op[2] = None if op[2] is None else list(op[2])
        op[3] = None if op[3] is None else (op[3][0], op[3][1] if op[3][0] == 's' else list(op[3][1]))
    elif k == 'fix':
        op[2] = [(a, b) for a, b in op[2]]
    elif k == 'float':
        op[2] = [(a, None if b is None else tuple(b)) for a, b in op[2]]
    elif k == 'union':
        op[1] = list(op[1])
    elif k == 'mapx':
        op[3] = None if op[3] is None else list(op[3])
        op[4] = None if op[4] is None else (op[4][0], op[4][1] if op[4][0] == 's' else list(op[4][1]))
    return tuple(op)


# ------------------------------------------------------------------ the implementation
class PyWorld:
    """the real objects: one ParameterModelMapper and a list of ParameterSets"""

    def __init__(self, src, nz=False):
        from skyllh.core.model import Model
        from skyllh.core.source_model import SourceModel
        from skyllh.core.parameters import ParameterModelMapper
        self.src = list(src)
        self.nz = bool(nz)     # hand every zero to the implementation as -0.0 (the model's integer 0 either way)
        self.models = [SourceModel(f'm{i}') if f else Model(f'm{i}') for i, f in enumerate(src)]
        self.pmm = ParameterModelMapper(self.models)
        self.sets = []
        self.label = {}        # id(Parameter) -> allocation number (= location of the model)
        self.keep = []         # keeps every labelled object alive so that ids stay unique
        self.user_shared = set()   # id(Parameter) handed by the CALLER to a second owner (add_param(p), map_param(p), ...)
        self.taint = set()         # id(ParameterSet) holding a caller-shared object that was edited through another set
        self.dirty = set()         # id(ParameterSet) between change_fixed_value and update_fixed_param_value_cache (protocol)

    def get(self, r):
        return self.pmm.global_paramset if r == 'G' else self.sets[r]

    def all_sets(self):
        return [self.pmm.global_paramset] + self.sets

    def _f(self, v):
        if v is None:
            return None
        return -0.0 if (self.nz and v == 0) else v / SCALE

    def _alloc(self, p):
        self.label[id(p)] = len(self.keep)
        self.keep.append(p)

    def _mk(self, d):
        from skyllh.core.parameters import Parameter
        name, init, lo, hi, fx = d
        return Parameter(nm(name), self._f(init), self._f(lo), self._f(hi), fx)

    def _model_objs(self, idxs):
        from skyllh.core.model import Model
        out = []
        for i in idxs:
            if 0 <= i < len(self.models):
                out.append(self.models[i])
            else:
                out.append(Model(f'foreign{i}'))
        return out

    def _edited_through(self, s, rebuilt):
        """bookkeeping for the known finding: the caller-shared objects of s were (possibly) edited through s"""
        ids = {id(p) for p in s.params} & self.user_shared
        if ids:
            for t in self.all_sets():
                if t is not s and any(id(p) in ids for p in t.params):
                    self.taint.add(id(t))
        # (a later make_params_* through the stale owner does not repair it: the rebuild loop re-reads
        # isfixed of the objects for the name lists but leaves the mask of the unrequested ones alone)

    def apply(self, op):
        """returns the name of the raised exception or None"""
        k = op[0]
        err = self._apply(op)
        valid = len(op) > 1 and (op[1] == 'G' or (isinstance(op[1], int) and 0 <= op[1] < len(self.sets)))
        if k in ('fix', 'float') and valid:
            self._edited_through(self.get(op[1]), err is None)
        elif k == 'setv' and valid:
            self._edited_through(self.get(op[1]), False)
        return err

    def _apply(self, op):
        from skyllh.core.parameters import ParameterSet
        k = op[0]
        try:
            if k == 'new':
                self.sets.append(ParameterSet())
            elif k == 'add':
                s = self.sets[op[1]]
                p = self._mk(op[3])
                s.add_param(p, atfront=op[2])
                self._alloc(p)
            elif k == 'map':
                p = self._mk(op[1])
                models = None if op[2] is None else self._model_objs(op[2])
                al = op[3]
                names = None if al is None else (nm(al[1]) if al[0] == 's' else [nm(a) for a in al[1]])
                models0 = None if models is None else list(models)
                names0 = _copy.deepcopy(names)
                try:
                    self.pmm.map_param(p, models=models, model_param_names=names)
                finally:
                    if names != names0 or (models is not None and (len(models) != len(models0)
                                                                   or any(a is not b for a, b in zip(models, models0)))):
                        DAMAGE.append(('ParameterModelMapper.map_param', 'models-or-names-argument-modified', repr(names)))
                self._alloc(p)
            elif k == 'fix':
                req = {nm(n): self._f(v) for n, v in op[2]}
                req0 = dict(req)
                try:
                    self.get(op[1]).make_params_fixed(req)
                finally:
                    if req != req0 or list(req) != list(req0):
                        DAMAGE.append(('ParameterSet.make_params_fixed', 'request-dict-argument-modified', repr(req)))
            elif k == 'float':
                req = {}
                for n, e in op[2]:
                    if e is None:
                        req[nm(n)] = None
                    elif e[0] == 'i':
                        req[nm(n)] = self._f(e[1])
                    else:
                        # the triple as tuple / list / ndarray (`issequence`), chosen deterministically
                        t3 = [self._f(x) for x in e[1:]]
                        kind = (len(self.keep) + len(op[2]) + int(n)) % 3
                        req[nm(n)] = (tuple(t3) if kind == 0 else
                                      np.array(t3, dtype=np.float64) if (kind == 2 and None not in t3) else list(t3))
                req0 = dict(req)
                try:
                    self.get(op[1]).make_params_floating(req)
                finally:
                    if req != req0 or list(req) != list(req0):
                        DAMAGE.append(('ParameterSet.make_params_floating', 'request-dict-argument-modified', repr(req)))
            elif k == 'union':
                srcs = [self.get(r) for r in op[1]]
                before = [[(id(p), p.name, p.isfixed, p.initial, p.valmin, p.valmax, p.value) for p in x.params] for x in srcs]
                u = ParameterSet.union(*srcs)
                if before != [[(id(p), p.name, p.isfixed, p.initial, p.valmin, p.valmax, p.value) for p in x.params] for x in srcs]:
                    DAMAGE.append(('ParameterSet.union', 'operand-set-modified', repr(op)))
                for p in u.params:
                    if id(p) not in self.label:
                        self._alloc(p)
                self.sets.append(u)
            elif k == 'copy':
                src = self.get(op[1])
                c = src.copy()
                for p in c.params:
                    self._alloc(p)
                # a deep copy of a set in a state covered by a known finding is in that state too (caches are copied)
                if id(src) in self.taint:
                    self.taint.add(id(c))
                if id(src) in self.dirty:
                    self.dirty.add(id(c))
                self.sets.append(c)
            elif k == 'setv':
                self.get(op[1]).params[op[2]].value = self._f(op[3])
            elif k == 'addx':
                s = self.sets[op[1]]
                p = self.get(op[3]).params[op[4]]
                s.add_param(p, atfront=op[2])
                self.user_shared.add(id(p))
            elif k == 'mapx':
                p = self.get(op[1]).params[op[2]]
                models = None if op[3] is None else self._model_objs(op[3])
                al = op[4]
                names = None if al is None else (nm(al[1]) if al[0] == 's' else [nm(a) for a in al[1]])
                self.pmm.map_param(p, models=models, model_param_names=names)
                self.user_shared.add(id(p))
            elif k == 'newfrom':
                src = self.get(op[1])
                t = ParameterSet(params=list(src.params))
                for p in t.params:
                    self.user_shared.add(id(p))
                self.sets.append(t)
            elif k == 'chg':
                p = self.get(op[1]).params[op[2]]
                try:
                    p.change_fixed_value(self._f(op[3]))
                finally:
                    for t in self.all_sets():
                        if any(q is p for q in t.params):
                            self.dirty.add(id(t))
            elif k == 'upd':
                t = self.get(op[1])
                t.update_fixed_param_value_cache()
                self.dirty.discard(id(t))
            else:
                raise AssertionError(op)
        except Exception as ex:     # noqa: BLE001 - the kind of exception is the observation
            return type(ex).__name__
        return None


DAMAGE = []     # (site, kind, detail) recorded by the observers / PyWorld.apply: arguments that were modified


def _res(f):
    try:
        return ('Ok', f())
    except Exception as ex:     # noqa: BLE001
        return ('Err', type(ex).__name__)


def _plain(f):
    """the value itself (the model's function is total here); an exception shows up as a disagreement"""
    try:
        return f()
    except Exception as ex:     # noqa: BLE001
        return ('Err', type(ex).__name__)


def items(d):
    return sorted((unnm(k), fz(v)) for k, v in d.items())


def obs_set(w, s):
    vec = V([VEC0 + 8 * i for i in range(s.n_floating_params)])
    locs = [w.label.get(id(p), -1) for p in s.params]
    params = [(unnm(p.name), fz(p.initial), bool(p.isfixed), opt(None if p.valmin is None else fz(p.valmin)),
               opt(None if p.valmax is None else fz(p.valmax)), fz(p.value)) for p in s.params]
    g2 = (2, [bool(b) for b in s.fixed_params_mask], [unnm(n) for n in s.fixed_params_name_list],
          [unnm(n) for n in s.floating_params_name_list],
          sorted((unnm(k), int(v)) for k, v in s._fixed_param_name_to_idx.items()),
          sorted((unnm(k), int(v)) for k, v in s._floating_param_name_to_idx.items()),
          [fz(v) for v in s.fixed_param_values])
    g3 = (3, [unnm(n) for n in s.params_name_list], [int(i) for i in s.fixed_params_idxs],
          [int(i) for i in s.floating_params_idxs],
          _res(lambda: [fz(v) for v in s.floating_param_initials]),
          _res(lambda: [(opt(fz(a)), opt(fz(b))) for a, b in s.floating_param_bounds]))
    vec0 = vec.tobytes()
    g4 = (4, items(s.get_params_dict(vec)), items(s.get_floating_params_dict(vec)), items(s.get_params_dict(vec[1:])))
    if vec.tobytes() != vec0:
        DAMAGE.append(('ParameterSet.get_params_dict', 'value-vector-argument-modified', repr(vec.tolist())))
    return (1, locs, ('Ok', params), g2, g3, g4)


def rec_canon(rec):
    names = [n for n in rec.dtype.names if n != ':model_idx' and not n.endswith(':gpidx')]
    rows = []
    for i in range(len(rec)):
        rows.append((int(rec[':model_idx'][i]),
                     [(opt(fz(rec[n][i])), int(rec[n + ':gpidx'][i])) for n in names]))
    return ([unnm(n) for n in names], rows)


def obs_map(w):
    pmm = w.pmm
    g = pmm.global_paramset
    vec = V([VEC0 + 8 * i for i in range(g.n_floating_params)])
    vec1 = np.concatenate(([0.0], vec))
    srcs = [int(i) for i in pmm.get_src_model_idxs()]
    ev = srcs[::2]
    ev_objs = [w.models[i] for i in ev]
    matrix = [[('None' if a is None else ('Some', unnm(a))) for a in row] for row in pmm._model_param_names]
    g6 = (6, matrix, srcs, _plain(lambda: [int(i) for i in pmm.get_src_model_idxs(sources=ev_objs)]),
          _res(lambda: [unnm(n) for n in pmm.unique_source_param_names]))
    vec0, vec10 = vec.tobytes(), vec1.tobytes()
    rev = np.array(srcs[::-1], dtype=np.int32)
    rev0 = rev.tobytes()
    ev_objs0 = list(ev_objs)
    g7 = (7, _res(lambda: rec_canon(pmm.create_src_params_recarray(vec))),
          _res(lambda: rec_canon(pmm.create_src_params_recarray(vec, sources=ev_objs))),
          _res(lambda: rec_canon(pmm.create_src_params_recarray(vec, sources=rev))),
          _res(lambda: rec_canon(pmm.create_src_params_recarray(vec1))))
    n = len(w.models)
    g8 = (8, [_res(lambda m=m: items(pmm.create_model_params_dict(vec, m))) for m in list(range(n)) + [n, -1]],
          _res(lambda: items(pmm.create_model_params_dict(vec1, 0))))
    probe = [nm(k) for k in PROBE]
    g9 = (9, [bool(b) for b in pmm.get_local_param_is_global_floating_param_mask(probe)],
          [_res(lambda k=k: int(pmm.get_gflp_idx(nm(k)))) for k in PROBE])
    if vec.tobytes() != vec0 or vec1.tobytes() != vec10:
        DAMAGE.append(('ParameterModelMapper', 'value-vector-argument-modified', repr(vec.tolist())))
    if rev.tobytes() != rev0 or ev_objs != ev_objs0 or probe != [nm(k) for k in PROBE]:
        DAMAGE.append(('ParameterModelMapper', 'sources-or-names-argument-modified', repr(rev.tolist())))
    return (5, g6, g7, g8, g9)


def observe(w):
    return (10, obs_map(w), obs_set(w, w.pmm.global_paramset), [obs_set(w, s) for s in w.sets])


def flat(x, out):
    """flatten an observation to the token stream of Coq's printed value without parentheses and separators"""
    if isinstance(x, bool):
        out.append('true' if x else 'false')
    elif isinstance(x, int):
        out.append(str(x))
    elif isinstance(x, str):
        out.append(x)
    elif isinstance(x, list):
        out.append('[')
        for y in x:
            flat(y, out)
        out.append(']')
    elif isinstance(x, tuple):
        for y in x:
            flat(y, out)
    elif x is None:
        out.append('None')
    else:
        raise TypeError(type(x))
    return out


_TOK = re.compile(r'\[|\]|-?\d+|[A-Za-z_][A-Za-z0-9_\']*')


def coq_tokens(text):
    return _TOK.findall(text.replace('%nat', '').replace('%Z', ''))


def coq_eval_raw(name, exprs, timeout=900, per_file=150):
    """like common.coq_eval but returns the printed text of each value"""
    import concurrent.futures
    os.makedirs(os.path.join(common.BUILD, 'cases'), exist_ok=True)
    chunks = [exprs[i:i + per_file] for i in range(0, len(exprs), per_file)]
    files = []
    for ci, ch in enumerate(chunks):
        p = os.path.join(common.BUILD, 'cases', f'{name}_{os.getpid()}_{ci}.v')
        with open(p, 'w') as f:
            f.write(IMPORTS + '\nSet Printing Width 1000000.\nSet Printing Depth 10000000.\n')
            for e in ch:
                f.write(f'Eval vm_compute in ({e}).\n')
        files.append(p)

    def one(p):
        rc, out, err = common.sh(['timeout', str(timeout), 'coqc', '-Q', common.COQ, 'Sky', p], timeout=timeout + 30)
        for ext in ('.vo', '.vok', '.vos', '.glob'):
            q = p[:-2] + ext
            if os.path.exists(q):
                os.remove(q)
        aux = os.path.join(os.path.dirname(p), '.' + os.path.basename(p)[:-2] + '.aux')
        if os.path.exists(aux):
            os.remove(aux)
        if rc != 0:
            raise RuntimeError(f'coqc failed on {p}: {(out + err)[-1500:]}')
        os.remove(p)
        vals = []
        for blk in re.split(r'^\s*= ', out, flags=re.M)[1:]:
            vals.append(blk.rsplit('\n     : ', 1)[0])
        return vals

    with concurrent.futures.ThreadPoolExecutor(max_workers=8) as ex:
        res = list(ex.map(one, files))
    out = [v for r in res for v in r]
    if len(out) != len(exprs):
        raise RuntimeError(f'coq_eval_raw: {len(out)} values for {len(exprs)} expressions')
    return out


# ------------------------------------------------------------------ the independent reference (predicate)
class Entry:
    """one row of the reference parameter table"""
    __slots__ = ('name', 'fixed', 'value', 'initial', 'lo', 'hi')

    def __init__(self, name, fixed, value, initial, lo, hi):
        self.name, self.fixed, self.value, self.initial, self.lo, self.hi = name, fixed, value, initial, lo, hi

    def key(self):
        # bounds / initial of a fixed parameter are no view the property names
        if self.fixed:
            return (self.name, True, self.value)
        return (self.name, False, self.value, self.initial, self.lo, self.hi)

    def clone(self):
        return Entry(self.name, self.fixed, self.value, self.initial, self.lo, self.hi)


def entry_of_decl(d):
    """(verdict, Entry) for Parameter(name, initial, valmin, valmax, isfixed) as documented"""
    name, init, lo, hi, fx = d
    if fx is None:
        fx = not (lo is not None and hi is not None)
    if fx:
        return 'legal', Entry(name, True, init, init, lo, hi)
    if lo is None or hi is None:
        return 'undocumented', None
    if init < lo or init > hi:
        return 'reject', None
    return 'legal', Entry(name, False, init, init, lo, hi)


class Ref:
    """the parameter table of every set and the alias columns of the mapper, driven by the documented
    meaning of the operations.  apply() returns (verdict, new tables) without touching self; verdict:
    'legal' (must succeed, tables as returned), 'reject' (must raise, nothing changes), 'undocumented'
    (either; adopt what the implementation did if it did not raise)."""

    def __init__(self, src):
        self.src = list(src)
        self.g = []            # entries of the global parameter set
        self.alias = []        # per global parameter: list over models of alias | None
        self.sets = []

    def table(self, r):
        return self.g if r == 'G' else self.sets[r]

    def apply(self, op):
        k = op[0]
        nmod = len(self.src)
        if k in XOPS:
            return 'undocumented', None
        if k == 'new':
            return 'legal', ('append', [])
        if k == 'add':
            if not (0 <= op[1] < len(self.sets)):
                return 'undocumented', None
            t = self.sets[op[1]]
            v, e = entry_of_decl(op[3])
            if any(x.name == op[3][0] for x in t):
                return 'reject', None
            if v != 'legal':
                return v, None
            nt = [e] + [x.clone() for x in t] if op[2] else [x.clone() for x in t] + [e]
            return 'legal', ('set', op[1], nt)
        if k == 'map':
            v, e = entry_of_decl(op[1])
            if v == 'reject' or any(x.name == op[1][0] for x in self.g):
                return 'reject', None
            models, al = op[2], op[3]
            if models is None:
                mids = list(range(nmod))
            else:
                if len(models) == 0:
                    return 'reject', None
                if any(not (0 <= m < nmod) for m in models):
                    return 'undocumented', None
                mids = sorted(set(models))
            if al is None:
                names = [op[1][0]] * nmod
            elif al[0] == 's':
                names = [al[1]] * nmod
            else:
                names = list(al[1])
                if len(names) != nmod:
                    return 'undocumented', None
            for m in mids:
                if any(col[m] == names[m] for col in self.alias):
                    return 'reject', None
            if v != 'legal':
                return v, None
            col = [names[m] if m in mids else None for m in range(nmod)]
            return 'legal', ('map', e, col)
        if k == 'fix':
            t = self.table(op[1]) if (op[1] == 'G' or 0 <= op[1] < len(self.sets)) else None
            if t is None:
                return 'undocumented', None
            req = dict(op[2])
            if any(x.name in req and x.fixed for x in t):
                return 'reject', None
            nt = []
            for x in t:
                x = x.clone()
                if x.name in req:
                    v = req[x.name]
                    x.fixed = True
                    if v is None:
                        x.initial = x.value
                    else:
                        x.initial = x.value = v
                        if x.lo is not None and x.hi is not None and (v < x.lo or v > x.hi):
                            x.lo = x.hi = None
                nt.append(x)
            return 'legal', ('set', op[1], nt)
        if k == 'float':
            t = self.table(op[1]) if (op[1] == 'G' or 0 <= op[1] < len(self.sets)) else None
            if t is None:
                return 'undocumented', None
            req = dict(op[2])
            nt = []
            for x in t:
                x = x.clone()
                if x.name in req:
                    if not x.fixed:
                        return 'reject', None
                    e = req[x.name]
                    i, lo, hi = (None, None, None) if e is None else ((e[1], None, None) if e[0] == 'i' else e[1:])
                    i = x.value if i is None else i
                    lo = x.lo if lo is None else lo
                    hi = x.hi if hi is None else hi
                    if lo is None or hi is None or i < lo or i > hi:
                        return 'reject', None
                    x.fixed, x.initial, x.value, x.lo, x.hi = False, i, i, lo, hi
                nt.append(x)
            return 'legal', ('set', op[1], nt)
        if k == 'union':
            if len(op[1]) == 0:
                return 'reject', None
            if any(not (r == 'G' or 0 <= r < len(self.sets)) for r in op[1]):
                return 'undocumented', None
            nt = []
            for r in op[1]:
                for x in self.table(r):
                    if not any(y.name == x.name for y in nt):
                        nt.append(x.clone())
            return 'legal', ('append', nt)
        if k == 'copy':
            if not (op[1] == 'G' or 0 <= op[1] < len(self.sets)):
                return 'undocumented', None
            return 'legal', ('append', [x.clone() for x in self.table(op[1])])
        if k == 'setv':
            if not (op[1] == 'G' or 0 <= op[1] < len(self.sets)):
                return 'undocumented', None
            t = self.table(op[1])
            if not (0 <= op[2] < len(t)):
                return 'undocumented', None
            x = t[op[2]]
            v = op[3]
            if x.fixed:
                if v != x.initial:
                    return 'reject', None
                return 'legal', ('set', op[1], [y.clone() for y in t])
            if v < x.lo or v > x.hi:
                return 'reject', None
            nt = [y.clone() for y in t]
            nt[op[2]].value = v
            return 'legal', ('set', op[1], nt)
        raise AssertionError(op)

    def commit(self, upd):
        if upd[0] == 'append':
            self.sets.append(upd[1])
        elif upd[0] == 'set':
            if upd[1] == 'G':
                self.g = upd[2]
            else:
                self.sets[upd[1]] = upd[2]
        elif upd[0] == 'map':
            self.g = self.g + [upd[1]]
            self.alias.append(upd[2])

    def keys(self):
        return ([x.key() for x in self.g], [list(c) for c in self.alias], [[x.key() for x in t] for t in self.sets])

    def adopt(self, w):
        """take over the implementation's state (after an operation whose outcome is not documented)"""
        self.g = table_of(w.pmm.global_paramset)
        self.sets = [table_of(s) for s in w.sets]
        m = w.pmm._model_param_names
        self.alias = [[(None if m[i][j] is None else unnm(m[i][j])) for i in range(m.shape[0])]
                      for j in range(m.shape[1])]


def table_of(s):
    """the parameter table as the Parameter objects of a real ParameterSet state it"""
    out = []
    for p in s.params:
        out.append(Entry(unnm(p.name), bool(p.isfixed), fz(p.value), fz(p.initial),
                         None if p.valmin is None else fz(p.valmin), None if p.valmax is None else fz(p.valmax)))
    return out


def impl_keys(w):
    m = w.pmm._model_param_names
    alias = [[(None if m[i][j] is None else unnm(m[i][j])) for i in range(m.shape[0])] for j in range(m.shape[1])]
    return ([x.key() for x in table_of(w.pmm.global_paramset)], alias, [[x.key() for x in table_of(s)] for s in w.sets])


def _eqf(a, b):
    a, b = float(a), float(b)
    return (math.isnan(a) and math.isnan(b)) or a == b


def check_set_views(s, where, bad):
    """every view of a real ParameterSet against the brute-force reading of its own Parameter objects"""
    T = table_of(s)
    fx = [e for e in T if e.fixed]
    fl = [e for e in T if not e.fixed]
    names = [e.name for e in T]

    def expect(what, got, want):
        if got != want:
            bad.append((where, what, repr(got)[:200], repr(want)[:200]))

    expect('duplicate-names', len(set(names)), len(names))
    for e in T:
        if e.fixed:
            expect('fixed-value-differs-from-initial', e.value, e.initial)
        else:
            expect('floating-value-outside-bounds', e.lo is not None and e.hi is not None and e.lo <= e.value <= e.hi
                   and e.lo <= e.initial <= e.hi, True)
    expect('n_params', (s.n_params, len(s)), (len(T), len(T)))
    expect('fixed_params_mask', [bool(b) for b in s.fixed_params_mask], [e.fixed for e in T])
    expect('floating_params_mask', [bool(b) for b in s.floating_params_mask], [not e.fixed for e in T])
    expect('fixed_params_name_list', [unnm(n) for n in s.fixed_params_name_list], [e.name for e in fx])
    expect('floating_params_name_list', [unnm(n) for n in s.floating_params_name_list], [e.name for e in fl])
    expect('params_name_list', sorted(unnm(n) for n in s.params_name_list), sorted(names))
    expect('n_fixed_params', s.n_fixed_params, len(fx))
    expect('n_floating_params', s.n_floating_params, len(fl))
    expect('fixed_params_idxs', [int(i) for i in s.fixed_params_idxs], [i for i, e in enumerate(T) if e.fixed])
    expect('floating_params_idxs', [int(i) for i in s.floating_params_idxs], [i for i, e in enumerate(T) if not e.fixed])
    expect('fixed_param_values', [fz(v) for v in s.fixed_param_values], [e.value for e in fx])
    try:
        expect('fixed_params', [id(p) for p in s.fixed_params], [id(p) for p in s.params if p.isfixed])
        expect('floating_params', [id(p) for p in s.floating_params], [id(p) for p in s.params if not p.isfixed])
        expect('floating_param_initials', [fz(v) for v in s.floating_param_initials], [e.initial for e in fl])
        expect('floating_param_bounds', [(fz(a), fz(b)) for a, b in s.floating_param_bounds], [(e.lo, e.hi) for e in fl])
    except Exception as ex:     # noqa: BLE001
        bad.append((where, 'floating-views-raise', type(ex).__name__, ''))
    for k in PROBE:
        want_fx = [i for i, e in enumerate(fx) if e.name == k]
        want_fl = [i for i, e in enumerate(fl) if e.name == k]
        expect(f'get_fixed_pidx', _res(lambda: int(s.get_fixed_pidx(nm(k)))),
               ('Ok', want_fx[0]) if want_fx else ('Err', 'KeyError'))
        expect(f'get_floating_pidx', _res(lambda: int(s.get_floating_pidx(nm(k)))),
               ('Ok', want_fl[0]) if want_fl else ('Err', 'KeyError'))
        expect('has_param', (s.has_fixed_param(nm(k)), s.has_floating_param(nm(k))), (bool(want_fx), bool(want_fl)))
    vec = [100 + 7 * i for i in range(len(fl))]
    want = {e.name: vec[[x.name for x in fl].index(e.name)] if not e.fixed else e.value for e in T}
    expect('get_params_dict', {unnm(k): fz(v) for k, v in s.get_params_dict(V(vec)).items()}, want)
    expect('get_floating_params_dict', {unnm(k): fz(v) for k, v in s.get_floating_params_dict(V(vec)).items()},
           {e.name: vec[i] for i, e in enumerate(fl)})
    return T, fx, fl, vec


def check_map_views(w, bad, where='ParameterModelMapper'):
    """every view of the real mapper against the brute-force reading of (Parameter objects, alias matrix)"""
    pmm = w.pmm
    g = pmm.global_paramset
    T = table_of(g)
    fl = [e for e in T if not e.fixed]
    nmod = len(w.models)
    M = pmm._model_param_names

    def expect(what, got, want):
        if got != want:
            bad.append((where, what, repr(got)[:200], repr(want)[:200]))

    expect('matrix-shape', tuple(M.shape), (nmod, len(T)))
    if tuple(M.shape) != (nmod, len(T)):
        return
    A = [[(None if M[i][j] is None else unnm(M[i][j])) for j in range(len(T))] for i in range(nmod)]
    for i in range(nmod):
        al = [a for a in A[i] if a is not None]
        expect('duplicate-local-name', len(set(al)), len(al))
    expect('n_global', (pmm.n_models, pmm.n_global_params, pmm.n_global_fixed_params, pmm.n_global_floating_params,
                        int(pmm.n_sources)),
           (nmod, len(T), len(T) - len(fl), len(fl), sum(w.src)))
    vec = [100 + 7 * i for i in range(len(fl))]
    rank = {e.name: i for i, e in enumerate(fl)}

    def val(j):
        e = T[j]
        return e.value if e.fixed else vec[rank[e.name]]

    def gpidx(j):
        e = T[j]
        return -(j + 1) if e.fixed else rank[e.name] + 1

    for i in range(nmod):
        want = {A[i][j]: val(j) for j in range(len(T)) if A[i][j] is not None}
        for arg in (i, w.models[i], w.models[i].name):
            got = _res(lambda: {unnm(k): fz(v) for k, v in pmm.create_model_params_dict(V(vec), arg).items()})
            expect('create_model_params_dict', got, ('Ok', want))
        for j in range(len(T)):
            a = pmm.get_model_param_name(i, j)
            expect('get_model_param_name', None if a is None else unnm(a), A[i][j])
    smidx_all = [i for i in range(nmod) if w.src[i]]
    expect('get_src_model_idxs', [int(i) for i in pmm.get_src_model_idxs()], smidx_all)
    uniq = sorted({A[i][j] for i in smidx_all for j in range(len(T)) if A[i][j] is not None})
    expect('unique_source_param_names', [unnm(n) for n in pmm.unique_source_param_names], uniq)
    expect('unique_model_param_names', [unnm(n) for n in pmm.unique_model_param_names],
           sorted({a for row in A for a in row if a is not None}))
    sels = [('all', None, smidx_all)]
    if smidx_all:
        sub = smidx_all[1:] + smidx_all[:1] if len(smidx_all) > 1 else smidx_all
        sub = sub[: max(1, len(sub) - 1)]
        sels.append(('objs', [w.models[i] for i in sub], [i for i in smidx_all if i in sub]))
        sels.append(('one', w.models[smidx_all[-1]], [smidx_all[-1]]))
        sels.append(('int32', np.array(smidx_all[::-1], dtype=np.int32), smidx_all[::-1]))
    for tag, arg, smidxs in sels:
        if tag != 'int32':
            expect('get_src_model_idxs(sources)', _res(lambda: [int(i) for i in pmm.get_src_model_idxs(sources=arg)]),
                   ('Ok', smidxs))
        try:
            rec = pmm.create_src_params_recarray(V(vec), sources=arg)
        except Exception as ex:     # noqa: BLE001
            bad.append((where, 'create_src_params_recarray-raises', type(ex).__name__, tag))
            continue
        fields = [n for n in rec.dtype.names if n != ':model_idx' and not n.endswith(':gpidx')]
        expect('recarray-fields', [unnm(n) for n in fields], uniq)
        expect('recarray-model_idx', [int(x) for x in rec[':model_idx']], smidxs)
        if [unnm(n) for n in fields] != uniq or len(rec) != len(smidxs):
            continue
        for r, i in enumerate(smidxs):
            for u in uniq:
                js = [j for j in range(len(T)) if A[i][j] == u]
                v = fz(rec[nm(u)][r])
                gi = int(rec[nm(u) + ':gpidx'][r])
                if not js:
                    if v is not None:
                        bad.append((where, 'recarray-unmapped-not-nan', repr((i, u, v)), 'nan'))
                else:
                    if not (v == val(js[0]) and gi == gpidx(js[0])):
                        bad.append((where, 'recarray-wrong-cell', repr((i, u, v, gi)), repr((val(js[0]), gpidx(js[0])))))
    # unmapped floating values -> NaN when no vector is given
    try:
        rec = pmm.create_src_params_recarray()
        for r, i in enumerate(smidx_all):
            for u in uniq:
                js = [j for j in range(len(T)) if A[i][j] == u]
                v = fz(rec[nm(u)][r])
                want = None if (not js or not T[js[0]].fixed) else T[js[0]].value
                if v != want:
                    bad.append((where, 'recarray-default-values', repr((i, u, v)), repr(want)))
    except Exception as ex:     # noqa: BLE001
        bad.append((where, 'create_src_params_recarray-raises', type(ex).__name__, 'default'))
    if len(fl) > 0 or True:
        got = _res(lambda: pmm.create_src_params_recarray(V([0] + vec)))
        if got[0] != 'Err':
            bad.append((where, 'recarray-accepts-wrong-length-vector', '', ''))
    expect('create_global_params_dict', {unnm(k): fz(v) for k, v in pmm.create_global_params_dict(V(vec)).items()},
           {e.name: val(j) for j, e in enumerate(T)})
    expect('create_global_floating_params_dict',
           {unnm(k): fz(v) for k, v in pmm.create_global_floating_params_dict(V(vec)).items()},
           {e.name: vec[i] for i, e in enumerate(fl)})
    for k in PROBE:
        expect('get_gflp_idx', _res(lambda: int(pmm.get_gflp_idx(nm(k)))),
               ('Ok', rank[k]) if k in rank else ('Err', 'KeyError'))
    want = [any(A[i][j] == k and not T[j].fixed for i in range(nmod) for j in range(len(T))) for k in PROBE]
    expect('get_local_param_is_global_floating_param_mask',
           [bool(b) for b in pmm.get_local_param_is_global_floating_param_mask([nm(k) for k in PROBE])], want)


def check_sharing(w, bad):
    seen = {}
    for si, s in enumerate(w.all_sets()):
        for p in s.params:
            if id(p) in w.user_shared:
                continue        # put there by the caller (add_param(p) / map_param(p) / ParameterSet(params))
            if id(p) in seen and seen[id(p)] != si:
                bad.append(('ParameterSet', 'parameter-object-shared-between-sets', repr((seen[id(p)], si, p.name)), ''))
            seen[id(p)] = si


SHARED_SIG = ('ParameterSet.add_param / ParameterSet(params) / map_param (Parameter object shared by the caller)',
              'views-stale-after-edit-through-the-other-owner')


def excuse(w, s):
    """'[shared]': the set is in the state of the OPEN finding C04-shared-parameter.  '[stale]': between
    change_fixed_value and update_fixed_param_value_cache — the documented two-step protocol; the stale value
    cache in between is expected and not reported, after the update every view must agree again (the set is
    then checked like any other)"""
    if id(s) in w.taint:
        return '[shared]'
    if id(s) in w.dirty:
        return '[stale]'
    return ''


def predicates(ctx, case, w, ref, step, op, err, before):
    """the property evaluated on the implementation after one step"""
    bad = []
    g = w.pmm.global_paramset
    check_map_views(w, bad, 'ParameterModelMapper' + excuse(w, g))
    check_set_views(g, 'ParameterSet' + excuse(w, g), bad)
    for s in w.sets:
        check_set_views(s, 'ParameterSet' + excuse(w, s), bad)
    check_sharing(w, bad)
    now = impl_keys(w)
    verdict, upd = ref.apply(op)
    if w.user_shared or w.dirty:
        verdict = 'undocumented'        # the value-level reference table does not speak about shared objects
    ctx.count('ref:' + verdict)
    if err is not None and now != before:
        bad.append((op[0], 'state-changed-by-rejected-operation', repr(now)[:300], repr(before)[:300]))
    if verdict == 'legal':
        if err is not None:
            bad.append((op[0], 'legal-operation-raises-' + err, repr(op)[:200], ''))
            ref.adopt(w)
        else:
            ref.commit(upd)
            if ref.keys() != now:
                bad.append((op[0], 'state-differs-from-reference-table', repr(now)[:300], repr(ref.keys())[:300]))
                ref.adopt(w)
    elif verdict == 'reject':
        if err is None:
            bad.append((op[0], 'invalid-request-accepted', repr(op)[:200], ''))
            ref.adopt(w)
    else:
        if err is None:
            ref.adopt(w)
    for (site, kind, got, want) in bad:
        if site.endswith('[shared]'):
            site, kind, got = SHARED_SIG[0], SHARED_SIG[1], f'{kind}: {got}'
        elif site.endswith('[stale]'):
            ctx.count('protocol:stale-between-change_fixed_value-and-update')
            continue
        ctx.violation(site if site in ('ParameterSet', 'ParameterModelMapper', SHARED_SIG[0]) else 'op:' + site, kind,
                      f'step {step} {op!r}: got {got} want {want}',
                      case={'src': case['src'], 'nz': case.get('nz', False), 'ops': [list(o) for o in case['ops'][:step + 1]]},
                      impl=got, predicate=kind)
    return now


# ------------------------------------------------------------------ history probes on the real objects
# (tools/HARDENING.md): the result of every observable is a function of the current state and of the
# arguments only — no memo surviving a mutator, no buffer shared between calls or instances, arguments
# and returned values left alone.  None of this needs the model.
class _W:
    """just enough of a PyWorld for obs_map / obs_set"""
    def __init__(self, pmm, models):
        self.pmm, self.models, self.label, self.sets = pmm, models, {}, []


def fresh_param(p):
    from skyllh.core.parameters import Parameter
    q = Parameter(p.name, p.initial, p.valmin, p.valmax, isfixed=bool(p.isfixed))
    if q.value != p.value:
        q.value = p.value
    return q


def twin_set(s):
    """a ParameterSet constructed from scratch that holds the same state"""
    from skyllh.core.parameters import ParameterSet
    return ParameterSet([fresh_param(p) for p in s.params])


def twin_mapper(w):
    from skyllh.core.parameters import ParameterModelMapper
    from skyllh.core.model import Model
    pmm = w.pmm
    t = ParameterModelMapper(w.models)
    M = pmm._model_param_names
    n = len(w.models)
    for j, p in enumerate(pmm.global_paramset.params):
        mapped = [i for i in range(n) if M[i][j] is not None]
        if mapped:
            t.map_param(fresh_param(p), models=[w.models[i] for i in mapped],
                        model_param_names=[(M[i][j] if M[i][j] is not None else 'unused') for i in range(n)])
        else:
            t.map_param(fresh_param(p), models=[Model('foreign')])
    return t


def set_face(w, s):
    """everything observable of a set that does not depend on object identity"""
    return (obs_set(w, s)[2:], str(s), [p.name for p in s], len(s), [str(p) for p in s.params],
            [(s.has_param(p), s.has_fixed_param(p.name), s.has_floating_param(p.name)) for p in s.params])


def map_face(w):
    pmm = w.pmm
    g = pmm.global_paramset
    vec = V([VEC0 + 8 * i for i in range(g.n_floating_params)])
    extra = []
    try:
        rec = pmm.create_src_params_recarray(vec)
        names = [n for n in rec.dtype.names if n != ':model_idx' and not n.endswith(':gpidx')]
        extra = [(n, bool(pmm.is_local_param_a_fitparam(n, rec)),
                  [bool(pmm.is_global_fitparam_a_local_param(f, rec, [n])) for f in range(len(vec))]) for n in names]
    except Exception as ex:     # noqa: BLE001
        extra = ['raises', type(ex).__name__]
    return (obs_map(w), str(pmm), extra, [_res(lambda m=m: pmm.get_model_idx_by_name(m.name)) for m in w.models],
            (pmm.n_models, pmm.n_global_params, pmm.n_global_fixed_params, pmm.n_global_floating_params, int(pmm.n_sources)),
            _res(lambda: [str(x) for x in pmm.unique_model_param_names]))


def _first_diff(a, b):
    fa, fb = flat_any(a), flat_any(b)
    k = next((i for i, (x, y) in enumerate(zip(fa, fb)) if x != y), min(len(fa), len(fb)))
    return ' '.join(map(str, fa[max(0, k - 6):k + 6])) + '  <>  ' + ' '.join(map(str, fb[max(0, k - 6):k + 6]))


def flat_any(x):
    out = []

    def go(y):
        if isinstance(y, (list, tuple)):
            out.append('[')
            for z in y:
                go(z)
            out.append(']')
        else:
            out.append(y)
    go(x)
    return out


def check_twins(w, bad):
    """mutate-then-observe: every set and the mapper against a freshly constructed twin with the same state"""
    for si, s in enumerate(w.all_sets()):
        if excuse(w, s):
            continue
        try:
            t = twin_set(s)
        except Exception as ex:     # noqa: BLE001
            bad.append(('ParameterSet', 'state-not-constructible-from-scratch', type(ex).__name__, str(si)))
            continue
        a, b = set_face(w, s), set_face(w, t)
        if a != b:
            bad.append(('ParameterSet', 'differs-from-freshly-constructed-twin', _first_diff(a, b), f'set {si}'))
    if excuse(w, w.pmm.global_paramset):
        return
    try:
        tw = _W(twin_mapper(w), w.models)
    except Exception as ex:     # noqa: BLE001
        bad.append(('ParameterModelMapper', 'state-not-constructible-from-scratch', type(ex).__name__, ''))
        return
    a, b = map_face(w), map_face(tw)
    if a != b:
        bad.append(('ParameterModelMapper', 'differs-from-freshly-constructed-twin', _first_diff(a, b), ''))


def _snap(x):
    """deep, comparable snapshot of a returned value"""
    if isinstance(x, np.ndarray):
        if x.dtype == object:
            return ('objarr', [id(y) for y in x])
        return ('arr', str(x.dtype), x.shape, x.tobytes())
    if isinstance(x, dict):
        return ('dict', [(k, _snap(v)) for k, v in x.items()])
    if isinstance(x, (list, tuple)):
        return ('seq', [_snap(y) for y in x])
    if isinstance(x, (float, np.floating)):
        return ('f', float(x).hex())
    return ('v', repr(x))


def collect_results(w):
    """results handed out to the caller: (label, live object, snapshot).  Each call is followed by the same call
    with other arguments; the first result must not change and must not share memory with the second."""
    out = []
    bad = []
    pmm = w.pmm

    def hold(label, f, g=None):
        try:
            r1 = f()
        except Exception:     # noqa: BLE001 - covered by the views
            return
        s1 = _snap(r1)
        try:
            r2 = (g or f)()
        except Exception:     # noqa: BLE001
            r2 = None
        if _snap(r1) != s1:
            bad.append((label, 'returned-value-changed-by-next-call', '', ''))
        # (a memo may legitimately hand out the same object for the same arguments: only calls with OTHER
        # arguments must not share their result buffer)
        if g is not None and isinstance(r1, np.ndarray) and isinstance(r2, np.ndarray) and r1.size and r2.size \
                and np.shares_memory(r1, r2):
            bad.append((label, 'results-of-calls-with-different-arguments-share-memory', '', ''))
        out.append((label, r1, s1))

    for si, s in enumerate(w.all_sets()):
        nf = s.n_floating_params
        va = np.array([1.5 + i for i in range(nf)])
        vb = np.array([-7.25 - i for i in range(nf)])
        hold('ParameterSet.get_params_dict', lambda: s.get_params_dict(va), lambda: s.get_params_dict(vb))
        hold('ParameterSet.get_floating_params_dict', lambda: s.get_floating_params_dict(va),
             lambda: s.get_floating_params_dict(vb))
        hold('ParameterSet.floating_param_bounds', lambda: s.floating_param_bounds)
        hold('ParameterSet.floating_param_initials', lambda: s.floating_param_initials)
        hold('ParameterSet.floating_params_mask', lambda: s.floating_params_mask)
        hold('ParameterSet.fixed_params_idxs', lambda: s.fixed_params_idxs)
        hold('ParameterSet.floating_params_idxs', lambda: s.floating_params_idxs)
        hold('ParameterSet.params_name_list', lambda: s.params_name_list)
        hold('ParameterSet.floating_params', lambda: s.floating_params)
        hold('ParameterSet.fixed_params', lambda: s.fixed_params)
    g = pmm.global_paramset
    nf = g.n_floating_params
    va = np.array([1.5 + i for i in range(nf)])
    vb = np.array([-7.25 - i for i in range(nf)])
    srcs = [int(i) for i in pmm.get_src_model_idxs()]
    hold('ParameterModelMapper.create_src_params_recarray', lambda: pmm.create_src_params_recarray(va),
         lambda: pmm.create_src_params_recarray(vb))
    if len(srcs) > 1:
        hold('ParameterModelMapper.create_src_params_recarray(sources)', lambda: pmm.create_src_params_recarray(va),
             lambda: pmm.create_src_params_recarray(va, sources=np.array(srcs[:1], dtype=np.int32)))
    for i in range(len(w.models)):
        hold('ParameterModelMapper.create_model_params_dict', lambda i=i: pmm.create_model_params_dict(va, i),
             lambda i=i: pmm.create_model_params_dict(vb, (i + 1) % len(w.models)))
    hold('ParameterModelMapper.create_global_params_dict', lambda: pmm.create_global_params_dict(va),
         lambda: pmm.create_global_params_dict(vb))
    hold('ParameterModelMapper.get_src_model_idxs', lambda: pmm.get_src_model_idxs(),
         lambda: pmm.get_src_model_idxs(sources=[w.models[i] for i in srcs[:1]]))
    hold('ParameterModelMapper.unique_source_param_names', lambda: pmm.unique_source_param_names)
    hold('ParameterModelMapper.get_local_param_is_global_floating_param_mask',
         lambda: pmm.get_local_param_is_global_floating_param_mask([nm(k) for k in PROBE]),
         lambda: pmm.get_local_param_is_global_floating_param_mask([nm(k) for k in PROBE[::-1]]))
    return out, bad


def check_held(held, bad):
    """results handed out before the last mutator must still be what they were"""
    for label, obj, snap in held:
        if _snap(obj) != snap:
            bad.append((label, 'returned-value-changed-by-later-operation', '', ''))


def history_probes(ctx, case, w, step, op, held, o1, full=True):
    bad = []
    for d in DAMAGE:
        bad.append((d[0], d[1], d[2], ''))
    del DAMAGE[:]
    check_held(held, bad)
    new_held = []
    if full:
        check_twins(w, bad)
        new_held, b2 = collect_results(w)
        bad.extend(b2)
    o2 = observe(w)
    if o2 != o1:
        bad.append(('ParameterSet/ParameterModelMapper', 'repeated-observation-differs', _first_diff(o1, o2), ''))
    for d in DAMAGE:
        bad.append((d[0], d[1], d[2], ''))
    del DAMAGE[:]
    for (site, kind, got, want) in bad:
        ctx.violation(site, kind, f'step {step} {op!r}: {got} {want}',
                      case={'src': case['src'], 'nz': case.get('nz', False), 'ops': [list(o) for o in case['ops'][:step + 1]]},
                      impl=got, predicate=kind)
    return new_held


# ------------------------------------------------------------------ running one case
class Runner:
    """one case on the real objects, one operation per step() so that two cases (two mappers, their sets, copies
    and unions) are alive at the same time and are driven alternately.
    mode 'trace': observation + predicates + history probes after every step; 'last': after the last step only
    (every prefix is a case of its own) — there everything is read once BEFORE the last operation as well, so
    that anything memoised by a read has been populated before the mutator runs."""
    count = 0

    def __init__(self, ctx, case, mode):
        self.ctx, self.case, self.mode = ctx, case, mode
        self.w = PyWorld(case['src'], case.get('nz', False))
        self.ref = Ref(case['src'])
        self.out = []
        self.before = impl_keys(self.w)
        self.i = 0
        self.held = []
        # 'last' cases: the full probe set on every third case (deterministic), the cheap ones on all
        Runner.count += 1
        self.full = mode == 'trace' or Runner.count % 3 == 0

    def done(self):
        return self.i >= len(self.case['ops'])

    def step(self):
        ctx, case, w, ref, i = self.ctx, self.case, self.w, self.ref, self.i
        op = case['ops'][i]
        n = len(case['ops'])
        checked = self.mode == 'trace' or i == n - 1
        if checked and self.mode == 'last':
            observe(w)
            if self.full:
                self.held, _ = collect_results(w)
        del DAMAGE[:]
        err = w.apply(op)
        dmg = DAMAGE[:]          # arguments of THIS operation that were modified
        del DAMAGE[:]
        if err is not None and err not in ERRS:
            ctx.violation('op:' + op[0], 'unexpected-exception-' + err, f'{op!r} raised {err}',
                          case={'src': case['src'], 'nz': case.get('nz', False), 'ops': [list(o) for o in case['ops'][:i + 1]]}, impl=err)
        ctx.count('op:' + op[0] + (':err' if err else ':ok'))
        if checked:
            try:
                self.before = predicates(ctx, case, w, ref, i, op, err, self.before)
                o1 = observe(w)
                self.out.append((('Some', err) if err else 'None', o1))
                DAMAGE[:0] = dmg
                self.held = history_probes(ctx, case, w, i, op, self.held, o1, self.full)
            except Exception as ex:     # noqa: BLE001 - an observable that cannot even be read is a violation, not a crash
                ctx.violation('observation', 'reading-the-views-raises-' + type(ex).__name__, f'step {i} {op!r}: {ex}',
                              case={'src': case['src'], 'nz': case.get('nz', False), 'ops': [list(o) for o in case['ops'][:i + 1]]}, impl=str(ex)[:300])
                if len(self.out) <= (i if self.mode == 'trace' else 0):
                    self.out.append((('Some', err) if err else 'None', ('unreadable',)))
        else:
            # keep the reference in step without re-checking the (already covered) prefix
            verdict, upd = ref.apply(op)
            if verdict == 'legal' and err is None:
                ref.commit(upd)
            else:
                ref.adopt(w)
            self.before = impl_keys(w)
            del DAMAGE[:]
        self.i += 1


def run_impl(ctx, case, mode):
    r = Runner(ctx, case, mode)
    while not r.done():
        r.step()
    return r.out


def model_expr(case, mode):
    src = c_list(case['src'], c_bool)
    ops = c_list(case['ops'], c_xop)
    f = 'xobs_trace' if mode == 'trace' else 'xobs_last'
    return f'{f} {src} {ops} {c_list(PROBE)}'


def impl_tokens(res, mode):
    if mode == 'trace':
        return flat(list(res), [])
    return flat(res[-1], [])


# ------------------------------------------------------------------ generators
GNAMES = [0, 1, 2, 3]
LNAMES = [4, 5, 6, 7]


def gen_decl(rng, name, ctx=None):
    r = rng.random()
    lo = rng.choice([-4, 0, 2, -1])
    hi = lo + rng.choice([0, 1, 3, 6])
    if rng.random() < 0.10:
        # float32-sensitive magnitudes: (2^27+1)/8 = 16777216.125
        if rng.random() < 0.5:
            kind, d = 'fixed-big', (name, rng.choice([BIG, -BIG, BIG + 8]), None, None, None)
        else:
            kind, d = 'floating-big-bounds', (name, rng.choice([BIG, -BIG, 3]), -BIG, BIG + rng.choice([0, 8]), None)
        if ctx is not None:
            ctx.count('decl:' + kind)
        return d
    if r < 0.40:
        kind, d = 'floating', (name, rng.randint(lo, hi), lo, hi, None)
    elif r < 0.50:
        kind, d = 'floating-on-bound', (name, rng.choice([lo, hi]), lo, hi, rng.choice([None, False]))
    elif r < 0.70:
        kind, d = 'fixed-nobounds', (name, rng.randint(-5, 9), None, None, None)
    elif r < 0.78:
        kind, d = 'fixed-with-bounds', (name, rng.randint(lo - 2, hi + 2), lo, hi, True)
    elif r < 0.84:
        kind, d = 'fixed-one-bound', (name, rng.randint(-5, 9), rng.choice([None, lo]), None, rng.choice([None, True]))
    elif r < 0.93:
        kind, d = 'floating-outside', (name, rng.choice([lo - 1, hi + 1, hi + 4]), lo, hi, rng.choice([None, False]))
    else:
        kind, d = 'floating-nobounds', (name, 1, rng.choice([None, lo]), None, False)
    if ctx is not None:
        ctx.count('decl:' + kind)
    return d


def gen_value_for(rng, e, ctx, tag):
    """a value relative to an Entry's bounds: inside / on / just outside / far; exactly 0 has a quota of its own
    (0.0 is falsy in Python: `x or default`, `if x:`)"""
    if rng.random() < 0.15:
        ctx.count(tag + ':zero')
        return 0
    if rng.random() < 0.05:
        ctx.count(tag + ':big')
        return rng.choice([BIG, -BIG])
    if e.lo is None or e.hi is None:
        ctx.count(tag + ':nobounds')
        return rng.randint(-5, 9)
    r = rng.random()
    if r < 0.45:
        ctx.count(tag + ':inside')
        return rng.randint(e.lo, e.hi)
    if r < 0.65:
        ctx.count(tag + ':on-bound')
        return rng.choice([e.lo, e.hi])
    if r < 0.9:
        ctx.count(tag + ':just-outside')
        return rng.choice([e.lo - 1, e.hi + 1])
    ctx.count(tag + ':far-outside')
    return rng.choice([e.lo - 7, e.hi + 9])


def gen_ops(ctx, rng, src, length, xops=False):
    """a mostly-valid operation sequence; the state needed to pick meaningful arguments is tracked with the
    reference table (which is only used to choose arguments here)"""
    ref = Ref(src)
    w = PyWorld(src)
    nmod = len(src)
    ops = []
    for _ in range(length):
        refs = ['G'] + list(range(len(ref.sets)))
        full = [r for r in refs if ref.table(r)]
        pick = (lambda: rng.choice(full) if full and rng.random() < 0.9 else rng.choice(refs))   # noqa: E731
        kinds = ['map'] * 5 + ['fix'] * 4 + ['float'] * 4 + ['setv'] * 3 + ['copy', 'union', 'union', 'new', 'add', 'add', 'add']
        if xops:
            # the rest of the public API: caller-shared objects, change_fixed_value / update cache
            kinds = kinds + ['addx', 'addx', 'mapx', 'newfrom', 'chg', 'chg', 'upd', 'upd']
        k = rng.choice(kinds)
        if k in ('add', 'addx') and not ref.sets:
            k = 'new'
        if k in ('addx', 'mapx', 'chg') and not full:
            k = 'map'
        if k == 'addx':
            r = rng.choice(full)
            op = ('addx', rng.randrange(len(ref.sets)), rng.random() < 0.5, r, rng.randrange(len(ref.table(r))))
            ctx.count('xop:addx')
        elif k == 'mapx':
            r = rng.choice(full)
            models = None if rng.random() < 0.5 else sorted(rng.sample(range(nmod), rng.randint(1, nmod)))
            al = rng.choice([None, ('s', rng.choice(LNAMES))])
            op = ('mapx', r, rng.randrange(len(ref.table(r))), models, al)
            ctx.count('xop:mapx')
        elif k == 'newfrom':
            op = ('newfrom', rng.choice(refs))
            ctx.count('xop:newfrom')
        elif k == 'chg':
            r = rng.choice(full)
            t = ref.table(r)
            fixed = [j for j, e in enumerate(t) if e.fixed]
            j = rng.choice(fixed) if fixed and rng.random() < 0.85 else rng.randrange(len(t))
            op = ('chg', r, j, rng.choice([0, 3, -7, BIG, t[j].value]))
            ctx.count('xop:chg')
        elif k == 'upd':
            op = ('upd', rng.choice(refs))
            ctx.count('xop:upd')
        elif k == 'new':
            op = ('new',)
        elif k == 'add':
            n = rng.randrange(len(ref.sets)) if rng.random() < 0.95 else len(ref.sets)
            op = ('add', n, rng.random() < 0.5, gen_decl(rng, rng.choice(GNAMES), ctx))
        elif k == 'map':
            d = gen_decl(rng, rng.choice(GNAMES), ctx)
            r = rng.random()
            if r < 0.3:
                models = None
            elif r < 0.9:
                models = sorted(rng.sample(range(nmod), rng.randint(1, nmod)))
                if rng.random() < 0.15:
                    rng.shuffle(models)
            elif r < 0.95:
                models = []
            else:
                models = [rng.randrange(nmod), nmod + 1]
            r = rng.random()
            if r < 0.3:
                al = None
            elif r < 0.55:
                al = ('s', rng.choice(LNAMES + GNAMES))
            elif r < 0.92:
                al = ('q', [rng.choice(LNAMES + GNAMES) for _ in range(nmod)])
            else:
                al = ('q', [rng.choice(LNAMES) for _ in range(rng.choice([0, 1, max(1, nmod - 1), nmod + 1]))])
            ctx.count('map:models=' + ('None' if models is None else 'subset' if models and max(models) < nmod else
                                       'empty' if not models else 'foreign'))
            ctx.count('map:alias=' + ('None' if al is None else 'str' if al[0] == 's' else
                                      'seq' if len(al[1]) == nmod else 'seq-wrong-length'))
            op = ('map', d, models, al)
        elif k in ('fix', 'float'):
            r = pick()
            t = ref.table(r)
            want_fixed = (k == 'float')
            good = [e for e in t if e.fixed == want_fixed]
            other = [e for e in t if e.fixed != want_fixed]
            req = []
            pool = list(good)
            rng.shuffle(pool)
            for e in pool[: rng.choice([1, 1, 1, 2, 3])]:
                if k == 'fix':
                    req.append((e.name, None if rng.random() < 0.35 else gen_value_for(rng, e, ctx, 'fix-value')))
                else:
                    rr = rng.random()
                    if rr < 0.3:
                        req.append((e.name, None))
                        ctx.count('float-entry:None' + (':nobounds' if e.lo is None or e.hi is None else ''))
                    elif rr < 0.55:
                        req.append((e.name, ('i', gen_value_for(rng, e, ctx, 'float-initial'))))
                    else:
                        lo = rng.choice([-3, 0, 1, -2])
                        hi = lo + rng.choice([0, 2, 5])
                        i = rng.choice([None, lo, hi, rng.randint(lo, hi), lo - 1, hi + 1, 0, 0])
                        if i == 0:
                            ctx.count('float-entry:triple-initial-zero')
                        tri = ('t', i, rng.choice([lo, lo, None]), rng.choice([hi, hi, None]))
                        ctx.count('float-entry:triple')
                        req.append((e.name, tri))
            if other and rng.random() < 0.15:
                e = rng.choice(other)
                req.insert(rng.randint(0, len(req)), (e.name, None))
                ctx.count(k + ':already-' + ('fixed' if k == 'fix' else 'floating'))
            if rng.random() < 0.1:
                req.append((rng.choice(GNAMES + LNAMES), None))
            op = (k, r, req)
        elif k == 'union':
            m = rng.choice([1, 2, 2, 3]) if rng.random() < 0.95 else 0
            op = ('union', [rng.choice(refs) for _ in range(m)])
        elif k == 'copy':
            op = ('copy', rng.choice(refs))
        else:
            r = pick()
            t = ref.table(r)
            if t and rng.random() < 0.93:
                j = rng.randrange(len(t))
                e = t[j]
                if e.fixed:
                    v = e.initial if rng.random() < 0.5 else e.initial + rng.choice([-1, 1])
                    ctx.count('setv:fixed-' + ('same' if v == e.initial else 'changed'))
                else:
                    v = gen_value_for(rng, e, ctx, 'setv')
                if rng.random() < 0.1:
                    j -= len(t)
            else:
                j, v = len(t), 0
                ctx.count('setv:bad-index')
            op = ('setv', r, j, v)
        ops.append(op)
        err = w.apply(op)
        ref.adopt(w)
        if len(ref.sets) > 5:
            break
    return ops


def layouts():
    out = []
    for n in range(1, 5):
        out += [list(t) for t in itertools.product([True, False], repeat=n)]
    return out


def alphabet(src):
    """a fixed alphabet of concrete operations for the bounded-exhaustive enumeration"""
    nmod = len(src)
    allm = list(range(nmod))
    A = [
        ('map', (0, 1, 0, 3, None), None, None),
        ('map', (1, 5, None, None, None), [0], ('s', 4)),
        ('map', (2, 2, 0, 3, None), allm[-1:], ('q', [4 + (i % 2) for i in range(nmod)])),
        ('map', (3, 7, 6, 8, True), allm[:2], ('s', 5)),
        ('fix', 'G', [(0, 4)]),
        ('fix', 'G', [(2, None)]),
        ('float', 'G', [(1, ('t', 5, 4, 6))]),
        ('float', 'G', [(0, None), (3, ('i', 9))]),
        ('union', ['G', 0]),
        ('copy', 'G'),
        ('fix', 0, [(2, 1)]),
        ('new',),
        ('add', 0, True, (2, 0, 0, 3, None)),
        ('add', 0, False, (1, 3, None, None, None)),
    ]
    return A


def corpus_cases():
    """the failing inputs of the defects repaired in /repo (known_findings `fixed` entries of C04)"""
    fl = lambda n, i=1: (n, i, 0, 3, None)      # noqa: E731
    fx = lambda n, v=5: (n, v, None, None, None)  # noqa: E731
    return [
        # 26ba7e8: request rejected in the middle of the rebuild loop left the caches cleared
        {'src': [True], 'ops': [('map', fl(0), None, None), ('map', fx(1), None, None), ('map', fl(2), None, None),
                                ('fix', 'G', [(0, 1), (1, 2)]), ('float', 'G', [(1, None), (2, None)]),
                                ('float', 'G', [(1, ('t', 9, 0, 3))])]},
        # a6f00b3: non-source model before the source models, selection by source objects
        {'src': [False, True, False, True, True], 'ops': [('map', fl(0), [1, 3], ('s', 4)), ('map', fx(1), [0, 4], None),
                                                          ('map', fl(2), [3, 4], ('q', [4, 5, 6, 7, 4]))]},
        # 9f2340d: make_floating modified the parameter before rejecting
        {'src': [True, False], 'ops': [('map', fx(0), None, None), ('map', (1, 2, 0, 3, True), None, ('s', 4)),
                                       ('float', 'G', [(0, None)]), ('float', 'G', [(1, ('i', 7))]),
                                       ('float', 'G', [(1, ('t', None, 5, 6))]), ('float', 'G', [(1, None), (0, ('t', 1, 0, 2))])]},
        # b3880d5: map_param added the global parameter before the names column could be created
        {'src': [True, True, False], 'ops': [('map', fl(0), None, ('q', [4, 5])), ('map', fl(0), [0], ('q', [4, 5])),
                                             ('map', fl(0), None, ('q', [4, 5, 6, 7])), ('map', fl(1), None, ('q', [4, 5, 6])),
                                             ('map', fl(0), None, ('q', [4]))]},
        # afa632e: union shared the Parameter objects with its operands
        {'src': [True], 'ops': [('new',), ('add', 0, False, fl(0)), ('add', 0, True, fx(1)), ('union', [0]),
                                ('fix', 1, [(0, 7)]), ('float', 0, [(1, ('t', 1, 0, 2))]), ('union', [0, 1, 'G']),
                                ('copy', 1), ('float', 1, [(0, ('t', 1, 0, 2))]), ('setv', 2, 0, 2)]},
        # zero is a value like any other: requested initial / fixed value / bounds / setter value exactly 0 (and -0.0)
        {'src': [True, False], 'ops': [('map', fx(0, 5), None, None), ('map', (1, 0, 0, 0, None), [0], ('s', 4)),
                                       ('map', (2, 0, -1, 1, None), None, ('s', 5)),
                                       ('float', 'G', [(0, ('t', 0, -1, 6))]), ('fix', 'G', [(0, 0)]),
                                       ('float', 'G', [(0, ('t', 3, 0, 4))]), ('fix', 'G', [(0, None)]),
                                       ('float', 'G', [(0, ('i', 0))]), ('setv', 'G', 0, 0), ('setv', 'G', 2, 0),
                                       ('fix', 'G', [(2, 0), (1, None)]), ('float', 'G', [(2, ('t', 0, 0, 0)), (1, None)]),
                                       ('fix', 'G', [(0, 7)]), ('float', 'G', [(0, ('t', 0, None, None))])]},
        {'src': [True, False], 'nz': True,
         'ops': [('map', fx(0, 5), None, None), ('map', (1, 0, 0, 0, None), [0], ('s', 4)),
                 ('float', 'G', [(0, ('t', 0, -1, 6))]), ('fix', 'G', [(0, 0)]), ('float', 'G', [(0, ('t', 3, 0, 4))]),
                 ('fix', 'G', [(0, None)]), ('float', 'G', [(0, ('i', 0))]), ('setv', 'G', 0, 0),
                 ('fix', 'G', [(0, 7)]), ('float', 'G', [(0, ('t', 0, 0, None))]), ('union', ['G']), ('copy', 0)]},
        # OPEN finding C04-shared-parameter: an existing Parameter object handed to a second owner
        {'src': [True, False], 'ops': [('new',), ('add', 0, False, fl(0)), ('add', 0, False, fx(1)), ('new',),
                                       ('addx', 1, False, 0, 0), ('newfrom', 0), ('mapx', 0, 1, None, ('s', 4)),
                                       ('fix', 0, [(0, 7)]), ('float', 'G', [(1, ('t', 1, 0, 2))]), ('fix', 1, [(0, None)]),
                                       ('setv', 'G', 0, 2), ('copy', 2), ('union', [1, 2]), ('float', 2, [(0, ('t', 1, 0, 3))]),
                                       ('addx', 1, True, 0, 1), ('addx', 1, True, 0, 1), ('addx', 5, True, 0, 1), ('addx', 1, True, 0, 7)]},
        # the documented two-step protocol change_fixed_value / update_fixed_param_value_cache: all views agree after the update
        {'src': [True, True], 'ops': [('map', fx(0, 5), None, None), ('map', fl(1), [1], ('s', 4)), ('map', fx(2, 3), [0], ('s', 4)),
                                      ('chg', 'G', 0, 9), ('upd', 'G'), ('chg', 'G', 1, 2), ('chg', 'G', 2, 0), ('copy', 'G'),
                                      ('upd', 'G'), ('chg', 0, 2, BIG), ('upd', 0), ('fix', 'G', [(1, None)]), ('chg', 'G', 1, 8),
                                      ('float', 'G', [(0, ('t', 9, 0, 9))]), ('upd', 'G'), ('chg', 'G', 5, 1), ('upd', 3)]},
        # non-integer and float32-sensitive values ((2^27+1)/8 = 16777216.125) in every role
        {'src': [True, True], 'ops': [('map', fx(0, BIG), None, None), ('map', (1, BIG, -BIG, BIG + 8, None), [0], ('s', 4)),
                                      ('map', (2, 3, 1, 5, None), None, ('s', 5)), ('fix', 'G', [(1, None)]),
                                      ('float', 'G', [(0, ('t', -BIG, -BIG, BIG)), (1, None)]), ('fix', 'G', [(2, BIG)]),
                                      ('setv', 'G', 1, BIG + 8), ('setv', 'G', 1, BIG + 9), ('union', ['G']), ('copy', 0),
                                      ('float', 0, [(2, ('t', BIG + 8, BIG, BIG + 8))]), ('fix', 0, [(0, -BIG)])]},
        # 38184bc (C02, same code): fixed parameter declared ahead of a floating one
        {'src': [True, True], 'ops': [('map', fx(0), None, None), ('map', fl(1), [1], ('s', 4)), ('map', fl(2), [0], ('s', 4)),
                                      ('fix', 'G', [(1, None)]), ('float', 'G', [(0, ('t', 1, 0, 2))])]},
    ]


def probe_parameter_api(ctx):
    """deterministic probes of the Parameter API outside the operation alphabet: NaN (must be rejected like any
    value outside the bounds) and the unchecked direct attribute setters (OPEN finding C04-unchecked-setters)"""
    from skyllh.core.parameters import Parameter, ParameterSet
    nan = float('nan')

    def must_raise(what, f):
        ctx.count('probe:nan')
        try:
            f()
        except (ValueError, TypeError):
            return
        ctx.violation('Parameter.value', 'nan-accepted', f'{what} accepted NaN', case={'probe': what}, impl='accepted',
                      predicate='values outside a floating parameter\'s bounds are rejected')

    must_raise('Parameter(initial=nan, 0, 1)', lambda: Parameter('a', nan, 0.0, 1.0))
    must_raise('Parameter(0.5, valmin=nan, 1)', lambda: Parameter('a', 0.5, nan, 1.0))
    must_raise('Parameter(0.5, 0, valmax=nan)', lambda: Parameter('a', 0.5, 0.0, nan))
    p = Parameter('a', 0.5, 0.0, 1.0)
    must_raise('value = nan', lambda: setattr(p, 'value', nan))
    if not (p.value == 0.5):
        ctx.violation('Parameter.value', 'nan-accepted', 'value changed by a rejected assignment', case={'probe': 'value = nan'})
    q = Parameter('b', 0.5)
    must_raise('make_floating(nan, 0, 1)', lambda: q.make_floating(nan, 0.0, 1.0))
    must_raise('make_floating(0.5, nan, 1)', lambda: q.make_floating(0.5, nan, 1.0))
    if not (q.isfixed and q.value == 0.5 and q.valmin is None):
        ctx.violation('Parameter.make_floating', 'state-changed-by-rejected-operation', 'rejected make_floating modified the parameter',
                      case={'probe': 'make_floating(nan)'})
    s = ParameterSet([q])
    must_raise('make_params_floating({b: (nan, 0, 1)})', lambda: s.make_params_floating({'b': (nan, 0.0, 1.0)}))
    if not (s.n_fixed_params == 1 and s.n_floating_params == 0):
        ctx.violation('ParameterSet.make_params_floating', 'state-changed-by-rejected-operation', 'rejected NaN request modified the set',
                      case={'probe': 'make_params_floating(nan)'})
    # the direct setters
    site, kind = 'Parameter.valmin / valmax / isfixed / initial setters', 'direct-attribute-setter-unchecked'
    r = Parameter('c', 0.5, 0.0, 1.0)
    t = ParameterSet([r])
    r.valmin = 0.75
    if not (r.valmin <= r.value <= r.valmax):
        ctx.violation(site, kind, 'p.valmin = 0.75 accepted with value 0.5', case={'probe': 'valmin setter'}, impl=(r.valmin, r.value))
    r.isfixed = True
    if [bool(b) for b in t.fixed_params_mask] != [bool(x.isfixed) for x in t.params]:
        ctx.violation(site, kind, 'p.isfixed = True leaves the fixed mask of the owning set stale', case={'probe': 'isfixed setter'},
                      impl=[bool(b) for b in t.fixed_params_mask])


def gfl_stream(ctx, only=None):
    """extension stream: ParameterModelMapper.create_global_floating_params_dict on the worlds reached by the corpus
    histories, for the exact vector and for malformed ones (too short / too long / empty): real code vs model
    (xobs_gfl) vs an independent reading (floating names in declaration order zipped with the vector)"""
    cases = [only] if only is not None else [{'src': c['src'], 'nz': c.get('nz', False), 'ops': c['ops']} for c in corpus_cases()]
    exprs, impl = [], []
    for c in cases:
        w = PyWorld(c['src'], c.get('nz', False))
        for op in c['ops']:
            w.apply(op)
        del DAMAGE[:]
        g = w.pmm.global_paramset
        fl = [unnm(p.name) for p in g.params if not p.isfixed]      # independent: straight from the Parameter objects
        nf = len(fl)
        vecs = [[VEC0 + 8 * i for i in range(nf)], [5 + 3 * i for i in range(max(nf - 1, 0))],
                [-BIG + i for i in range(nf + 2)], []]
        got = []
        for vz in vecs:
            ctx.count('gfl:' + ('exact' if len(vz) == nf else 'short' if len(vz) < nf else 'long'))
            arr = V(vz)
            a0 = arr.tobytes()
            r = _res(lambda: sorted((unnm(k), fz(v)) for k, v in w.pmm.create_global_floating_params_dict(arr).items()))
            case = {'src': c['src'], 'nz': c.get('nz', False), 'ops': [list(o) for o in c['ops']], 'gfl': list(vz)}
            ctx.case(case)
            want = ('Ok', sorted(zip(fl, vz)))
            if id(g) in w.taint:
                want = r        # OPEN finding C04-shared-parameter: the name list of a stale owner is not a view of its objects
            if r != want:
                ctx.violation('ParameterModelMapper.create_global_floating_params_dict', 'wrong-dictionary',
                              f'got {r} want {want}', case=case, impl=repr(r), predicate='floating names in order zipped with the vector')
            if arr.tobytes() != a0:
                ctx.violation('ParameterModelMapper.create_global_floating_params_dict', 'value-vector-argument-modified',
                              repr(arr.tolist()), case=case)
            got.append(list(r[1]) if r[0] == 'Ok' else r)
        impl.append((c, vecs, flat(got, [])))
        exprs.append(f"xobs_gfl {c_list(c['src'], c_bool)} {c_list(c['ops'], c_xop)} {c_list(vecs, c_list)}")
    if not ctx.model_ok:
        return
    try:
        vals = coq_eval_raw('c04g', exprs)
    except RuntimeError as ex:
        ctx.broken.append({'kind': 'model-eval', 'error': str(ex)[:1500]})
        return
    for (c, vecs, it), v in zip(impl, vals):
        ctx.corr_cases += 1
        mt = coq_tokens(v)
        if mt != it:
            ctx.disagree('parameters.create_global_floating_params_dict',
                         {'src': c['src'], 'nz': c.get('nz', False), 'ops': [list(o) for o in c['ops']], 'gfl': vecs[0]},
                         ' '.join(it)[:300], ' '.join(mt)[:300])


# ------------------------------------------------------------------ run / replay
def run_batch(ctx, batch, tag):
    """batch: list of (case, mode).  Runs the implementation (with predicates) and the model, compares."""
    impl = []
    for k in range(0, len(batch), 2):
        pair = []
        for case, mode in batch[k:k + 2]:
            ctx.case({'src': case['src'], 'ops': case['ops'], 'mode': mode}, nontrivial=len(case['ops']) > 0)
            pair.append(Runner(ctx, case, mode))
        while any(not r.done() for r in pair):      # two worlds alive, driven alternately
            for r in pair:
                if not r.done():
                    r.step()
        for r, (case, mode) in zip(pair, batch[k:k + 2]):
            impl.append(impl_tokens(r.out, mode))
    if not ctx.model_ok:
        ctx.notes.append('model did not build: implementation-only predicates were evaluated')
        return
    try:
        vals = coq_eval_raw('c04' + tag, [model_expr(c, m) for c, m in batch])
    except RuntimeError as ex:
        ctx.broken.append({'kind': 'model-eval', 'error': str(ex)[:1500]})
        return
    for (case, mode), it, v in zip(batch, impl, vals):
        ctx.corr_cases += 1
        mt = coq_tokens(v)
        if mt != it:
            k = next((i for i, (a, b) in enumerate(zip(mt, it)) if a != b), min(len(mt), len(it)))
            ctx.disagree('parameters.' + (case['ops'][-1][0] if case['ops'] else 'init'),
                         {'src': case['src'], 'nz': case.get('nz', False), 'ops': [list(o) for o in case['ops']], 'mode': mode},
                         ' '.join(it[max(0, k - 12):k + 12]), ' '.join(mt[max(0, k - 12):k + 12]),
                         detail=f'first difference at token {k}')


def run(ctx):
    rng = ctx.rng
    probe_parameter_api(ctx)
    gfl_stream(ctx)
    batch = [(c, 'trace') for c in corpus_cases()]
    # bounded-exhaustive: every sequence over the alphabet up to length L, one case per distinct prefix
    lays = [[False, True], [True, False, True], [True], [False, True, True, False]]
    if ctx.thorough():
        lays = lays + [[True, True], [False, False, True], [True, True, False, True]]
    for li, src in enumerate(lays):
        A = alphabet(src)
        L = ctx.budget(3, 4) if li < 1 else (ctx.budget(2, 3) if li < 4 else 2)
        for n in range(1, L + 1):
            for seq in itertools.product(A, repeat=n):
                batch.append(({'src': src, 'ops': list(seq)}, 'last'))
                ctx.count(f'exhaustive:len{n}')
    # random histories, every model layout
    n_rand = ctx.budget(250, 2000)
    lay = layouts()
    for i in range(n_rand):
        src = lay[i % len(lay)] if i < 2 * len(lay) else rng.choice(lay)
        length = rng.choice([3, 5, 6, 6, 8, 12, 18, 25])
        ops = gen_ops(ctx, rng, src, length, xops=(i % 3 == 2))
        ctx.count(f'random:len{len(ops)}')
        ctx.count('layout:' + ''.join('S' if b else 'm' for b in src))
        batch.append(({'src': src, 'ops': ops, 'nz': i % 4 == 3}, 'trace'))
        if i % 4 == 3:
            ctx.count('zeros-as-negative-zero')
    ctx.sample({'src': batch[-1][0]['src'], 'ops': [list(o) for o in batch[-1][0]['ops']][:8]})
    ctx.sample({'src': batch[0][0]['src'], 'ops': [list(o) for o in batch[0][0]['ops']]})
    run_batch(ctx, batch, 'm')


def replay(ctx, rp):
    c = rp.get('case') or {}
    if not c.get('ops'):
        ctx.notes.append('replay file has no concrete input (broken obligation): re-running the full check')
        return run(ctx)
    case = {'src': [bool(b) for b in c['src']], 'ops': [norm_op(tup(o)) for o in c['ops']], 'nz': bool(c.get('nz', False))}
    if 'gfl' in c:
        return gfl_stream(ctx, only=case)
    run_batch(ctx, [(case, 'trace')], 'r')
